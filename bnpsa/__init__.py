"""bnpsa - bionumpy static analysis (stdlib `ast` only; never imports or runs bionumpy)."""
