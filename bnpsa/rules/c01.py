"""C01 - chunked reading loses, duplicates or reorders no entry.

Decided clauses (structure of NumpyFileReader.read_chunk/_get_buffer/__add_newline_to_end, every from_raw_buffer,
NpDataclassReader.read_chunks):
 R1 pending bytes: no CFG path from a fill of the pending list to `return None` that avoids handing the bytes to the parser,
    raising, or a guard proving the list empty;
 R2 carry-over conservation: seek offset == buff.size - chunk.size (whence 1) or tail slice chunk[buff.size:], under the right
    guards; carried bytes are appended first; stale carry-over is reset; concatenation keeps order;
 R3 the end-of-file terminator is only appended at end of file;
 R4 every format's from_raw_buffer hands a *prefix slice* of the chunk to its buffer and the buffer's size is that data's size;
 R5 the chunk stream stops at the first empty chunk only, and an empty table is returned exactly when the file reader returned None.
"""
from __future__ import annotations
import ast

from ..index import AnchorMissing, Unrecognised
from ..cfg import CFG
from ..astutil import linear_body, u, body_walk, local_env, func_calls, walk_local, always_terminates, statements, root_name, inline_locals
from .. import sym

EXPLANATION = ("Static path and dataflow analysis of the chunk reader: a statement-level CFG of read_chunk is searched for paths on which bytes already "
               "read (pending list / carried tail) can reach a normal exit without being delivered to the format parser, re-queued or turned into an error; "
               "seek/tail arithmetic is compared as linear normal forms; end-of-file terminator calls are checked for their guards; every format's "
               "from_raw_buffer is checked to cut a prefix of the chunk. Holds for every file and chunk size at once; does not decide that each format's "
               "cut index is the last complete entry (value arithmetic).")

PARSER = "bionumpy.io.parser"


def _is_none(n):
    return n is None or (isinstance(n, ast.Constant) and n.value is None)


def _pending_list(ctx, f):
    """The local list that accumulates raw reads: assigned [] and appended with the result of self._get_buffer(...)."""
    env = local_env(f.node)
    cands = {}
    for n in body_walk(f.node):
        if isinstance(n, ast.Assign) and len(n.targets) == 1 and isinstance(n.targets[0], ast.Name) and isinstance(n.value, ast.List) and not n.value.elts:
            cands[n.targets[0].id] = n
    getbuf_vars = set()
    for n in body_walk(f.node):
        if isinstance(n, ast.Assign) and isinstance(n.value, ast.Call) and u(n.value.func).endswith("_get_buffer"):
            for t in n.targets:
                if isinstance(t, ast.Name):
                    getbuf_vars.add(t.id)
    for name in cands:
        apps = [c for c in func_calls(f.node) if u(c.func) == f"{name}.append"]
        if any(c.args and isinstance(c.args[0], ast.Name) and c.args[0].id in getbuf_vars for c in apps):
            return name, apps, getbuf_vars
    raise AnchorMissing("pending list of raw reads not found in read_chunk")


def r1_pending_bytes(ctx):
    f = ctx.index.func(PARSER, "NumpyFileReader.read_chunk")
    g = CFG(f.node)
    pend, apps, getbuf_vars = _pending_list(ctx, f)
    fills = [n for n in g.stmt_nodes(ast.Expr) if isinstance(n.ast.value, ast.Call) and u(n.ast.value.func) == f"{pend}.append"]
    ctx.floor("fills of the pending list in read_chunk", len(fills), 1)
    # discharge actions
    def is_discharge(n):
        if n.ast is None:
            return False
        if n.kind == "stmt":
            if isinstance(n.ast, ast.Raise):
                return True
            for c in (x for x in walk_local(n.ast) if isinstance(x, ast.Call)):
                nm = u(c.func)
                if nm.endswith("from_raw_buffer"):
                    return True
        return False

    def emptiness_edge(a, lab, b):
        if a.kind != "test":
            return False
        t = sym.canon(a.ast)
        empt_true = {f"(0)==(len({pend}))", f"not({pend})", f"(len({pend}))<(1)", f"not(len({pend}))"}
        empt_false = {f"len({pend})", pend, f"(0)<(len({pend}))", f"(0)!=(len({pend}))"}
        return (t in empt_true and lab == "T") or (t in empt_false and lab == "F")

    # made_buffer: complete-entry check that already built the buffer from the pending chunks
    def made_buffer_edge(a, lab, b):
        if a.kind != "test":
            return False
        t = sym.canon(a.ast)
        return t.endswith("is not(None)") and "made" in t and lab == "T"

    none_returns = [n for n in g.stmt_nodes(ast.Return) if _is_none(n.ast.value)]
    targets = none_returns + [g.exit]
    # exits reached only by `return <something>` are fine: block non-None returns
    def blocked(n):
        if is_discharge(n):
            return True
        if n.kind == "stmt" and isinstance(n.ast, ast.Return) and not _is_none(n.ast.value):
            return True
        return False
    bad = g.path(fills, [n for n in none_returns], blocked=blocked,
                 blocked_edge=lambda a, l, b: emptiness_edge(a, l, b) or made_buffer_edge(a, l, b))
    ctx.count("cfg_nodes", len(g.nodes))
    ctx.ob(f.where, f"no path from `{pend}.append(...)` to `return None` avoids handing the bytes to the parser / raising / an emptiness guard",
           bad is None, CFG.show(bad) if bad else "", key="C01-R1|read_chunk|pending-bytes-dropped")
    # fall-off exit (implicit None) after the buffer was built is only allowed when the chunk is empty
    built = [n for n in g.nodes if n.kind == "stmt" and isinstance(n.ast, ast.Assign) and any(
        isinstance(c, ast.Call) and u(c.func).endswith("from_raw_buffer") for c in walk_local(n.ast))]
    ctx.floor("buffer construction sites in read_chunk", len(built), 1)
    buffname = u(built[0].ast.targets[0])
    def ret_buff(n):
        return n.kind == "stmt" and isinstance(n.ast, ast.Return) and not _is_none(n.ast.value) and sym.canon(n.ast.value) in (buffname, f"wrapper({buffname})")
    def empty_chunk_edge(a, l, b):
        return a.kind == "test" and l == "F" and ".size" in u(a.ast)
    bad2 = g.path(built, [g.exit], blocked=lambda n: ret_buff(n) or (n.kind == "stmt" and isinstance(n.ast, ast.Raise)), blocked_edge=empty_chunk_edge)
    ctx.ob(f.where, "once the buffer of complete entries is built, every normal exit returns it (except for an empty chunk)",
           bad2 is None, CFG.show(bad2) if bad2 else "", key="C01-R1|read_chunk|built-buffer-not-returned")
    # wrapper identity
    w = ctx.index.func(PARSER, "wrapper")
    rets = [n for n in body_walk(w.node) if isinstance(n, ast.Return)]
    ctx.ob(w.where, "wrapper() returns its argument unchanged", len(rets) == 1 and u(rets[0].value) == w.params[0], "")


def r2_carry_over(ctx):
    f = ctx.index.func(PARSER, "NumpyFileReader.read_chunk")
    g = CFG(f.node)
    env = local_env(f.node)
    pend, apps, getbuf_vars = _pending_list(ctx, f)
    built = [n for n in g.nodes if n.kind == "stmt" and isinstance(n.ast, ast.Assign) and any(
        isinstance(c, ast.Call) and u(c.func).endswith("from_raw_buffer") for c in walk_local(n.ast))]
    ctx.need(len(built) == 1, "expected one from_raw_buffer call in read_chunk")
    call = [c for c in walk_local(built[0].ast) if isinstance(c, ast.Call) and u(c.func).endswith("from_raw_buffer")][0]
    buff = u(built[0].ast.targets[0])
    chunk = u(call.args[0])
    # (a) seek
    seeks = [n for n in g.stmt_nodes(ast.Expr) if isinstance(n.ast.value, ast.Call) and u(n.ast.value.func).endswith(".seek")]
    ctx.floor("seek-back sites in read_chunk", len(seeks), 1)
    for sn in seeks:
        c = sn.ast.value
        ctx.need(len(c.args) == 2, "seek call does not have (offset, whence)")
        off = sym.poly(c.args[0])
        want = sym.poly(sym.parse_expr(f"{buff}.size - {chunk}.size"))
        ctx.ob(f.where, "seek-back offset == (size of delivered buffer) - (size of bytes read), relative to the current position",
               off == want and sym.poly(c.args[1]) == sym.Poly.const(1), f"offset {off}, whence {u(c.args[1])}", key="C01-R2|seek-offset")
        gt = g.guard_texts(sn)
        ctx.ob(f.where, "seek-back happens only when the file is not finished and not in prepend (gzip) mode",
               {"not(self._is_finished)", "not(self._do_prepend)"} <= gt, f"guards: {sorted(gt)}", key="C01-R2|seek-guards")
    # (b) tail kept: the carry-over attribute is found by role (appended to the pending list / assigned from a slice of the chunk)
    carry = set()
    for c in apps:
        if c.args and isinstance(c.args[0], ast.Attribute) and isinstance(c.args[0].value, ast.Name) and c.args[0].value.id == "self":
            carry.add(u(c.args[0]))
    for n in g.stmt_nodes(ast.Assign):
        t = n.ast.targets[0]
        if isinstance(t, ast.Attribute) and isinstance(t.value, ast.Name) and t.value.id == "self" and isinstance(n.ast.value, ast.Subscript) \
                and u(n.ast.value.value) == chunk:
            carry.add(u(t))
    if len(carry) != 1:
        raise AnchorMissing(f"carry-over attribute of read_chunk not identified (candidates {sorted(carry)})")
    CARRY = carry.pop()
    tails = [n for n in g.stmt_nodes(ast.Assign) if u(n.ast.targets[0]) == CARRY and isinstance(n.ast.value, ast.Subscript)]
    for tn in tails:
        sub = tn.ast.value
        ok = isinstance(sub.slice, ast.Slice) and sub.slice.upper is None and sub.slice.step is None and sub.slice.lower is not None and \
            sym.poly(sub.slice.lower) == sym.poly(sym.parse_expr(f"{buff}.size")) and u(sub.value) == chunk
        ctx.ob(f.where, "carried tail == bytes read beyond the delivered buffer (chunk[buff.size:])", ok, u(tn.ast), key="C01-R2|tail-slice")
        gt = g.guard_texts(tn)
        ctx.ob(f.where, "the tail is kept exactly in prepend mode while the file is not finished",
               {"not(self._is_finished)", "self._do_prepend"} <= gt, f"guards: {sorted(gt)}", key="C01-R2|tail-guards")
    # (c) every path from buffer construction (or made_buffer) to exit resets / refills the carry-over and either seeks or keeps the tail when not finished
    resets = [n for n in g.stmt_nodes(ast.Assign) if u(n.ast.targets[0]) == CARRY]
    made = [n for n in g.stmt_nodes(ast.Assign) if u(n.ast.targets[0]) == buff and n not in built]
    bad = g.path(built + made, [g.exit], blocked=lambda n: n in resets or (n.kind == "stmt" and isinstance(n.ast, ast.Raise)))
    ctx.ob(f.where, "after a chunk is cut the previous carried tail is always reset (no stale bytes are re-delivered)", bad is None, CFG.show(bad) if bad else "",
           key="C01-R2|stale-prepend")
    def fin_edge(a, l, b):
        if a.kind != "test":
            return False
        t = sym.canon(a.ast)
        return (t == "not(self._is_finished)" and l == "F") or (t == "self._is_finished" and l == "T")
    bad = g.path(built + made, [g.exit], blocked=lambda n: n in seeks or n in tails or (n.kind == "stmt" and isinstance(n.ast, ast.Raise)), blocked_edge=fin_edge)
    ctx.ob(f.where, "while the file is not finished every cut is followed by a seek-back or by keeping the tail (unconsumed bytes are never skipped)",
           bad is None, CFG.show(bad) if bad else "", key="C01-R2|tail-skipped")
    # (d) order: carried bytes are appended before any new read
    pre = [n for n in g.stmt_nodes(ast.Expr) if isinstance(n.ast.value, ast.Call) and u(n.ast.value.func) == f"{pend}.append" and u(n.ast.value.args[0]) == CARRY]
    new = [n for n in g.stmt_nodes(ast.Expr) if isinstance(n.ast.value, ast.Call) and u(n.ast.value.func) == f"{pend}.append" and u(n.ast.value.args[0]) != CARRY]
    ctx.need(new, "appends of new reads not found")
    back = g.path(new, pre)
    ctx.ob(f.where, "the carried tail is appended before any newly read bytes (never after)", back is None, CFG.show(back) if back else "", key="C01-R2|order")
    reads = [n for n in g.nodes if n.kind == "stmt" and any(isinstance(c, ast.Call) and u(c.func).endswith("_get_buffer") for c in walk_local(n.ast))]
    ctx.need(reads, "raw read call not found in read_chunk")
    def carry_empty_edge(a, l, b):
        if a.kind != "test":
            return False
        t = sym.canon(a.ast)
        return (t in (f"len({CARRY})", CARRY, f"(0)<(len({CARRY}))") and l == "F") or (t in (f"not({CARRY})", f"(0)==(len({CARRY}))") and l == "T")
    bad = g.path([g.entry], reads, blocked=lambda n: n in pre, blocked_edge=carry_empty_edge)
    ctx.ob(f.where, "a non-empty carried tail is always queued before the first new read (carried bytes are never dropped)", bad is None,
           CFG.show(bad) if bad else "", key="C01-R2|carry-requeued")
    others = [c for c in func_calls(f.node) if u(c.func) in (f"{pend}.insert", f"{pend}.reverse", f"{pend}.sort", f"{pend}.pop", f"{pend}.extend", f"{pend}.clear", f"{pend}.remove")]
    ctx.ob(f.where, "the pending list is only ever appended to", not others, "; ".join(u(c) for c in others))
    # (e) concatenation keeps order / single chunk shortcut
    asg = [n for n in g.stmt_nodes(ast.Assign) if u(n.ast.targets[0]) == chunk and n.ast.value is not None and pend in {x.id for x in ast.walk(n.ast.value) if isinstance(x, ast.Name)}]
    forms = {sym.canon(n.ast.value) for n in asg}
    ok = forms <= {f"np.concatenate({pend})", f"{pend}[0]"} and f"np.concatenate({pend})" in forms
    ctx.ob(f.where, "the bytes handed to the parser are the pending reads concatenated in order", ok, f"forms: {sorted(forms)}", key="C01-R2|concat")
    for n in asg:
        if sym.canon(n.ast.value) == f"{pend}[0]":
            gt = g.guard_texts(n)
            ctx.ob(f.where, "the single-read shortcut is taken only when exactly one read is pending", f"(1)==(len({pend}))" in gt, f"guards: {sorted(gt)}")
    # (f) finished flag: short read
    gb = ctx.index.func(PARSER, "NumpyFileReader._get_buffer")
    fin = [n for n in body_walk(gb.node) if isinstance(n, ast.Assign) and u(n.targets[0]) == "self._is_finished"]
    ctx.need(len(fin) == 1, "_is_finished assignment not found in _get_buffer")
    genv = local_env(gb.node)
    t = sym.canon(fin[0].value)
    # bytes_read and min_chunk_size by role: second element of the raw read, first size parameter
    ok = t == f"(bytes_read)<({gb.params[1]})"
    ctx.ob(gb.where, "end of file is inferred from a short read (bytes read < bytes requested)", ok, t, key="C01-R2|finished-flag")
    # ... on EVERY path through _get_buffer: a read of 0 bytes is a short read too (a return placed before the flag is set leaves the reader 'not finished'
    # after the end of the file: read_chunk then seeks back / keeps a tail that does not exist)
    gg = CFG(gb.node)
    fin_nodes = [n for n in gg.stmt_nodes(ast.Assign) if n.ast is fin[0]]
    reads = [n for n in gg.nodes if n.kind == "stmt" and any(isinstance(c, ast.Call) and u(c.func).endswith("__read_raw_chunk") for c in ast.walk(n.ast))]
    if fin_nodes and reads:
        bad = gg.path([reads[0]], [gg.exit], blocked=lambda n: n in fin_nodes)
        ctx.ob(gb.where, "the end-of-file flag is updated after every raw read, whatever the read returned (no return between the read and the update)", bad is None,
               CFG.show(bad) if bad else "", key="C01-R2|finished-flag-every-path", definite=True)
    raw = ctx.index.func(PARSER, "NumpyFileReader.__read_raw_chunk")
    rtxt = [u(n.value) for n in body_walk(raw.node) if isinstance(n, ast.Return)]
    renv = local_env(raw.node)
    ok = len(rtxt) == 1 and sym.canon(ast.parse(rtxt[0], mode="eval").body, renv) in (
        f"(np.frombuffer(self._file_obj.read({raw.params[1]}), dtype='uint8'), np.frombuffer(self._file_obj.read({raw.params[1]}), dtype='uint8').size)",
        f"(np.frombuffer(self._file_obj.read({raw.params[1]}), dtype=np.uint8), np.frombuffer(self._file_obj.read({raw.params[1]}), dtype=np.uint8).size)")
    ctx.ob(raw.where, "a raw read asks the file for exactly the requested number of bytes and reports how many arrived", ok, "; ".join(rtxt))
    calls_ = [c for c in func_calls(gb.node) if u(c.func).endswith("__read_raw_chunk")]
    ok = len(calls_) == 1 and calls_[0].args and u(calls_[0].args[0]) == gb.params[1]
    ctx.ob(gb.where, "_get_buffer requests min_chunk_size bytes, the same quantity the short-read test compares with", ok, "")
    rets = [n for n in body_walk(gb.node) if isinstance(n, ast.Return) and not _is_none(n.value)]
    ok = all(sym.canon(r.value) in ("a[:bytes_read]", "a") for r in rets) and rets
    ctx.ob(gb.where, "_get_buffer returns exactly the bytes read (plus terminator)", ok, "; ".join(u(r.value) for r in rets))


def r3_eof_marker(ctx):
    ix = ctx.index
    cls = ix.cls(PARSER, "NumpyFileReader")
    sites = []
    for mi in ix.modules.values():
        for fi in mi.functions.values():
            for c in func_calls(fi.node):
                if u(c.func).endswith("__add_newline_to_end") or u(c.func).endswith("_NumpyFileReader__add_newline_to_end"):
                    sites.append((fi, c))
    ctx.floor("call sites of the end-of-file terminator", len(sites), 2)
    rd = ix.func(PARSER, "NumpyFileReader.read")
    ctx.ob(rd.where, "read(): the whole-file read ends its data with the SAME terminator routine as the chunked read (a missing final line break and the new-entry "
           "marker of wrapped FASTA are appended, in that order, after the last byte), so that both ways of reading a file see the same last entry",
           any(fi is rd for fi, _ in sites), "no call of __add_newline_to_end in read()", key="C01-R3|read|same-terminator")
    for fi, c in sites:
        g = CFG(fi.node)
        node = None
        for n in g.nodes:
            if n.ast is not None and n.kind == "stmt" and any(x is c for x in ast.walk(n.ast)):
                node = n
        ctx.need(node is not None, "terminator call not in a simple statement")
        gt = g.guard_texts(node)
        if fi.qualname == "NumpyFileReader.read":
            arg0 = u(c.args[0]) if c.args else ""
            env = local_env(fi.node)
            whole = any(isinstance(n, ast.Assign) and u(n.targets[0]) == arg0 and "self._file_obj.read()" in u(n.value) for n in body_walk(fi.node))
            ctx.ob(fi.where, "read(): terminator appended to the whole file contents", whole, u(c))
        elif fi.qualname == "NumpyFileReader._get_buffer":
            ctx.ob(fi.where, "_get_buffer: terminator appended only when the short-read (end-of-file) flag is set", "self._is_finished" in gt, f"guards: {sorted(gt)}",
                   key="C01-R3|_get_buffer|guard")
        elif fi.qualname == "NumpyFileReader.read_chunk":
            gb = [t for t in gt if t.endswith("is(None)")]
            names = {t.split(")")[0].strip("(") for t in gb}
            srcs = {u(n.targets[0]) for n in body_walk(fi.node) if isinstance(n, ast.Assign) and isinstance(n.value, ast.Call) and u(n.value.func).endswith("_get_buffer")}
            ctx.ob(fi.where, "read_chunk: terminator appended only in the branch where the file returned no more bytes", bool(names & srcs), f"guards: {sorted(gt)}",
                   key="C01-R3|read_chunk|guard")
        else:
            ctx.ob(fi.where, "the end-of-file terminator may only be appended by read(), _get_buffer() and read_chunk()'s end-of-file branch", False, u(c),
                   key=f"C01-R3|foreign-call|{fi.qualname}")
    # the terminator itself: newline if missing, then the new-entry marker for formats that declare one
    f = ix.func(PARSER, "NumpyFileReader.__add_newline_to_end")
    ifs = [n for n in linear_body(f.node) if isinstance(n, ast.If)]
    tests = [sym.canon(i.test) for i in ifs]
    p0, p1 = f.params[1], f.params[2]
    ok1 = any(t == f"(10)!=({p0}[{p1} - 1])" or t == f"({p0}[{p1} - 1])!=(10)" or t == f"(10)!=({p0}[-1 + {p1}])" for t in tests)
    ctx.ob(f.where, "a newline is appended iff the last byte read is not a newline", ok1, "; ".join(tests), key="C01-R3|newline-test")
    ok2 = any("hasattr(self._buffer_type, '_new_entry_marker')" in t for t in tests)
    ctx.ob(f.where, "the new-entry marker is appended only for formats that declare one", ok2, "; ".join(tests))
    for i in ifs:
        for n in walk_local(i):
            if isinstance(n, ast.Assign) and u(n.targets[0]) == p0:
                v = sym.canon(n.value)
                ok = v.startswith(f"np.append({p0}, np.uint8(")
                ctx.ob(f.where, "terminator bytes are appended at the end of the chunk (np.append)", ok, v)


def _find_prefix_slice(expr, env, param_aliases):
    """Is `expr` (after inlining locals) a prefix slice x[:E] (possibly nested prefix slices) of the chunk parameter?"""
    n = expr
    depth = 0
    seen_slice = False
    while depth < 10:
        depth += 1
        if isinstance(n, ast.Name) and n.id in env and n.id not in param_aliases:
            n = env[n.id]
            continue
        if isinstance(n, ast.Subscript) and isinstance(n.slice, ast.Slice):
            sl = n.slice
            if sl.lower is None and sl.step is None and sl.upper is not None:
                seen_slice = True
                n = n.value
                continue
            return False, "not a prefix slice: " + u(n)
        if isinstance(n, ast.Call) and u(n.func) in ("EncodedArray", "np.asarray", "np.asanyarray") and n.args:
            n = n.args[0]
            continue
        break
    if isinstance(n, ast.Name) and n.id in param_aliases:
        return seen_slice, ("" if seen_slice else "the whole chunk is passed uncut")
    return False, f"data does not derive from the chunk parameter: {u(n)}"


def r4_every_format_cuts(ctx):
    ix = ctx.index
    base = ix.cls("bionumpy.io.file_buffers", "FileBuffer")
    impls = []
    for c in ix.subclasses(base, strict=True):
        if "from_raw_buffer" in c.methods:
            impls.append(c)
    ctx.floor("from_raw_buffer implementations", len(impls), 5)
    for c in impls:
        fi = c.methods["from_raw_buffer"]
        p = fi.params[1]
        cnt_env = {}
        # chunk is typically rebound once: chunk = EncodedArray(chunk, BaseEncoding) -> treat the rebinding as an alias of the parameter
        aliases = {p}
        env = {}
        from ..astutil import assigned_names
        cnt = assigned_names(fi.node)
        for n in body_walk(fi.node):
            if isinstance(n, ast.Assign) and len(n.targets) == 1 and isinstance(n.targets[0], ast.Name):
                t = n.targets[0].id
                if t == p:
                    # allowed rebinding forms: wrap / asarray / prefix slice of itself
                    v = n.value
                    if isinstance(v, ast.Call) and u(v.func) in ("EncodedArray", "np.asarray", "np.asanyarray") and v.args and u(v.args[0]) == p:
                        continue
                    if isinstance(v, ast.Subscript) and u(v.value) == p and isinstance(v.slice, ast.Slice) and v.slice.lower is None and v.slice.step is None:
                        env["__cut__"] = v
                        continue
                    raise Unrecognised(f"{fi.where}: chunk parameter rebound in an unknown form: {u(n)}")
                elif cnt.get(t) == 1:
                    env[t] = n.value
        rets = [n for n in body_walk(fi.node) if isinstance(n, ast.Return)]
        ctx.need(rets, f"{fi.where}: no return")
        for r in rets:
            v = r.value
            ctx.need(isinstance(v, ast.Call) and u(v.func) == "cls" and v.args, f"{fi.where}: return is not cls(...): {u(v)}")
            first = v.args[0]
            # the data may be passed through an extractor constructor / helper: take its first argument
            hops = 0
            data_expr = first
            while hops < 4:
                hops += 1
                if isinstance(data_expr, ast.Name) and data_expr.id in env:
                    data_expr = env[data_expr.id]
                    continue
                if isinstance(data_expr, ast.Call) and (u(data_expr.func).endswith("_get_buffer_extractor") or u(data_expr.func).endswith("BufferExtractor")
                                                          or u(data_expr.func).endswith("Extractor")) and data_expr.args:
                    data_expr = data_expr.args[0]
                    continue
                break
            ok, why = _find_prefix_slice(data_expr, env, aliases)
            if not ok and "__cut__" in env and isinstance(data_expr, (ast.Name, ast.Subscript)) and root_name(data_expr) == p:
                # chunk itself was cut in place earlier (chunk = chunk[:E])
                ok, why = True, ""
            ctx.ob(fi.where, f"{c.name}.from_raw_buffer hands a prefix slice of the raw chunk (complete entries only) to its buffer", ok, why or u(first),
                   key=f"C01-R4|{c.name}|prefix")
    # size used by the reader == size of the data the buffer holds
    fb = ix.func("bionumpy.io.file_buffers", "FileBuffer.size")
    rets = [n for n in body_walk(fb.node) if isinstance(n, ast.Return)]
    ctx.ob(fb.where, "FileBuffer.size is the size of the buffer's data", len(rets) == 1 and u(rets[0].value) == "self.data.size", "")
    for c in ix.subclasses(base, strict=True):
        if "size" in c.methods:
            fi = c.methods["size"]
            rets = [u(n.value) for n in body_walk(fi.node) if isinstance(n, ast.Return)]
            ok = all(r in ("self._buffer_extractor.size", "self.data.size", "self._data.size") for r in rets)
            ctx.ob(fi.where, f"{c.name}.size is the size of the held data", ok, "; ".join(rets))


def r5_stream_termination(ctx):
    mod = "bionumpy.io.npdataclassreader"
    f = ctx.index.func(mod, "NpDataclassReader.read_chunks")
    env = local_env(f.node)
    rets = [n for n in body_walk(f.node) if isinstance(n, ast.Return)]
    ctx.need(len(rets) == 1 and isinstance(rets[0].value, ast.Call), "read_chunks: single return of a stream expected")
    stream = rets[0].value.args[0]
    c = sym.canon(stream, env)
    p1, p2 = f.params[1], f.params[2]
    ok = c == f"takewhile(len, (self.read_chunk({p1}, {p2}) for _ in repeat(None)))"
    ctx.ob(f.where, "the chunk stream is read_chunk() repeated in order until the first empty chunk", ok, c, key="C01-R5|takewhile")
    rc = ctx.index.func(mod, "NpDataclassReader.read_chunk")
    g = CFG(rc.node)
    empties = [n for n in g.stmt_nodes(ast.Return) if u(n.ast.value).endswith(".empty()")]
    ctx.floor("empty-table returns in NpDataclassReader.read_chunk", len(empties), 1)
    rd = [n for n in g.stmt_nodes(ast.Assign) if isinstance(n.ast.value, ast.Call) and u(n.ast.value.func) == "self._reader.read_chunk"]
    ctx.need(len(rd) == 1, "reader call not found")
    var = u(rd[0].ast.targets[0])
    for e in empties:
        gt = g.guard_texts(e)
        ctx.ob(rc.where, "an empty table is returned only when the file reader returned None (end of data)", f"({var})is(None)" in gt, f"guards: {sorted(gt)}",
               key="C01-R5|empty-only-at-eof")
    ok = [u(a) for a in rd[0].ast.value.args] == [rc.params[1], rc.params[2]]
    ctx.ob(rc.where, "chunk sizes are passed through to the file reader unchanged", ok, u(rd[0].ast.value))
    # NumpyFileReader.read_chunks: loop until finished / None
    f2 = ctx.index.func(PARSER, "NumpyFileReader.read_chunks")
    g2 = CFG(f2.node)
    ys = [n for n in g2.nodes if n.kind == "stmt" and isinstance(n.ast, ast.Expr) and isinstance(n.ast.value, ast.Yield)]
    ctx.need(len(ys) == 1, "NumpyFileReader.read_chunks: one yield expected")
    rd2 = [n for n in g2.stmt_nodes(ast.Assign) if isinstance(n.ast.value, ast.Call) and u(n.ast.value.func) == "self.read_chunk"]
    ctx.need(len(rd2) == 1, "read_chunk call not found")
    v = u(rd2[0].ast.targets[0])
    bad = g2.path(rd2, [g2.exit, rd2[0]], blocked=lambda n: n in ys,
                  blocked_edge=lambda a, l, b: a.kind == "test" and sym.canon(a.ast) == f"({v})is(None)" and l == "T")
    ctx.ob(f2.where, "every non-None chunk read by read_chunks is yielded", bad is None and u(ys[0].ast.value.value) == v, CFG.show(bad) if bad else "")


def r6_cross_chunk_scan(ctx):
    """Completeness scans that look across chunk borders carry state from one chunk to the next: every chunk must update it."""
    ix = ctx.index
    base = ix.cls("bionumpy.io.file_buffers", "FileBuffer")
    n = 0
    for c in ix.subclasses(base):
        fi = c.methods.get("contains_complete_entry")
        if fi is None:
            continue
        g = CFG(fi.node)
        loops = [x for x in g.nodes if x.kind == "for" and u(x.ast.iter) == fi.params[1]]
        pre = {}
        for x in g.stmt_nodes(ast.Assign):
            if isinstance(x.ast.targets[0], ast.Name):
                pre.setdefault(x.ast.targets[0].id, []).append(x)
        for loop in loops:
            inside = lambda x: g.path([loop], [x]) is not None and g.path([x], [loop]) is not None
            for name, nodes in pre.items():
                ins = [x for x in nodes if inside(x)]
                outs = [x for x in nodes if not inside(x)]
                if not ins or not outs or name == u(loop.ast.target):
                    continue
                # `name` is state carried across iterations
                n += 1
                first = [g.nodes[b] for b, l in g.succ[loop.id] if l == "iter"]
                bad = g.path(first, [loop], blocked=lambda x: x in ins, start_after=False)
                ctx.ob(fi.where, f"{c.name}.contains_complete_entry: the state `{name}` carried from chunk to chunk is updated for every chunk (no chunk is skipped)",
                       bad is None, CFG.show(bad) if bad else "", key=f"C01-R6|{c.name}|{name}", definite=True)
                uses = [x for x in g.nodes if x.kind == "test" and name in {y.id for y in ast.walk(x.ast) if isinstance(y, ast.Name)} and inside(x)]
                for t in uses:
                    skip = g.path(first, ins, blocked=lambda x: x.id == t.id or (x.kind == "stmt" and isinstance(x.ast, ast.Return)), start_after=False)
                    ctx.ob(fi.where, f"{c.name}.contains_complete_entry: the cross-chunk test on `{name}` is evaluated for every chunk before the state is updated",
                           skip is None, CFG.show(skip) if skip else "", key=f"C01-R6|{c.name}|{name}|test")
    ctx.floor("cross-chunk completeness scans with carried state", n, 1)
    # base implementation counts newlines over all chunks
    fb = ix.func("bionumpy.io.file_buffers", "FileBuffer.contains_complete_entry")
    env = local_env(fb.node)
    e = [x for x in body_walk(fb.node) if isinstance(x, ast.Return)]
    ok = len(e) == 1 and sym.canon(e[0].value, env) == sym.canon(sym.parse_expr(
        f"sum(np.count_nonzero(EncodedArray(chunk, BaseEncoding) == NEWLINE) for chunk in {fb.params[1]}) >= cls.n_lines_per_entry"))
    ctx.ob(fb.where, "default completeness test: the chunks together hold at least one entry's worth of line ends", ok, u(e[0].value) if e else "", key="C01-R6|base")
    ol = ix.func("bionumpy.io.one_line_buffer", "OneLineBuffer.contains_complete_entry")
    txt = u(ol.node)
    ok = "return super().contains_complete_entry(%s)" % ol.params[1] in txt and f"if len({ol.params[1]}) == 1:" in txt and \
        f"return (True, cls.from_raw_buffer({ol.params[1]}[0]))" in txt and "except IncompleteEntryException:\n            return False" in txt
    ctx.ob(ol.where, "line-group formats: a single chunk is complete iff it can be cut; several chunks fall back to the line count", ok, "", key="C01-R6|oneline")


def r7_crlf_sniff(ctx):
    """The carriage-return adjustment of line-group buffers is skipped when a sampled line end shows no '\r'.  The sample must be a line that
    cannot be the last line of the file: the reader appends a bare '\n' to a file without final newline, so the last line of the last entry of a
    CRLF file ends in '\n' only; a chunk holding just that entry would be taken for an LF chunk if its last line were sampled."""
    ix = ctx.index
    f = ix.func("bionumpy.io.one_line_buffer", "OneLineBuffer._modify_for_carriage_return")
    fe, data = f.params[1], f.params[2]
    env = local_env(f.node)
    # sampled positions: every subscript of the field-end table that feeds a test guarding the unadjusted return
    samples = []
    for t in [n for n in body_walk(f.node) if isinstance(n, ast.If)]:
        if not any(isinstance(r, ast.Return) and u(r.value) == fe for r in list(t.body) + list(t.orelse)):
            continue
        from ..astutil import inline_locals
        test = inline_locals(t.test, env)
        for sub in ast.walk(test):
            if isinstance(sub, ast.Subscript) and u(sub.value) == fe and isinstance(sub.slice, ast.Tuple) and len(sub.slice.elts) == 2:
                samples.append(sub.slice.elts[1])
    ctx.floor("sampled line-end columns in the carriage-return sniff", len(samples), 1)
    cols = []
    for c in samples:
        try:
            cols.append(int(sym.poly(c).const_value()) if sym.poly(c).is_const() else None)
        except Exception:
            cols.append(None)
    # the size guard `field_ends[0, 0] < 1` samples column 0 as well: fine
    bad = [u(c) for c, v in zip(samples, cols) if v is None or v != 0]
    ctx.ob(f.where, "the CRLF sniff of line-group formats looks at the first (header) line of entries only - a line that is never the file's last line", not bad,
           f"sampled columns: {[u(c) for c in samples]}", key="C01-R7|oneline-sniff-column")
    rets = [n for n in body_walk(f.node) if isinstance(n, ast.Return)]
    ok = any(sym.canon(r.value) == sym.canon(sym.parse_expr(f"{fe} - ({data}[{fe} - 1] == '\\r')")) for r in rets)
    ctx.ob(f.where, "when a carriage return is seen, every line end that is preceded by '\\r' is moved back by one (per line, not globally)", ok, "; ".join(u(r.value) for r in rets),
           key="C01-R7|oneline-adjust")
    g = ix.func("bionumpy.io.delimited_buffers", "DelimitedBuffer._modify_for_carriage_return")
    txt = u(g.node)
    ok = "ends[:, -1] -= data[ends[:, -1] - 1] == '\\r'" in txt and "ends = ends.copy()" in txt
    ctx.ob(g.where, "delimited formats: the last field of each line ends before a '\\r' that precedes the newline (on a copy of the end table)", ok, "", key="C01-R7|delimited-adjust")


_SHRINK = (ast.FloorDiv, ast.Div, ast.Sub, ast.RShift, ast.Mod)


def _may_shrink(expr) -> bool:
    for n in ast.walk(expr):
        if isinstance(n, ast.BinOp) and isinstance(n.op, _SHRINK):
            return True
        if isinstance(n, ast.Call) and u(n.func) in ("min", "np.minimum", "int", "round"):
            return True
    return False


def _floor_one(expr) -> bool:
    """max(k, ...) / np.maximum(k, ...) with a constant k >= 1 among the operands"""
    if isinstance(expr, ast.Call) and u(expr.func) in ("max", "np.maximum"):
        for a in expr.args:
            p = sym.poly(a)
            if p.is_const() and p.const_value() >= 1:
                return True
    return False


def r8_request_and_terminator(ctx):
    """(a) a zero-byte read is how end of file is recognised (`bytes_read == 0` -> None; short read -> finished), so the size asked of the file
    must be >= 1 whenever the caller's chunk size is: the reader may not shrink it.  (b) the end-of-file terminator built from a sample of the
    pending bytes must not queue the sampled bytes a second time.  (c) multi-line FASTA: the carriage-return sniff is existential."""
    ix = ctx.index
    for qn in ("NumpyFileReader.read_chunk", "NumpyFileReader.read_chunks", "NumpyFileReader._get_buffer", "NumpyFileReader.__read_raw_chunk"):
        f = ix.func(PARSER, qn)
        size = f.params[1]
        writes = [n for n in body_walk(f.node) if (isinstance(n, ast.Assign) and any(u(t) == size for t in n.targets)) or
                  (isinstance(n, ast.AugAssign) and u(n.target) == size)]
        for w in writes:
            val = w.value
            if isinstance(w, ast.AugAssign):
                shr = isinstance(w.op, _SHRINK) or _may_shrink(val)
            else:
                shr = _may_shrink(val) and not _floor_one(val)
            if shr:
                ctx.ob(f.where, "the number of bytes requested from the file is never reduced below the caller's chunk size (a request of 0 bytes reads nothing and is taken for end of file)",
                       False, u(w), key=f"C01-R8|request-size|{qn}", definite=True)
            elif not _floor_one(val):
                raise Unrecognised(f"{f.where}: chunk size parameter is reassigned in a form the checker cannot bound: {u(w)}")
        if not writes:
            ctx.ob(f.where, "the chunk size parameter reaches the read request unshrunk (never reassigned)", True, "", key=f"C01-R8|request-size-ok|{qn}", definite=True)
        ctx.count("chunk-size parameters checked", 1)
    f = ix.func(PARSER, "NumpyFileReader.read_chunk")
    size = f.params[1]
    gcalls = [c for c in func_calls(f.node) if u(c.func).endswith("_get_buffer")]
    ctx.floor("raw read requests in read_chunk", len(gcalls), 1)
    for c in gcalls:
        ctx.ob(f.where, "read_chunk asks for min_chunk_size bytes per read", bool(c.args) and u(c.args[0]) == size, u(c), key="C01-R8|request-arg")
    # (b) terminator built at end of file
    pend, apps, _ = _pending_list(ctx, f)
    term = [n for n in body_walk(f.node) if isinstance(n, ast.Assign) and isinstance(n.value, ast.Call) and u(n.value.func).endswith("__add_newline_to_end")]
    ctx.floor("end-of-file terminator constructions in read_chunk", len(term), 1)
    for t in term:
        c = t.value
        ctx.need(len(c.args) == 2, "terminator call does not have (bytes, count)")
        sample, cnt = c.args
        k = sym.poly(cnt)
        ok_sample = isinstance(sample, ast.Subscript) and sym.canon(sample.value) == f"{pend}[-1]" and isinstance(sample.slice, ast.Slice) and sample.slice.upper is None \
            and sample.slice.lower is not None and sym.poly(sample.slice.lower) == -k and k.is_const() and k.const_value() >= 1
        if not ok_sample:
            # the whole last pending piece as the sample (possibly through a local): every one of its bytes is already queued
            envl = {x.targets[0].id: x.value for x in body_walk(f.node) if isinstance(x, ast.Assign) and isinstance(x.targets[0], ast.Name) and x.lineno < t.lineno and x.targets[0].id != pend}
            s2, c2 = inline_locals(sample, envl), inline_locals(cnt, envl)
            if sym.canon(s2) == f"{pend}[-1]" and sym.canon(c2) in (f"{pend}[-1].size", f"len({pend}[-1])"):
                ok_sample = True
                k = sym.poly(c2)
        if not ok_sample:
            raise Unrecognised(f"{f.where}: end-of-file terminator is built from `{u(sample)}` with count `{u(cnt)}`: not the last k pending bytes")
        tgt = t.targets[0]
        ctx.need(isinstance(tgt, ast.Tuple) and isinstance(tgt.elts[0], ast.Name), "terminator call result is not unpacked into (chunk, count)")
        v = tgt.elts[0].id
        cuts = [n for n in body_walk(f.node) if isinstance(n, ast.Assign) and u(n.targets[0]) == v and isinstance(n.value, ast.Subscript) and u(n.value.value) == v
                and n.lineno > t.lineno]
        if not cuts:
            ctx.ob(f.where, "the bytes sampled from the pending data to build the end-of-file terminator are cut off again before the terminator is queued "
                   "(they are already queued)", False, "no cut found", key="C01-R8|terminator-cut", definite=True)
            continue
        sl = cuts[0].value.slice
        if isinstance(sl, ast.Slice) and sl.upper is None and sl.step is None and sl.lower is not None and sym.poly(sl.lower) == k:
            ok = True
        elif isinstance(sl, ast.Slice) and sl.lower is None:
            ok = False          # a prefix keeps the sampled bytes
        else:
            raise Unrecognised(f"{f.where}: cut of the terminator chunk has an unknown form: {u(cuts[0])}")
        ctx.ob(f.where, "the bytes sampled from the pending data to build the end-of-file terminator are cut off again before the terminator is queued "
               "(they are already queued)", ok, u(cuts[0]), key="C01-R8|terminator-cut", definite=True)
    # (c) multi-line FASTA CR sniff
    m = ix.func("bionumpy.io.multiline_buffer", "MultiLineFastaBuffer._modify_ends_for_carriage_returns")
    le, data = m.params[1], m.params[2]
    rets = [n for n in body_walk(m.node) if isinstance(n, ast.Return)]
    adj = [r for r in rets if sym.canon(r.value) == sym.canon(sym.parse_expr(f"{le} - ({data}[{le} - 1] == '\\r')"))]
    ctx.ob(m.where, "multi-line FASTA: every line end preceded by '\\r' is moved back by one (per line)", bool(adj), "; ".join(u(r.value) for r in rets), key="C01-R8|multiline-adjust")
    for t in [n for n in body_walk(m.node) if isinstance(n, ast.If)]:
        if not any(r in adj for r in ast.walk(t)):
            continue
        test = t.test
        if isinstance(test, ast.Call) and u(test.func) in ("np.any", "any"):
            ok = True
        elif isinstance(test, ast.Call) and u(test.func) in ("np.all", "all"):
            ok = False
        else:
            raise Unrecognised(f"{m.where}: carriage-return sniff has an unknown form: {u(test)}")
        ctx.ob(m.where, "multi-line FASTA: the adjustment is applied as soon as ANY sampled line ends in '\\r' (the last line of a file without final newline "
               "has none, so requiring all sampled lines would skip the adjustment for a short last chunk)", ok, u(test), key="C01-R8|multiline-sniff")


from ..through_time import make_rule as _mk_tt, make_t2 as _mk_t2
_through_time = _mk_tt("C01")
_small_edits = _mk_t2("C01")

def _joined_chunks(ctx):
    """chunks read lazily are put together again with np.concatenate: every chunk's tables are shifted by the cumulative size of the chunks before it"""
    from .c04 import r2_aligned_stores
    with ctx.only("concatenate"):          # selection / compaction of a chunk is not chunked reading
        r2_aligned_stores(ctx)


def _padded_gather_in_bounds(ctx):
    """text columns are gathered into a padded matrix by index arithmetic that may run past the end of the chunk for a short LAST row: the indices are clamped to the
    last valid position (data.size - 1), otherwise a well-formed file fails for the chunk sizes that put such a row last"""
    rp = ctx.index.func("bionumpy.io.file_buffers", "move_intervals_to_right_padded_array")
    idx = [n for n in body_walk(rp.node) if isinstance(n, ast.Assign) and u(n.targets[0]) == "indices"]
    ok = len(idx) == 1 and sym.same(idx[0].value, f"np.minimum({rp.params[1]}[..., None] + np.arange(max_chars), {rp.params[0]}.size - 1)")
    ctx.ob(rp.where, "gather indices of the padded text matrix are clamped to the last byte of the chunk", ok, u(idx[0]) if idx else "", key="C01-R9|padded-gather-clamp")


RULES = [
    ("C01-R7", r7_crlf_sniff),
    ("C01-R6", r6_cross_chunk_scan),
    ("C01-R1", r1_pending_bytes),
    ("C01-R2", r2_carry_over),
    ("C01-R3", r3_eof_marker),
    ("C01-R4", r4_every_format_cuts),
    ("C01-R5", r5_stream_termination),
    ("C01-R8", r8_request_and_terminator),
    ("C01-T1", _through_time),
    ("C01-T2", _small_edits),
    ("C01-R9", _padded_gather_in_bounds),
    ("C01-R10", _joined_chunks),
]
