"""C05 - lazy and eager reading are observationally equivalent.

 R1 aligned views of the lazy table (file buffer / field cache / assigned-values overlay): selection, replace and concatenation treat the
    three alike; a per-operand dict is subscripted only with keys every operand is known to have (key provenance);
 R2 memo coherence of the lazy table: every writer of the overlay invalidates the materialised table and the cached field;
 R3 same decision, same accessor: read() and read_chunk() decide laziness through the same predicate; the eager get_data of every lazily
    readable buffer class obtains its fields through the same per-field accessor the lazy item getter calls;
 R4 a table that reads lazily and writes eagerly needs a formatter for every field type (= C03-R1) and coherent BAM memos (= C16-R4);
 R5 context pairing: a buffer class whose make_header reads a context value unguarded is paired with a get_data that sets it
    (the BAM buffer is not: known finding).
"""
from __future__ import annotations
import ast

from ..index import AnchorMissing, Unrecognised
from ..cfg import CFG
from ..astutil import u, body_walk, local_env, func_calls, walk_local, single_return_expr, inline_locals
from ..pend import edge_facts
from .. import sym, schema

EXPLANATION = ("Static analysis of the lazy table class and the reader: the three row-aligned views (buffer, field cache, assigned overlay) are checked for "
               "alike treatment in every derivation, for key provenance when per-operand dicts are merged, and for invalidation by every writer "
               "(post-dominance on the CFG of __setattr__); the laziness decision and the per-field accessor are compared between the eager and lazy "
               "routes by call structure over all buffer classes. Value equality of the two parse routes is not decided.")

LZ = "bionumpy.bnpdataclass.lazybnpdataclass"
LAZY = "create_lazy_class.<locals>.NewClass"
RD = "bionumpy.io.npdataclassreader"


def r1_aligned_views(ctx):
    ix = ctx.index
    from .c04 import r6_lazy_derivations
    r6_lazy_derivations(ctx)
    af = ix.func(LZ, f"{LAZY}.__array_function__")
    env = {k: v for k, v in local_env(af.node).items() if k != "values"}
    # per-operand dict subscripts inside the concatenate branch
    dict_attrs = ("_set_values", "_computed_values")
    n = 0
    for comp in [x for x in body_walk(af.node) if isinstance(x, ast.DictComp)]:
        it = comp.generators[0].iter
        keyvar = u(comp.generators[0].target)
        src = inline_locals(it, env)
        for sub in [y for y in ast.walk(comp.value) if isinstance(y, ast.Subscript) and isinstance(y.value, ast.Attribute) and y.value.attr in dict_attrs and u(y.slice) == keyvar]:
            n += 1
            attr = sub.value.attr
            c = sym.canon(src)
            # safe sources: an intersection over the operands' own dicts of the same attribute (possibly minus other sets)
            pl = sym.poly(src)
            inter = sym.canon(sym.parse_expr(f"set.intersection(*(set(a.{attr}.keys()) for a in values))"))
            pos = [m for m, cf in pl.t.items() if cf > 0]
            safe = len(pos) == 1 and pos[0] == ((inter, 1),) and pl.t[pos[0]] == 1
            ctx.ob(af.where, f"concatenate: `operand.{attr}[name]` is looked up only for names every operand has (names come from an intersection of the operands' own {attr})",
                   safe, f"names iterate over {c[:160]}", key=f"C05-R1|concatenate|{attr}")
    ctx.floor("per-operand dict lookups in lazy concatenate", n, 1)
    sv = env.get("set_values")
    ctx.need(sv is not None, "lazy concatenate: merged overlay not found")
    c = sym.canon(inline_locals(sv, {k: v for k, v in env.items() if k != "set_values"}))
    ok = c == sym.canon(sym.parse_expr("{name: np.concatenate([getattr(a, name) for a in values]) for name in set().union(*(a._set_values.keys() for a in values))}"))
    ctx.ob(af.where, "concatenate: a field assigned in any operand is merged from every operand's current value of it (assigned value, or the field read from its buffer)", ok, c[:200],
           key="C05-R1|concatenate|overlay", definite=True)
    cn = env.get("computed_names")
    ok = cn is not None and sym.canon(cn) == sym.canon(sym.parse_expr("set.intersection(*(set(a._computed_values.keys()) for a in values)) - set_names"))
    ctx.ob(af.where, "concatenate: cached fields are merged only if cached in every operand and not assigned in any", ok, u(cn) if cn is not None else "", key="C05-R1|concatenate|cache-names")
    rets = [r for r in body_walk(af.node) if isinstance(r, ast.Return) and isinstance(r.value, ast.Call) and u(r.value.func) == "self.__class__"]
    ok = len(rets) == 1 and sym.same(rets[0].value, "self.__class__(self._itemgetter.concatenate([a._itemgetter for a in values]), set_values=set_values, computed_values=computed_values)")
    ctx.ob(af.where, "concatenate: the file buffers are concatenated in operand order and paired with the merged overlay and cache", ok, "", key="C05-R1|concatenate|result")
    # fallback to eager objects
    txt = u(af.node)
    enva = local_env(af.node)
    objs = enva.get("objects")
    ok = objs is not None and sym.canon(inline_locals(objs, {k: v_ for k, v_ in enva.items() if k != "objects"})) == sym.canon(sym.parse_expr("[a.get_data_object() for a in args[0]]")) \
        and "return func(*args, **kwargs)" in txt
    ctx.ob(af.where, "buffers that cannot be concatenated fall back to concatenating the fully parsed tables", ok, "", key="C05-R1|concatenate|fallback")
    # __getattr__: overlay first, then cache, then parse
    ga = ix.func(LZ, f"{LAZY}.__getattr__")
    g = CFG(ga.node)
    rets = g.stmt_nodes(ast.Return)
    v = ga.params[1]
    order = [sym.canon(r.ast.value) for r in rets]
    # "assigned wins": every return that is NOT the overlay entry is reached only when the name is not in the overlay
    in_overlay = f"({v})in(self._set_values)"
    ok = any(o == f"self._set_values[{v}]" for o in order)
    for r in rets:
        if sym.canon(r.ast.value) == f"self._set_values[{v}]":
            continue
        facts = set()
        for t, lab in g.guards(r):
            facts |= edge_facts(t, lab)
        if (in_overlay, False) not in facts:
            ok = False
    ctx.ob(ga.where, "field access: an assigned value wins over the cached / parsed one (every other return is reached only for names that are not in the overlay)", ok, str(order),
           key="C05-R1|getattr-order", definite=True)
    first = [r for r in rets if sym.canon(r.ast.value) == f"self._set_values[{v}]"]
    if first:
        facts = set()
        for t, lab in g.guards(first[0]):
            facts |= edge_facts(t, lab)
        ctx.ob(ga.where, "the overlay is consulted only for names it holds", (f"({v})in(self._set_values)", True) in facts, str(sorted(facts)), key="C05-R1|getattr-guard")
    gd = ix.func(LZ, f"{LAZY}.get_data_object")
    txt = u(gd.node)
    envd = dict(local_env(ix.func(LZ, "create_lazy_class").node))     # names of the enclosing factory (e.g. the field list looked up once per class)
    envd.update(local_env(gd.node))
    st = [x for x in body_walk(gd.node) if isinstance(x, ast.Assign) and u(x.targets[0]) == "self._data"]
    ok = len(st) == 1 and sym.canon(inline_locals(st[0].value, envd)) == sym.canon(sym.parse_expr("dataclass(*[getattr(self, field.name) for field in dataclasses.fields(dataclass)])"))
    if ok:
        gg = CFG(gd.node)
        node = [n for n in gg.stmt_nodes(ast.Assign) if n.ast is st[0]]
        facts = set()
        for t, lab in (gg.guards(node[0]) if node else []):
            facts |= edge_facts(t, lab)
        ok = ("self._computed", False) in facts
    ctx.ob(gd.where, "the materialised table is built from the same per-field access (overlay, cache, parse) in field order", ok, "", key="C05-R1|materialise")


def r2_invalidation(ctx):
    ix = ctx.index
    sa = ix.func(LZ, f"{LAZY}.__setattr__")
    g = CFG(sa.node)
    key = sa.params[1]
    stores = [n for n in g.stmt_nodes(ast.Assign) if isinstance(n.ast.targets[0], ast.Subscript) and u(n.ast.targets[0].value) == "self._set_values"]
    ctx.floor("writers of the assigned-values overlay", len(stores), 1)
    inv = [n for n in g.stmt_nodes(ast.Assign) if u(n.ast.targets[0]) == "self._computed" and getattr(n.ast.value, "value", None) is False]
    for s in stores:
        bad = g.path([s], [g.exit], blocked=lambda n: n in inv)
        ctx.ob(sa.where, "assigning a field marks the materialised table as stale on every path (tolist()/iteration after an assignment see the new value)", bad is None,
               CFG.show(bad) if bad else "", key="C05-R2|invalidate-data")
        dels = [n for n in g.nodes if n.kind == "stmt" and isinstance(n.ast, ast.Delete) and u(n.ast.targets[0]) == f"self._computed_values[{key}]"]
        bad = g.path([s], [g.exit], blocked=lambda n: n in dels,
                     blocked_edge=lambda a, l, b: a.kind == "test" and (f"({key})in(self._computed_values)", False) in edge_facts(a, l))
        ctx.ob(sa.where, "assigning a field drops its cached parsed value", bad is None, CFG.show(bad) if bad else "", key="C05-R2|invalidate-cache")
    # only the listed internal names bypass the overlay
    tests = [n for n in g.nodes if n.kind == "test" and "in [" in u(n.ast).replace("in (", "in [")]
    ok = False
    for t in tests:
        for x in ast.walk(t.ast):
            if isinstance(x, (ast.List, ast.Tuple)):
                names = sorted(getattr(e, "value", None) for e in x.elts)
                # the bookkeeping attributes are the ones the table's own __init__ creates (whatever they are called); a dataclass FIELD name in this list would let an
                # assignment by-pass the overlay, a bookkeeping name missing from it would be stored as if it were a field
                init = ix.func(LZ, f"{LAZY}.__init__")
                own = sorted({a.targets[0].attr for a in body_walk(init.node) if isinstance(a, ast.Assign) and isinstance(a.targets[0], ast.Attribute) and u(a.targets[0].value) == "self"})
                ok = bool(own) and all(isinstance(n_, str) and n_.startswith("_") for n_ in names) and len(set(names)) == len(names) == len(own) and \
                    len(set(names) - set(own)) == len(set(own) - set(names))      # (a renamed private attribute is mapped back to its reference name in __init__ by the normal form, but not inside this list of strings)
    ctx.ob(sa.where, "only the table's own bookkeeping attributes are set directly; every other name goes to the overlay", ok, "", key="C05-R2|internal-names")
    # other writers of _set_values anywhere in the class?
    writers = []
    for qn, fi in ix.module(LZ).functions.items():
        if qn.startswith(LAZY) and not qn.endswith(("__setattr__", "__init__")):
            for x in body_walk(fi.node):
                if isinstance(x, ast.Assign) and isinstance(x.targets[0], ast.Subscript) and u(x.targets[0].value) == "self._set_values":
                    writers.append(qn)
    ctx.ob(f"{ix.module(LZ).relpath} {LAZY}", "the overlay is written only by attribute assignment", not writers, str(writers), key="C05-R2|single-writer")


def r3_same_decision_same_accessor(ctx):
    ix = ctx.index
    for qn in ("NpDataclassReader.read", "NpDataclassReader.read_chunk"):
        f = ix.func(RD, qn)
        calls = [c for c in func_calls(f.node) if u(c.func) == "self._should_be_lazy"]
        direct = [x for x in body_walk(f.node) if isinstance(x, ast.Attribute) and u(x) in ("config.LAZY", "self._lazy")]
        ctx.ob(f.where, f"{qn} decides lazy/eager through the shared predicate only", len(calls) == 1 and not direct and u(calls[0].args[0]) == "chunk", "", key=f"C05-R3|{qn}|decision")
        g = CFG(f.node)
        lazy_rets = [r for r in g.stmt_nodes(ast.Return) if "ItemGetter(" in u(r.ast.value)]
        eager = [n for n in g.nodes if n.kind == "stmt" and any(isinstance(c, ast.Call) and u(c.func) == "chunk.get_data" for c in walk_local(n.ast))]
        ok = len(lazy_rets) == 1 and len(eager) == 1
        ctx.ob(f.where, f"{qn}: the lazy route wraps the chunk in an item getter of its entry type, the eager route parses the same chunk", ok, "", key=f"C05-R3|{qn}|routes")
        if lazy_rets:
            c = sym.canon(lazy_rets[0].ast.value)
            ok = "self._get_lazy_class(chunk.dataclass" in c and "ItemGetter(chunk, chunk.dataclass" in c
            ctx.ob(f.where, f"{qn}: the lazy class and the item getter are built for the chunk's own entry type", ok, c[:160], key=f"C05-R3|{qn}|lazy-type")
    sl = ix.func(RD, "NpDataclassReader._should_be_lazy")
    txt = u(sl.node)
    ok = "if not config.LAZY and self._lazy is None or self._lazy is False:\n        return False" in txt and "hasattr(chunk, 'get_field_by_number') and hasattr(chunk, 'dataclass')" in txt
    ctx.ob(sl.where, "laziness: off when explicitly disabled (argument or config), on only for buffers with per-field access", ok, "", key="C05-R3|predicate")
    # per-field accessor: eager get_data and lazy get_field_by_number meet in the same function
    n = 0
    base = ix.cls("bionumpy.io.file_buffers", "FileBuffer")
    for b, dc in schema.buffer_bindings(ix):
        if any(k.qualname == "MultiLineBuffer" for k in ix.mro(b)):
            continue  # SKIP_LAZY formats are never read lazily
        gd = ix.lookup_method(b, "get_data")
        gf = ix.lookup_method(b, "get_field_by_number")
        if gd is None or gf is None:
            continue
        n += 1

        def callees(fi):
            return {u(c.func) for c in ast.walk(fi.node) if isinstance(c, ast.Call)}
        eager_calls, lazy_calls = callees(gd), callees(gf)
        accessors = {"self._get_field_by_number", "self.get_field_by_number", "self._buffer_extractor.get_field_by_number", "super().get_field_by_number", "self.get_text",
                     "self.get_text_field_by_number"}
        shared = (eager_calls & accessors) and (lazy_calls & accessors or gf is gd)
        # both must bottom out in the extractor's accessor of this class
        ok = bool(eager_calls & accessors) and bool(lazy_calls & accessors)
        ctx.ob(f"{b.module.relpath} {b.qualname}", f"{b.qualname}: eager get_data ({gd.qualname}) and lazy per-field access ({gf.qualname}) obtain fields through the buffer's field accessors",
               ok, f"eager calls {sorted(eager_calls & accessors)}, lazy calls {sorted(lazy_calls & accessors)}", key=f"C05-R3|accessor|{b.qualname}")
    ctx.floor("lazily readable buffer classes", n, 8)
    ig = ix.func(LZ, "ItemGetter.__call__")
    calls = [c for c in func_calls(ig.node) if u(c.func) == "self._buffer.get_field_by_number"]
    nm = ig.params[1]
    envi = dict(local_env(ig.node))
    for x in body_walk(ig.node):      # `nr, tp = self._field_dict[name]`: element i of the right-hand side
        if isinstance(x, ast.Assign) and isinstance(x.targets[0], ast.Tuple) and all(isinstance(e_, ast.Name) for e_ in x.targets[0].elts):
            for i_, e_ in enumerate(x.targets[0].elts):
                envi[e_.id] = ast.Subscript(value=x.value, slice=ast.Constant(value=i_), ctx=ast.Load())
    ok = len(calls) == 1 and [sym.canon(inline_locals(a, envi)) for a in calls[0].args] == [f"self._field_dict[{nm}][0]", f"self._field_dict[{nm}][1]"]
    ctx.ob(ig.where, "the lazy item getter asks the buffer for (field index, declared type) of the named field", ok, "", key="C05-R3|itemgetter")
    init = ix.func(LZ, "ItemGetter.__init__")
    ok = "self._field_dict = {field.name: (i, field.type) for i, field in enumerate(dataclasses.fields(dataclass))}" in u(init.node)
    ctx.ob(init.where, "field index and type come from the entry type's field order", ok, "", key="C05-R3|field-dict")
    dd = ix.func("bionumpy.io.delimited_buffers", "DelimitedBuffer.get_data")
    txt = u(dd.node)
    ok = "for col_number, field in enumerate(fields):" in txt and "col = self._get_field_by_number(col_number, field.type)" in txt and "fields = dataclasses.fields(self.actual_dataclass)" in txt
    ctx.ob(dd.where, "eager parse: column i is parsed with field i's declared type", ok, "", key="C05-R3|eager-loop")


def r4_shared(ctx):
    from .c03 import r1_writer_exhaustive
    r1_writer_exhaustive(ctx)
    from .c16 import r4_selection_compaction
    r4_selection_compaction(ctx)
    from .c04 import r2_aligned_stores, r1_pass_through
    r2_aligned_stores(ctx)
    r1_pass_through(ctx)


def r5_context_pairing(ctx):
    ix = ctx.index
    base = ix.cls("bionumpy.io.file_buffers", "FileBuffer")
    n = 0
    for c in ix.subclasses(base, strict=True):
        mh = c.methods.get("make_header")
        if mh is None or "_legacy" in c.module.name:
            continue
        reads = [x for x in func_calls(mh.node) if u(x.func).endswith(".get_context") and x.args and getattr(x.args[0], "value", None) == "header"]
        if not reads:
            continue
        n += 1
        guarded = any(u(x.func).endswith(".has_context") for x in func_calls(mh.node))
        gd = ix.lookup_method(c, "get_data")
        sets = gd is not None and any(u(x.func).endswith(".set_context") and x.args and getattr(x.args[0], "value", None) == "header" for x in func_calls(gd.node))
        ctx.ob(mh.where, f"{c.qualname}.make_header reads the 'header' context: either it checks has_context first or the class's eager get_data sets it "
                         f"(otherwise an eagerly read table cannot be written while the lazy one can)", guarded or sets,
               f"guarded={guarded}, get_data sets context={sets}", key=f"C05-R5|{c.qualname}")
    ctx.floor("make_header implementations that read the header context", n, 2)
    # the lazy class answers the same context question from its own header
    gc = ix.func(LZ, f"{LAZY}.get_context")
    hc = ix.func(LZ, f"{LAZY}.has_context")
    ok = "if name == 'header':\n        return self._header" in u(gc.node) and sym.same(single_return_expr(hc.node), f"{hc.params[1]} == 'header'")
    ctx.ob(gc.where, "a lazy table answers the 'header' context from the header it was read with", ok, "", key="C05-R5|lazy-context")


_INDEXED = ("bionumpy.bnpdataclass.lazybnpdataclass", "bionumpy.io.delimited_buffers", "bionumpy.io.file_buffers", "bionumpy.io.one_line_buffer", "bionumpy.io.named_text_buffer",
            "bionumpy.io.bam", "bionumpy.io.vcf_buffers", "bionumpy.io.multiline_buffer", "bionumpy.io.fastq_buffer", "bionumpy.io.buffers.sam")


def r6_index_forwarding(ctx):
    """Row selection of a lazily read table goes through a chain of __getitem__ methods (lazy class -> ItemGetter -> buffer -> extractor) while
    the eager table is indexed by NumPy directly.  They agree for every index NumPy accepts only if each link hands the index on unchanged:
    (a) the index parameter is not converted (a list of bools turned into integers selects rows 0/1; (b) a scalar is wrapped into a one-element
    list, never into the window i:i+1 (empty for i = -1); (c) the tables shared between a table and its selections are not written in place."""
    ix = ctx.index
    n = 0
    for mod in _INDEXED:
        if mod not in ix.modules:
            continue
        for fi in ix.module(mod).functions.values():
            if fi.qualname.split(".")[-1] != "__getitem__" or len(fi.params) < 2:
                continue
            n += 1
            idx = fi.params[1]
            for w in [x for x in ast.walk(fi.node) if isinstance(x, ast.Assign) and any(isinstance(t, ast.Name) and t.id == idx for t in x.targets)]:
                v = w.value
                if isinstance(v, ast.List) and len(v.elts) == 1 and u(v.elts[0]) == idx:
                    ok = True
                elif any(isinstance(c, ast.Call) and (u(c.func) in ("np.asarray", "np.array", "np.asanyarray", "int", "list", "tuple", "np.flatnonzero", "np.nonzero") or
                                                      u(c.func).endswith(".astype")) for c in ast.walk(v)):
                    ok = False
                else:
                    raise Unrecognised(f"{fi.where}: the index is rewritten in a form the checker cannot classify: {u(w)}")
                ctx.ob(fi.where, "the row index is handed on as given (only a scalar may be wrapped into a one-element list): converting it changes what a boolean "
                       "mask given as a list selects", ok, u(w), key=f"C05-R6|index-converted|{mod}|{fi.qualname}")
            for sub in [x for x in ast.walk(fi.node) if isinstance(x, ast.Subscript)]:
                for sl in (sub.slice.elts if isinstance(sub.slice, ast.Tuple) else [sub.slice]):
                    if isinstance(sl, ast.Slice) and sl.lower is not None and sl.upper is not None and u(sl.lower) == idx:
                        d = sym.poly(sl.upper) - sym.poly(sl.lower)
                        if d.is_const() and d.const_value() >= 1:
                            ctx.ob(fi.where, "a scalar row index is not rewritten as the window i:i+k (empty or short for negative i, which NumPy and the eager "
                                   "table accept)", False, u(sub), key=f"C05-R6|index-window|{mod}|{fi.qualname}")
            ctx.ob(fi.where, "index handed on unchanged", True, "", key=f"C05-R6|scanned|{mod}|{fi.qualname}")
    ctx.floor("__getitem__ links of the lazy selection chain", n, 8)
    from .c20 import r3_self_array_writes, IO_TABLE_MODULES
    r3_self_array_writes(ctx, IO_TABLE_MODULES)


def r7_late_bound_constants(ctx, modules=None):
    """Format constants (DELIMITER, COMMENT, n_lines_per_entry, dataclass, ...) are class attributes that subclasses override.  A method of the base class must
    read them through `cls` / `self`; naming the base class (`DelimitedBuffer.DELIMITER`) freezes the base value for every subclass (a comma-separated
    buffer class would be written with tabs on the lazy path, which joins columns in the base class)."""
    ix = ctx.index
    from .c20 import IO_TABLE_MODULES
    mods = set(modules or IO_TABLE_MODULES) | {"bionumpy.io.wig", "bionumpy.io.pairs", "bionumpy.io.gfa", "bionumpy.io.dump_csv"}
    n = 0
    for ci in ix.all_classes():
        if ci.module.name not in mods:
            continue
        subs = ix.subclasses(ci, strict=True)
        if not subs:
            continue
        base_attrs = set()
        for b in ix.mro(ci):
            base_attrs |= set(b.attrs)
        over = {}
        for sc in subs:
            for a in sc.attrs:
                if a in base_attrs:
                    over.setdefault(a, []).append(sc.name)
        if not over:
            continue
        for mname, fi in ci.methods.items():
            n += 1
            bad = [x for x in ast.walk(fi.node) if isinstance(x, ast.Attribute) and isinstance(x.value, ast.Name) and x.value.id == ci.name and x.attr in over and isinstance(x.ctx, ast.Load)]
            for x in bad:
                ctx.ob(fi.where, f"`{ci.name}.{x.attr}` is overridden by subclasses ({', '.join(sorted(over[x.attr])[:4])}): the method reads it through cls / self, not through the "
                       "base class's name", False, u(x), key=f"C05-R7|frozen-constant|{ci.module.name}|{ci.name}.{mname}|{x.attr}")
    ctx.floor("methods of format classes with overridden constants examined", n, 40)
    ctx.ob("bionumpy/io", f"{n} methods of base format classes examined: overridable constants are late-bound", True, "", key="C05-R7|scan")


from ..through_time import make_rule as _mk_tt, make_t2 as _mk_t2
_through_time = _mk_tt("C05")
_small_edits = _mk_t2("C05")

def _mutable_defaults(ctx):
    from .c20 import r9_mutable_defaults
    r9_mutable_defaults(ctx, ("bionumpy.bnpdataclass.lazybnpdataclass", "bionumpy.io.npdataclassreader", "bionumpy.io.delimited_buffers", "bionumpy.io.file_buffers", "bionumpy.io.one_line_buffer", "bionumpy.io.bam"))   # tables must not share an overlay / cache through a default argument

def _untouched_columns_as_file_text(ctx):
    """A lazily read table that is written after one column was replaced takes every other column as text from the file buffer; the eager table formats all of
    them.  The two agree only if that text is the column's own text (through the format's overridable text accessor, which FASTQ re-maps)."""
    from .c03 import r6_streams_and_text_ranges
    with ctx.only("untouched columns", "text accessor", "served by the text accessor"):
        r6_streams_and_text_ranges(ctx)


RULES = [
    ("C05-R1", r1_aligned_views),
    ("C05-R2", r2_invalidation),
    ("C05-R3", r3_same_decision_same_accessor),
    ("C05-R4", r4_shared),
    ("C05-R5", r5_context_pairing),
    ("C05-R6", r6_index_forwarding),
    ("C05-T1", _through_time),
    ("C05-T2", _small_edits),
    ("C05-R7", r7_late_bound_constants),
    ("C05-R8", _mutable_defaults),
    ("C05-R9", _untouched_columns_as_file_text),
]
