"""C06 - alphabet encodings accept exactly their alphabet and never change the text.

Decided clauses (DESIGN.md section 6/C06):
 R1  accepted-byte set and encode/decode agreement, evaluated for every byte 0..255 and every alphabet literal
     in the package (finite domain of constants => exhaustive);
 R2  re-targeting guard of as_encoded_array covers every code present (slice bound == max code + 1) and the
     branch either re-wraps raw codes under that guard or raises;
 R3  change_encoding = new.encode(old.decode(x)); numeric offset encodings are inverse affine maps;
 R4  ragged shape is carried through the type dispatch (constructor shape argument = operand's own shape).
"""
from __future__ import annotations
import ast
import numpy as np

from ..index import AnchorMissing, Unrecognised
from ..absval import Evaluator, Obj, MethodRunner, EvalRaised
from ..astutil import (linear_body, u, inline_locals, body_walk, local_env, always_terminates, always_raises, func_calls, walk_local, root_name,
                       statements, raise_name)
from .. import sym

EXPLANATION = ("Static analysis of the alphabet-encoding source: the lookup/decoding tables built by AlphabetEncoding.__init__/"
               "_initialize/_encode/_decode are constant-evaluated for every alphabet literal in the package and all 256 byte values "
               "(exhaustive finite domain) and compared with the specification 'accept exactly the alphabet, letters case-insensitively, "
               "decode to the upper-cased text'; the re-targeting guard, change_encoding and the numeric offset encodings are checked as "
               "symbolic normal forms; ragged-shape plumbing is checked by dataflow. Decides these structural clauses for all inputs; "
               "does not observe run-time behaviour.")

ENC_MOD = "bionumpy.encodings.alphabet_encoding"
EA_MOD = "bionumpy.encoded_array"

SYNTHETIC = ["Az09*=+-.@[`{", "az", "~!", "Nn"]


def _alphabet_literals(ctx):
    ix = ctx.index
    base = ix.cls(ENC_MOD, "AlphabetEncoding")
    subs = ix.subclasses(base)
    names = {c.name: c for c in subs}
    out = []
    for mi in ix.modules.values():
        for n in ast.walk(mi.tree):
            if isinstance(n, ast.Call) and isinstance(n.func, (ast.Name, ast.Attribute)):
                nm = u(n.func).split(".")[-1]
                if nm in names and len(n.args) == 1 and isinstance(n.args[0], ast.Constant) and isinstance(n.args[0].value, str):
                    r = ix.resolve_name(mi, u(n.func))
                    cls = r if r in subs else names[nm]
                    out.append((mi, n, cls, n.args[0].value))
    return out


def _build(ctx, cls, alphabet: str):
    runner = MethodRunner(ctx.index)
    obj = Obj(cls)
    runner.call(obj, cls, "__init__", (alphabet,))
    runner.call(obj, cls, "_initialize", (), {"force": True})
    return runner, obj


def _check_alphabet(ctx, cls, alphabet: str, where: str, tag: str):
    runner, obj = _build(ctx, cls, alphabet)
    upper = [c.upper() for c in alphabet]
    expected = {}
    for i, c in enumerate(upper):
        expected.setdefault(ord(c), i)
        if "A" <= c <= "Z":
            expected.setdefault(ord(c.lower()), i)
    # later duplicates overwrite in the implementation; expected code must decode to the same letter, so compare by letter
    bad = []
    accepted = set()
    for b in range(256):
        try:
            ret = runner.call(obj, cls, "_encode", (np.array([b], dtype=np.uint8),))
        except EvalRaised as e:
            if b in expected:
                bad.append(f"byte {b} ({chr(b)!r}) belongs to the alphabet but _encode raises {e.name}")
            elif e.name != "EncodingError":
                bad.append(f"byte {b} rejected with {e.name}, not EncodingError")
            continue
        accepted.add(b)
        code = int(np.asarray(ret).ravel()[0])
        if b not in expected:
            try:
                dec = int(np.asarray(runner.call(obj, cls, "_decode", (np.array([code]),))).ravel()[0])
                bad.append(f"byte {b} ({chr(b)!r}) is outside the alphabet but is accepted as code {code} (decodes to {chr(dec)!r})")
            except Exception:
                bad.append(f"byte {b} ({chr(b)!r}) is outside the alphabet but is accepted as code {code}")
            continue
        dec = int(np.asarray(runner.call(obj, cls, "_decode", (np.array([code]),))).ravel()[0])
        if chr(dec) != chr(b).upper():
            bad.append(f"byte {b} ({chr(b)!r}) encodes to {code} which decodes to {chr(dec)!r}, not {chr(b).upper()!r}")
    ctx.count("byte_alphabet_pairs", 256)
    detail = "; ".join(bad[:6]) + (f" (+{len(bad) - 6} more)" if len(bad) > 6 else "")
    ctx.ob(where, f"{tag} alphabet {alphabet!r} ({cls.name}): accepted bytes == alphabet + lower-case letters; decode(encode(b)) == upper(b) for all 256 bytes",
           not bad, detail, key=f"C06-R1|{cls.name}|{alphabet}")
    # size attribute agrees
    size = obj.attrs().get("_alphabet_size")
    ctx.ob(where, f"{tag} alphabet {alphabet!r}: sentinel threshold (_alphabet_size) == len(alphabet)",
           size == len(alphabet), f"_alphabet_size={size}", key=f"C06-R1size|{cls.name}|{alphabet}")


def r1_accepted_bytes(ctx):
    lits = _alphabet_literals(ctx)
    ctx.floor("alphabet literals constructed in the package", len(lits), 11)
    seen = set()
    for mi, n, cls, alpha in lits:
        k = (cls.qualname, alpha)
        if k in seen:
            continue
        seen.add(k)
        _check_alphabet(ctx, cls, alpha, f"{mi.relpath}:{n.lineno} {u(n)[:50]}", "literal")
    base = ctx.index.cls(ENC_MOD, "AlphabetEncoding")
    for alpha in SYNTHETIC:
        _check_alphabet(ctx, base, alpha, f"{base.where}", "synthetic boundary")
    # predefined set is what get_alphabet_encodings() lists
    f = ctx.index.func(ENC_MOD, "get_alphabet_encodings")
    rets = [n for n in body_walk(f.node) if isinstance(n, ast.Return)]
    ctx.need(len(rets) == 1 and isinstance(rets[0].value, ast.List), "get_alphabet_encodings does not return a list literal")
    mi = ctx.index.module(ENC_MOD)
    for e in rets[0].value.elts:
        nm = u(e)
        v = mi.globals_.get(nm)
        hops = 0
        while isinstance(v, ast.Name) and hops < 5:
            v = mi.globals_.get(v.id)
            hops += 1
        ok = isinstance(v, ast.Call) and len(v.args) == 1 and isinstance(v.args[0], ast.Constant)
        ctx.ob(f.where, f"predefined encoding {nm} is an alphabet literal covered by R1", ok, "" if ok else f"bound to {u(v) if v is not None else None}")


def r1b_encode_structure(ctx):
    """_encode indexes the lookup with its argument and returns that; _decode indexes the alphabet the lookup was filled from."""
    ix = ctx.index
    f = ix.func(ENC_MOD, "AlphabetEncoding._encode")
    env = local_env(f.node)
    p = f.params[1]
    rets = [n for n in body_walk(f.node) if isinstance(n, ast.Return)]
    ctx.need(rets, "_encode has no return")
    for r in rets:
        c = sym.canon(r.value, env)
        ctx.ob(f.where, "_encode returns self._lookup[<argument>]", c == f"self._lookup[{p}]", f"returns {c}")
    ifs = [n for n in linear_body(f.node) if isinstance(n, ast.If)]
    guard = [i for i in ifs if "_alphabet_size" in u(i.test) or "255" in u(i.test)]
    ctx.need(guard, "invalid-code test not found in _encode")
    for g in guard:
        t = sym.canon(g.test, env)
        ok_form = t in (f"np.any((self._alphabet_size)<=(self._lookup[{p}]))",)
        ctx.ob(f.where, "invalid-code test is any(code >= alphabet size) on the looked-up codes", ok_form, f"test normal form: {t}")
        ctx.ob(f.where, "the invalid-code branch raises on every path", always_raises(g.body), "")
        names = {raise_name(n) for n in walk_local(g) if isinstance(n, ast.Raise)}
        ctx.ob(f.where, "the invalid-code branch raises EncodingError", names == {"EncodingError"}, f"raises {sorted(names)}")
    d = ix.func(ENC_MOD, "AlphabetEncoding._decode")
    denv = local_env(d.node)
    rets = [n for n in body_walk(d.node) if isinstance(n, ast.Return)]
    for r in rets:
        c = sym.canon(r.value, denv)
        ok = c in (f"self._alphabet[np.asarray({d.params[1]})]", f"self._alphabet[{d.params[1]}]")
        ctx.ob(d.where, "_decode returns self._alphabet[<codes>]", ok, f"returns {c}")
    # FlatAlphabetEncoding only ravels
    fl = ix.func(ENC_MOD, "FlatAlphabetEncoding._encode")
    rets = [n for n in body_walk(fl.node) if isinstance(n, ast.Return)]
    ok = len(rets) == 1 and sym.canon(rets[0].value) == "super()._encode(*args, **kwargs).ravel()"
    ctx.ob(fl.where, "FlatAlphabetEncoding._encode is the parent's _encode followed by ravel()", ok, u(rets[0].value) if rets else "no return")


def r2_retarget_guard(ctx):
    f = ctx.index.func(EA_MOD, "as_encoded_array")
    env = local_env(f.node)
    s_name, t_name = f.params[0], f.params[1]
    # locate the If whose test compares two get_alphabet() prefixes
    cands = []
    for n in body_walk(f.node):
        if isinstance(n, ast.If) and u(n.test).count("get_alphabet()") >= 2 and any(isinstance(x, ast.Compare) for x in ast.walk(n.test)):
            cands.append(n)
    ctx.floor("alphabet-prefix compatibility test in as_encoded_array", len(cands), 1)
    for g in cands:
        cmp_ = [x for x in ast.walk(g.test) if isinstance(x, ast.Compare)][0]
        sides = [cmp_.left] + cmp_.comparators
        ctx.need(len(sides) == 2 and isinstance(cmp_.ops[0], ast.Eq), "compatibility test is not a single equality")
        roots = set()
        for sd in sides:
            ctx.need(isinstance(sd, ast.Subscript) and isinstance(sd.slice, ast.Slice), f"side is not a prefix slice: {u(sd)}")
            sl = sd.slice
            lo_ok = sl.lower is None or sym.poly(sl.lower, env) == sym.Poly.const(0)
            ctx.need(sl.upper is not None and sl.step is None and lo_ok, f"not a prefix slice: {u(sd)}")
            bound = sym.poly(sl.upper, env)
            want = sym.poly(sym.parse_expr(f"{s_name}.raw().max() + 1"))
            alt = sym.poly(sym.parse_expr(f"{s_name}.ravel().raw().max() + 1"))
            ok = bound in (want, alt)
            base = u(sd.value)
            roots.add(root_name(sd.value))
            ctx.ob(f.where, f"compared alphabet prefix of {base} includes the largest code present (upper bound == max code + 1)",
                   ok, f"upper bound normal form: {bound}", key=f"C06-R2|bound|{root_name(sd.value)}")
        ctx.ob(f.where, "the two compared prefixes are of the source and of the target alphabet", roots == {s_name, t_name}, str(sorted(map(str, roots))))
        # inside the guard: raise when max code not < target alphabet length, then re-wrap raw codes with target encoding
        # the raising side of the range test (either side may be written under the test)
        raise_conds = []
        for n in walk_local(g):
            if isinstance(n, ast.If) and n is not g:
                if always_raises(n.body):
                    raise_conds.append(sym.canon(n.test, env))
                if n.orelse and always_raises(n.orelse):
                    raise_conds.append(f"not({sym.canon(n.test, env)})")
        ok = any(t in (f"not(({s_name}.raw().max())<(len({t_name}.get_alphabet())))", f"(len({t_name}.get_alphabet()))<=({s_name}.raw().max())") for t in raise_conds)
        ctx.ob(f.where, "codes beyond the target alphabet raise before re-wrapping", ok, "; ".join(raise_conds) or "no raising test found", definite=True)
        for r in [n for n in walk_local(g) if isinstance(n, ast.Return)]:
            c = sym.canon(r.value, env)
            ok = c in (f"{s_name}.__class__({s_name}.raw(), {t_name})",
                       f"{s_name}.__class__(EncodedArray({s_name}.ravel().raw(), {t_name}), {s_name}.shape)",
                       f"{s_name}.__class__(EncodedArray({s_name}.ravel().raw(), {t_name}), {s_name}._shape)",
                       f"EncodedArray({s_name}.raw(), {t_name})",
                       f"EncodedRaggedArray(EncodedArray({s_name}.ravel().raw(), {t_name}), {s_name}.shape)",
                       f"EncodedRaggedArray(EncodedArray({s_name}.ravel().raw(), {t_name}), {s_name}._shape)")
            ctx.ob(f.where, "re-targeting returns the operand's raw codes wrapped with the target encoding and the operand's own shape", ok, c)
    # the enclosing non-base branch cannot fall through silently
    outer = [n for n in body_walk(f.node) if isinstance(n, ast.If) and sym.canon(n.test) == f"not({s_name}.encoding.is_base_encoding())"]
    ctx.floor("non-base-encoding branch of as_encoded_array", len(outer), 1)
    for o in outer:
        ctx.ob(f.where, "already-encoded, non-base input with a different target either returns under the compatibility guard or raises (no fall-through)",
               always_terminates(o.body), "")
        returns_outside = []
        for n in walk_local(o):
            if isinstance(n, ast.Return):
                inside = any(n in list(ast.walk(g)) for g in cands)
                if not inside:
                    returns_outside.append(u(n))
        ctx.ob(f.where, "no return in the non-base branch outside the compatibility guard", not returns_outside, "; ".join(returns_outside))
    # identity fast path only for equal encodings
    first = [n for n in body_walk(f.node) if isinstance(n, ast.If) and isinstance(n.test, ast.BoolOp) and "is None" in u(n.test)
             and f"{s_name}.encoding" in u(n.test)]
    ctx.floor("same-encoding fast path", len(first), 1)
    t = sym.canon(first[0].test)
    ctx.ob(f.where, "encoded input is returned unchanged only if no target is given or the encodings are equal",
           t == f"(({t_name})is(None) or ({s_name}.encoding)==({t_name}))", t)


def r3_change_encoding(ctx):
    f = ctx.index.func(EA_MOD, "change_encoding")
    env = local_env(f.node)
    a, e = f.params[0], f.params[1]
    want = f"{e}.encode({a}.encoding.decode({a}.ravel()))"
    rets = [n for n in body_walk(f.node) if isinstance(n, ast.Return)]
    ctx.floor("returns in change_encoding", len(rets), 1)
    for r in rets:
        c = sym.canon(r.value, env)
        ok = c in (f"EncodedArray({want}, {e})", f"EncodedRaggedArray(EncodedArray({want}, {e}), {a}._shape)",
                   f"EncodedRaggedArray(EncodedArray({want}, {e}), {a}.shape)", want)
        ctx.ob(f.where, "every value returned by change_encoding is new.encode(old.decode(x)) wrapped with the new encoding (and the operand's shape)",
               ok, c, key=f"C06-R3|change_encoding|{c if not ok else ''}")
    # numeric offset encodings
    mod = "bionumpy.encodings"
    enc = ctx.index.func(mod, "DigitEncodingFactory._encode")
    dec = ctx.index.func(mod, "DigitEncodingFactory._decode")
    init = ctx.index.func(mod, "DigitEncodingFactory.__init__")
    re_, rd = [n for n in body_walk(enc.node) if isinstance(n, ast.Return)], [n for n in body_walk(dec.node) if isinstance(n, ast.Return)]
    ctx.need(len(re_) == 1 and len(rd) == 1, "offset encoding has several returns")
    x = enc.params[1]
    composed = sym.poly(rd[0].value, {dec.params[1]: re_[0].value})
    ctx.ob(dec.where, "numeric offset encoding: decode(encode(x)) == x (affine maps are inverse)", composed == sym.Poly.atom(x), f"decode(encode({x})) = {composed}")
    pe = sym.poly(re_[0].value)
    ctx.ob(enc.where, "numeric offset encoding: encode(x) == x - min_code", pe == sym.poly(sym.parse_expr(f"{x} - self._min_code")), str(pe))
    assigns = [n for n in body_walk(init.node) if isinstance(n, ast.Assign) and u(n.targets[0]) == "self._min_code"]
    ok = len(assigns) == 1 and sym.canon(assigns[0].value) == f"ord({init.params[1]})"
    ctx.ob(init.where, "min_code is the character code of the constructor argument", ok, u(assigns[0].value) if assigns else "")
    mi = ctx.index.module(mod)
    want_consts = {"DigitEncoding": "0", "QualityEncoding": "!"}
    for nm, ch in want_consts.items():
        v = mi.globals_.get(nm)
        ok = isinstance(v, ast.Call) and u(v.func) == "DigitEncodingFactory" and len(v.args) == 1 and isinstance(v.args[0], ast.Constant) and v.args[0].value == ch
        ctx.ob(f"{mi.relpath} {nm}", f"{nm} is the offset encoding based at {ch!r}", ok, u(v) if v is not None else "missing")


def r4_shape_plumbing(ctx):
    """Every (Encoded)RaggedArray built in the dispatch functions takes the shape object of the operand whose data it wraps."""
    ix = ctx.index
    sites = 0
    for qn, data_param in (("OneToOneEncoding._ragged_array_as_encoded_array", 1), ("OneToOneEncoding.decode", 1)):
        f = ix.func(EA_MOD, qn)
        p = f.params[data_param]
        for c in func_calls(f.node):
            nm = u(c.func)
            if nm in ("EncodedRaggedArray", "RaggedArray") and len(c.args) >= 2:
                sites += 1
                shp = u(c.args[1])
                ctx.ob(f.where, f"{nm}(...) is given the operand's own shape", shp in (f"{p}._shape", f"{p}.shape"), f"shape argument: {shp}")
    # decode: a result that is NOT wrapped with the operand's ragged shape must keep the operand's own (possibly n-d) shape: _decode is element-wise, so
    # its argument must be the operand's codes as they are, not a flattened view of them
    f = ix.func(EA_MOD, "OneToOneEncoding.decode")
    p = f.params[1]
    env = local_env(f.node)
    nflat = 0
    for r in body_walk(f.node):
        if not isinstance(r, ast.Return) or r.value is None:
            continue
        e = inline_locals(r.value, env)
        if isinstance(e, ast.Call) and u(e.func) in ("EncodedRaggedArray", "RaggedArray"):
            continue
        inner = e.args[0] if isinstance(e, ast.Call) and u(e.func) == "EncodedArray" and e.args else e
        if not (isinstance(inner, ast.Call) and u(inner.func) == "self._decode" and len(inner.args) == 1):
            raise Unrecognised(f"{f.where}: decode returns `{u(e)[:80]}`")
        arg = inner.args[0]
        nflat += 1
        flat = any(isinstance(x, ast.Call) and isinstance(x.func, ast.Attribute) and x.func.attr in ("ravel", "flatten") for x in ast.walk(arg)) or \
            any(isinstance(x, ast.Call) and isinstance(x.func, ast.Attribute) and x.func.attr == "reshape" for x in ast.walk(arg))
        keep = u(arg) in (p, f"{p}.raw()", f"{p}.data", f"np.atleast_1d({p})", f"np.asarray({p})", f"np.asanyarray({p})")
        if not flat and not keep:
            raise Unrecognised(f"{f.where}: decode passes `{u(arg)}` to _decode")
        ctx.ob(f.where, "decode of a non-ragged operand keeps the operand's shape: the codes go to the element-wise _decode as they are, not flattened", keep and not flat,
               u(e)[:100], key=f"C06-R4|decode-shape|{u(arg)}", definite=True)
    ctx.floor("non-ragged returns of OneToOneEncoding.decode", nflat, 3)
    f = ix.func(EA_MOD, "OneToOneEncoding._encode_list_of_strings")
    p = f.params[1]
    cs = [c for c in func_calls(f.node) if u(c.func) == "EncodedRaggedArray"]
    ctx.need(len(cs) == 1 and len(cs[0].args) == 2, "_encode_list_of_strings: constructor not found")
    data, lens = cs[0].args
    dtxt, ltxt = u(data), u(lens)
    ok_d = dtxt.replace(" ", "") == f"EncodedArray([ord(c)forssin{p}forcinss],BaseEncoding)"
    ok_l = ltxt.replace(" ", "") == f"[len(ss)forssin{p}]"
    sites += 1
    ctx.ob(f.where, "list of strings becomes character codes in order with one row length per string", ok_d and ok_l, f"{dtxt} / {ltxt}")
    f = ix.func(EA_MOD, "OneToOneEncoding._ragged_array_as_encoded_array")
    p = f.params[1]
    env = local_env(f.node)
    cs = [c for c in func_calls(f.node) if u(c.func) in ("EncodedRaggedArray", "RaggedArray")]
    for c in cs:
        d = sym.canon(c.args[0], env)
        ctx.ob(f.where, "ragged input is encoded through its flat data (self.encode(x.ravel()))", d == f"self.encode({p}.ravel())", d)
    ctx.floor("ragged constructor sites in the encode/decode dispatch", sites, 5)
    # encode dispatch reaches _encode on every branch
    f = ix.func(EA_MOD, "OneToOneEncoding.encode")
    p = f.params[1]
    from ..cfg import CFG
    from ..pend import edge_facts
    g = CFG(f.node)
    want = {"str": "_encode_string", "list": "_encode_list_of_strings", "RaggedArray": "_ragged_array_as_encoded_array", "np.ndarray": "_encode"}
    disp = {}
    for n in g.nodes:
        if n.kind != "stmt":
            continue
        for x in walk_local(n.ast):
            if isinstance(x, ast.Call) and u(x.func).startswith("self._") and x.args and u(x.args[0]) == p:
                facts = set()
                for t, lab in g.guards(n):
                    if t.kind == "test":
                        facts |= edge_facts(t, lab)
                for ty in want:
                    if (f"isinstance({p}, {ty})", True) in facts:
                        disp.setdefault(ty, set()).add(u(x.func))
    ctx.need(disp, "type dispatch not found in OneToOneEncoding.encode")
    for ty, meth in want.items():
        ctx.ob(f.where, f"encode dispatch: {ty} input goes through self.{meth}(data)", f"self.{meth}" in disp.get(ty, set()), str(sorted(disp.get(ty, set()))))
    fails = [n for n in g.nodes if n.kind == "stmt" and (isinstance(n.ast, ast.Raise) or (isinstance(n.ast, ast.Assert) and isinstance(n.ast.test, ast.Constant) and n.ast.test.value is False))]
    ok = False
    for n in fails:
        facts = set()
        for t, lab in g.guards(n):
            if t.kind == "test":
                facts |= edge_facts(t, lab)
        if all((f"isinstance({p}, {ty})", False) in facts for ty in want):
            ok = True
    ctx.ob(f.where, "encode dispatch: unsupported input type raises", ok, "")
    # _encode_string: ascii bytes of the string
    f = ix.func(EA_MOD, "OneToOneEncoding._encode_string")
    env = local_env(f.node)
    f2 = ix.func(EA_MOD, "OneToOneEncoding._encode_base_encoded_array")
    ok = any(u(c.func) == "self._encode" and u(c.args[0]) in (f"{f2.params[1]}.data", f"{f2.params[1]}.raw()") for c in func_calls(f2.node))
    ctx.ob(f2.where, "base-encoded text is encoded through self._encode(raw bytes)", ok, "")
    txt = u(f.node)
    ok = "np.frombuffer(bytes(" in txt and "dtype=np.uint8" in txt and "self._encode_base_encoded_array(" in txt
    ctx.ob(f.where, "a str is encoded from its bytes through _encode_base_encoded_array", ok, "")


def r5_stale_shape(ctx):
    from .c07 import r5_stale_shape as f
    f(ctx)


def _assigned_values_encoded(ctx):
    from .c07 import r2_operands_encoded        # item assignment and comparison re-target the other operand to the array's encoding first
    with ctx.only("__setitem__", "_set_data_range", "_parse_ufunc_inputs", "__array_ufunc__"):
        r2_operands_encoded(ctx)


def r6_encoding_identity(ctx):
    """`s.encoding == target` lets as_encoded_array return the codes untouched, and a list of encoded arrays is concatenated raw under the first
    element's encoding: both are right only if equality of alphabet encodings means the same letters in the same order, and if EVERY element of
    the list is compared."""
    ix = ctx.index
    eq = ix.func("bionumpy.encodings.alphabet_encoding", "AlphabetEncoding.__eq__")
    o = eq.params[1]
    rets = [r for r in body_walk(eq.node) if isinstance(r, ast.Return)]
    final = [r for r in rets if not (isinstance(r.value, ast.Constant) and r.value.value is False)]
    ctx.need(len(final) == 1, "AlphabetEncoding.__eq__: expected one non-constant return")
    v = final[0].value
    if isinstance(v, ast.Call) and u(v.func) == "bool" and len(v.args) == 1:
        v = v.args[0]
    # the forms in which "same letters in the same order" can be decided: an element-wise comparison of two ORDERED tables of the two encodings
    # (np.all(A == B), or all(a == b for a, b in zip(A, B))), or == on the two lists of letters.  _mask is unordered (same for permuted alphabets).
    ORDERED = {"_alphabet": True, "_raw_alphabet": False, "_lookup": True}     # table -> needs _initialize()
    needs_len = False
    cmp_tables = None
    vv = v
    if isinstance(vv, ast.Call) and u(vv.func) in ("np.all", "all", "np.array_equal") and vv.args:
        a0 = vv.args[0]
        if u(vv.func) == "np.array_equal" and len(vv.args) == 2:
            cmp_tables = (vv.args[0], vv.args[1])
        elif isinstance(a0, ast.Compare) and len(a0.ops) == 1 and isinstance(a0.ops[0], ast.Eq):
            cmp_tables = (a0.left, a0.comparators[0])
            needs_len = True          # == on two arrays of different length broadcasts or raises
        elif isinstance(a0, ast.GeneratorExp) and len(a0.generators) == 1 and isinstance(a0.generators[0].iter, ast.Call) and u(a0.generators[0].iter.func) == "zip" \
                and len(a0.generators[0].iter.args) == 2 and isinstance(a0.elt, ast.Compare) and len(a0.elt.ops) == 1 and isinstance(a0.elt.ops[0], ast.Eq) \
                and isinstance(a0.generators[0].target, ast.Tuple) and len(a0.generators[0].target.elts) == 2 and not a0.generators[0].ifs \
                and {u(a0.elt.left), u(a0.elt.comparators[0])} == {u(e) for e in a0.generators[0].target.elts}:
            cmp_tables = tuple(a0.generators[0].iter.args)
            needs_len = True          # zip stops at the shorter alphabet
    elif isinstance(vv, ast.Compare) and len(vv.ops) == 1 and isinstance(vv.ops[0], ast.Eq):
        cmp_tables = (vv.left, vv.comparators[0])
    tables = {a.attr for a in ast.walk(v) if isinstance(a, ast.Attribute) and a.attr.startswith("_")}
    attr = None
    if cmp_tables is not None:
        l, r = cmp_tables
        if isinstance(l, ast.Attribute) and isinstance(r, ast.Attribute) and l.attr == r.attr and {u(l.value), u(r.value)} == {"self", o}:
            attr = l.attr
    if attr in ORDERED:
        if attr == "_raw_alphabet" and isinstance(vv, ast.Compare):
            needs_len = False         # == on two lists compares the lengths itself
        if attr == "_lookup":
            needs_len = False         # always 256 entries
        ok = True
        if needs_len:
            lg = [t for t in body_walk(eq.node) if isinstance(t, ast.If) and any(sym.canon(t.test) == sym.canon(sym.parse_expr(f"len(self.{x}) != len({o}.{x})")) for x in ("_alphabet", "_raw_alphabet"))
                  and any(isinstance(r, ast.Return) and isinstance(r.value, ast.Constant) and r.value.value is False for r in t.body)]
            lg2 = [t for t in body_walk(eq.node) if isinstance(t, ast.If) and sym.canon(t.test) == sym.canon(sym.parse_expr(f"self._alphabet_size != {o}._alphabet_size"))
                   and any(isinstance(r, ast.Return) and isinstance(r.value, ast.Constant) and r.value.value is False for r in t.body)]
            ctx.ob(eq.where, "alphabets of different length are unequal (decided before the element-wise comparison, which would broadcast or stop at the shorter one)", bool(lg or lg2), u(v), key="C06-R6|eq-length", definite=True)
    elif tables and tables <= {"_mask"}:
        ok = False
    elif attr == "_alphabet_size":
        ok = False
    else:
        raise Unrecognised(f"{eq.where}: equality of alphabet encodings is decided by `{u(v)}`")
    ctx.ob(eq.where, "two alphabet encodings are equal only if they assign the same code to every letter (same letters in the same order); the table of accepted "
           "bytes is the same for permuted alphabets and cannot decide it", ok, u(v), key="C06-R6|eq-ordered", definite=True)
    if ok and ORDERED.get(attr):
        inits = [e for e in body_walk(eq.node) if isinstance(e, ast.Expr) and isinstance(e.value, ast.Call) and u(e.value.func).endswith("._initialize")]
        ctx.ob(eq.where, "both encodings are initialised before their tables are compared", {u(e.value.func) for e in inits} >= {"self._initialize", f"{o}._initialize"}, "", key="C06-R6|eq-init")
    from ..cfg import CFG as _CFG
    from ..pend import edge_facts as _ef
    ge = _CFG(eq.node)
    okt = False
    for n in ge.nodes:
        if n.kind == "stmt" and isinstance(n.ast, ast.Return) and isinstance(n.ast.value, ast.Constant) and n.ast.value.value is False:
            facts = set()
            for t, lab in ge.guards(n):
                if t.kind == "test":
                    facts |= _ef(t, lab)
            if (f"isinstance({o}, AlphabetEncoding)", False) in facts:
                okt = True
    ctx.ob(eq.where, "an alphabet encoding never equals a non-alphabet encoding", okt, "", key="C06-R6|eq-type", definite=True)
    f = ix.func(EA_MOD, "_list_of_encoded_arrays_as_encoded_ragged_array")
    lst = f.params[0]
    env = local_env(f.node)
    asserts = [a for a in body_walk(f.node) if isinstance(a, ast.Assert)]
    quant = None
    for a in asserts:
        t = a.test
        if isinstance(t, ast.Call) and u(t.func) in ("all", "any") and t.args and isinstance(t.args[0], ast.GeneratorExp):
            ge = t.args[0]
            if isinstance(ge.elt, ast.Compare) and ".encoding" in u(ge.elt) and root_name(ge.generators[0].iter) == lst:
                quant = (u(t.func), ge)
    if quant is None:
        raise Unrecognised(f"{f.where}: no check that the elements of the list share one encoding")
    ge = quant[1]
    var = u(ge.generators[0].target)
    okc = sym.canon(ge.elt, env) == sym.canon(sym.parse_expr(f"{var}.encoding == {lst}[0].encoding"))
    ctx.ob(f.where, "a list of encoded arrays is accepted only if EVERY element has the encoding the result is labelled with", quant[0] == "all" and okc and not ge.generators[0].ifs and len(ge.generators) == 1 and u(ge.generators[0].iter) == lst,
           u(ge), key="C06-R6|list-all-same", definite=True)
    def seq_env(stmts, env0):
        e = dict(env0)
        for st in stmts:
            if isinstance(st, ast.Assign) and len(st.targets) == 1 and isinstance(st.targets[0], ast.Name):
                e[st.targets[0].id] = inline_locals(st.value, e)
            elif isinstance(st, ast.Return):
                yield st, dict(e)
            elif isinstance(st, ast.If):
                yield from seq_env(st.body, e)
                yield from seq_env(st.orelse, e)
    for r, renv in seq_env(linear_body(f.node), {}):
        c = sym.canon(r.value, renv)
        ok = c in (sym.canon(sym.parse_expr(f"EncodedArray(np.array([a.data for a in {lst}]), {lst}[0].encoding)")),
                   sym.canon(sym.parse_expr(f"EncodedRaggedArray(EncodedArray(np.concatenate([a.data for a in {lst}]), {lst}[0].encoding), [len(a) for a in {lst}])")))
        ctx.ob(f.where, "the elements' codes are joined in list order and labelled with that common encoding; row lengths are the elements' lengths", ok, c, key="C06-R6|list-join")


def r8_strict_text_and_private_tables(ctx):
    """(a) the str branch of encode turns text into bytes strictly: a character that cannot be represented must raise, not be dropped or replaced (`errors=`
    other than 'strict' silently shortens the text); (b) the accessors of the alphabet hand out new lists, never the list the lookup tables are rebuilt
    from (a caller's `labels.reverse()` would redefine the shared encoding); (c) dict caches of this module are keyed by everything they depend on."""
    ix = ctx.index
    f = ix.func(EA_MOD, "OneToOneEncoding._encode_string")
    conv = [c for c in func_calls(f.node) if u(c.func) in ("bytes", "bytearray") or (isinstance(c.func, ast.Attribute) and c.func.attr == "encode" and u(c.func.value) == f.params[1])]
    ctx.floor("text-to-bytes conversions in _encode_string", len(conv), 1)
    for c in conv:
        errs = [k.value for k in c.keywords if k.arg == "errors"]
        if len(c.args) >= 3 and u(c.func) in ("bytes", "bytearray"):
            errs.append(c.args[2])
        ok = all(isinstance(e, ast.Constant) and e.value == "strict" for e in errs)
        enc = [k.value for k in c.keywords if k.arg == "encoding"] + list(c.args[1:2])
        ok_enc = all(isinstance(e, ast.Constant) and str(e.value).lower() in ("ascii", "latin-1", "latin1", "iso-8859-1") for e in enc) and bool(enc)
        ctx.ob(f.where, "text is converted to bytes strictly (one byte per character; a character outside the byte range raises instead of being dropped)", ok and ok_enc, u(c),
               key="C06-R8|strict-bytes")
    from .c20 import _analysis
    an = _analysis(ctx)
    n = 0
    for qn in ("AlphabetEncoding.get_alphabet", "AlphabetEncoding.get_labels"):
        key = (ENC_MOD, qn)
        if key not in an.summaries:
            continue
        n += 1
        fi = an.funcs[key]
        ret = an.summaries[key].returns
        shared = sorted(str(t) for t in ret if isinstance(t, tuple))
        attrs = [u(r.value) for r in body_walk(fi.node) if isinstance(r, ast.Return) and isinstance(r.value, ast.Attribute) and u(r.value.value) == "self"]
        ctx.ob(fi.where, f"{qn} returns a new list (the encoding's own tables are not reachable from the result)", not shared and not attrs, f"return provenance {sorted(map(str, ret))} {attrs}",
               key=f"C06-R8|fresh-alphabet|{qn}")
    ctx.floor("alphabet accessors with a return summary", n, 2)
    from .. import memo
    m = memo.check_dict_caches(ctx, [EA_MOD, ENC_MOD], rule_prefix="C06-R8")
    ctx.count("dict-cache stores examined", m)


from ..through_time import make_rule as _mk_tt, make_t2 as _mk_t2
_through_time = _mk_tt("C06")
_small_edits = _mk_t2("C06")


def _round7_own_codes(ctx):
    from .round7 import set_data_range_raw, retarget_by_membership
    set_data_range_raw(ctx, "C06-R9")
    retarget_by_membership(ctx, "C06-R9")

RULES = [
    ("C06-R5", r5_stale_shape),
    ("C06-R1", r1_accepted_bytes),
    ("C06-R1b", r1b_encode_structure),
    ("C06-R2", r2_retarget_guard),
    ("C06-R3", r3_change_encoding),
    ("C06-R4", r4_shape_plumbing),
    ("C06-R6", r6_encoding_identity),
    ("C06-R7", _assigned_values_encoded),
    ("C06-T1", _through_time),
    ("C06-T2", _small_edits),
    ("C06-R8", r8_strict_text_and_private_tables),
    ("C06-R9", _round7_own_codes),
]


def thorough(ctx):
    """Deeper bound: every printable ASCII character as a one-letter alphabet and every (letter, non-letter) pair around the case-fold boundaries."""
    ctx.current_rule = "C06-R1-thorough"
    base = ctx.index.cls(ENC_MOD, "AlphabetEncoding")
    n = 0
    for c in range(33, 127):
        _check_alphabet(ctx, base, chr(c), base.where, "single-character")
        n += 1
    for a in "AZMaz":
        for b in "@[`{09*=+-.~!":
            _check_alphabet(ctx, base, a + b, base.where, "letter/non-letter pair")
            n += 1
    ctx.count("thorough_alphabets", n)
