"""C20 - operations do not modify their inputs (ownership clause).

 R1 every function of the package that writes in place into memory reachable from one of its parameters (directly, through an alias chain
    of the NumPy/npstructures effect model, or through a resolved callee that does) belongs to the frozen allow-list of explicit
    assignment APIs, accumulators and private helpers; a new (function, parameter) mutator is a violation naming the write and the chain;
 R2 every call site of a *private* mutator passes memory the caller owns (fresh or copy-on-write), never a parameter or self state;
 R3 in-place writes into arrays held by the receiver (self.<attr>) happen only in the frozen set of explicit mutators / initialisers;
 R4 the field views handed to column parsers are copy-on-write (built over a RaggedView shape), and the one function that writes into the
    raw file buffer has no caller;
 R5 derivations of tables (replace / add_fields / extend / sort_by ...) do not assign attributes of their arguments.
"""
from __future__ import annotations
import ast

from ..index import AnchorMissing, Unrecognised
from ..prov import Analyzer, F, C, U
from ..astutil import linear_body, u, body_walk, func_calls, walk_local, local_env
from .. import sym

EXPLANATION = ("Static ownership analysis of the whole package: a flow-sensitive provenance analysis (fresh / copy-on-write / alias of parameter / alias of "
               "receiver state / unknown) with interprocedural returns-alias and mutates-parameter summaries computed to a fixpoint classifies the base of "
               "every in-place write (subscript stores, augmented assignments, out=, in-place methods, attribute assignment on argument objects, "
               "calls to mutating callees). The set of parameter mutators and of writes into receiver arrays must equal frozen allow-lists; call sites "
               "of private mutators must pass owned memory. Decides the ownership clause for every input; equality of repeated results and mutation "
               "inside npstructures are not decided; unresolved calls are assumed not to mutate (counted in the evidence).")

# (module, qualified function, parameter) -> reason
ALLOWED_PARAM_MUTATORS = {
    ("bionumpy", "set_backend", "lib"): "configuration API: patches the array library module it is handed",
    ("bionumpy.io.strops", "replace_inplace", "number_text"): "explicit in-place API (name and docstring say so)",
    ("bionumpy.io.strops", "_decimal_str_to_float", "number_text"): "private helper; every call site passes a fresh copy (R2)",
    ("bionumpy.io.delimited_buffers", "DelimitedBuffer._parse_split_fields", "text"): "private helper; receives the copy-on-write field view (R4) and copies on failure",
    ("bionumpy.io.delimited_buffers", "DelimitedBuffer._parse_split_ints", "text"): "forwards to _parse_split_fields",
    ("bionumpy.io.delimited_buffers", "DelimitedBuffer._parse_split_floats", "text"): "forwards to _parse_split_fields",
    ("bionumpy.encodings.vcf_encoding", "_GenotypeRowEncoding._preprocess_data_for_encoding", "genotype_rows"): "private; the buffer passes a fancy-indexed copy of the genotype columns (R2)",
    ("bionumpy.encodings.vcf_encoding", "GenotypeBuffer._preprocess_data_for_encoding", "genotype_rows"): "private; same as above",
    ("bionumpy.encodings.vcf_encoding", "_GenotypeRowEncoding.encode", "genotype_rows"): "encoding hook reached only from VCFMatrixBuffer with a fancy-indexed copy (R2)",
    ("bionumpy.encodings.vcf_encoding", "_PhasedGenotypeRowEncoding.encode", "genotype_rows"): "as above",
    ("bionumpy.encodings.vcf_encoding", "_PhasedHaplotypeRowEncoding.encode", "genotype_rows"): "as above",
    ("bionumpy.streams.reductions", "bincount_reduce", "bincount_a"): "accumulator of a reduction over per-chunk results it owns",
    ("bionumpy.streams.reductions", "bincount_reduce", "bincount_b"): "accumulator of a reduction over per-chunk results it owns",
    ("bionumpy.streams.grouped", "chromosome_map.get_args", "kwargs"): "private generator of the chromosome_map decorator; works on the per-call argument containers built by its wrapper",
    ("bionumpy.streams.grouped", "chromosome_map.get_args", "stream_indices"): "as above",
    ("bionumpy.streams.grouped", "chromosome_map.get_args", "dict_indices"): "as above",
    ("bionumpy.streams.grouped", "chromosome_map.get_args", "stream_keys"): "as above",
    ("bionumpy.streams.grouped", "chromosome_map.get_args", "dict_keys"): "as above",
    ("bionumpy.streams.grouped", "grouped_dict.<locals>.decorator", "base_class"): "class decorator: tags the class it decorates",
    ("bionumpy.arithmetics.bedgraph", "memory_efficient_pileup", "intervals"): "unfinished dead function (undefined names, no caller, not exported) - asserted unreachable by R4",
}

# explicit assignment API by method name: the property exempts item / attribute assignment
EXPLICIT_MUTATOR_NAMES = {"__setitem__", "__setattr__", "__delitem__", "__iadd__", "__isub__", "__imul__", "__ior__", "__iand__", "set_context", "__init__"}

# (module, function, self attribute) -> reason
ALLOWED_SELF_WRITES = {
    ("bionumpy.bnpdataclass.bnpdataclass", "BNPDataClass.set_context", "_context"): "explicit setter",
    ("bionumpy.bnpdataclass.lazybnpdataclass", "create_lazy_class.<locals>.NewClass.__getattr__", "_computed_values"): "field cache of the lazy table (fills on first access)",
    ("bionumpy.bnpdataclass.lazybnpdataclass", "create_lazy_class.<locals>.NewClass.__setattr__", "_set_values"): "explicit attribute assignment",
    ("bionumpy.bnpdataclass.lazybnpdataclass", "create_lazy_class.<locals>.NewClass.__setattr__", "_computed_values"): "explicit attribute assignment (cache invalidation)",
    ("bionumpy.encoded_array", "EncodedLookup.__setitem__", "_lookup"): "explicit item assignment",
    ("bionumpy.encodings.alphabet_encoding", "AlphabetEncoding._initialize", "_lookup"): "lazy initialiser fills tables it has just allocated",
    ("bionumpy.encodings.alphabet_encoding", "AlphabetEncoding._initialize", "_mask"): "lazy initialiser fills tables it has just allocated",
    ("bionumpy.io.file_buffers", "FileBuffer._move_2d_array_to_intervals", "_data"): "dead code: writes into the raw file buffer but has no caller (asserted by R4)",
    ("bionumpy.sequence.bloom_filter", "BloomFilter.insert", "_mask"): "explicit insert API of a mutable filter",
    ("bionumpy.streams.multistream", "MultiStream.__init__", "__dict__"): "constructor",
    ("bionumpy.string_array", "StringArray.__setitem__", "_data"): "explicit item assignment",
    ("bionumpy.variants.mutation_signature", "MutationTypeEncoding.__init__", "h"): "constructor",
    ("bionumpy.encoded_array", "EncodedArray.__setitem__", "data"): "explicit item assignment",
    ("bionumpy.sequence.lookup", "Lookup.__setitem__", "_values"): "explicit item assignment",
    ("bionumpy.genomic_data.binned_genome", "BinnedGenome.count", "_counts"): "explicit accumulator API: count() adds into the histogram the object allocated in __init__",
}

PRIVATE_MUTATOR_CALLSITES = [
    # (callee module, callee qualname, parameter index as written at the call (0-based among explicit args), floor of call sites)
    ("bionumpy.io.strops", "_decimal_str_to_float", 0, 2),
]


def _analysis(ctx):
    if not hasattr(ctx, "_prov"):
        ctx._prov = Analyzer(ctx.index).run()
        ctx.count("functions_analysed", len(ctx._prov.funcs))
        ctx.count("calls_resolved", ctx._prov.resolved_calls)
        ctx.count("calls_unresolved", ctx._prov.unresolved_calls)
        ctx.assume("an unresolved callee neither mutates its arguments nor returns an alias that is later written (result treated as unknown, never reported)")
        ctx.assume("NumPy / npstructures effect model of DESIGN.md section 4 (which operations alias, copy, or are copy-on-write)")
    return ctx._prov


def r1_param_mutators(ctx):
    an = _analysis(ctx)
    found = {}
    for key, s in an.summaries.items():
        fi = an.funcs[key]
        params = [x.arg for x in fi.node.args.posonlyargs + fi.node.args.args]
        for idx, ws in s.mutates.items():
            p = params[idx] if idx < len(params) else "?"
            if p in ("self", "cls") and idx == 0 and fi.cls is not None:
                continue
            found[(key[0], key[1], p)] = ws
    ctx.count("param_mutators_found", len(found))
    n_sites = sum(len(v) for v in an.sites.values())
    ctx.count("write_sites_classified", n_sites)
    ctx.floor("in-place write sites located in the package", n_sites, 40)
    for (mod, qn, p), ws in sorted(found.items()):
        name = qn.split(".")[-1]
        if name in EXPLICIT_MUTATOR_NAMES:
            ctx.ob(ws.where, f"{qn}({p}): explicit assignment API may write into its argument", True, ws.stmt, definite=True)
            continue
        ok = (mod, qn, p) in ALLOWED_PARAM_MUTATORS
        if not ok and name.startswith("_") and not name.startswith("__") and ctx.function_status(ws.where) == "new":
            # a private helper that did not exist on the reference tree and writes into its argument: whether that is the caller's own memory is decided at its
            # call sites, which the table of confirmed private mutators (R2) does not list yet
            raise Unrecognised(f"{ws.where}: new private function {qn} writes into its argument `{p}` ([{ws.kind}] `{ws.stmt}`): its call sites are not in the confirmed table")
        ctx.ob(ws.where, f"{mod}:{qn} must not modify its argument `{p}` in place", ok,
               f"[{ws.kind}] `{ws.stmt}`" + (f" via {ws.via}" if ws.via else "") + ("" if ok else " -- the written memory is (a view/column of) the caller's object on some path"),
               key=f"C20-R1|{mod}|{qn}|{p}", definite=True)
    gone = [k for k in ALLOWED_PARAM_MUTATORS if k not in found]
    if gone:
        ctx.note("allow-listed mutators no longer present (fine): " + "; ".join(f"{m}:{q}({p})" for m, q, p in gone))


def _call_sites(an, callee_key):
    out = []
    for key, fi in an.funcs.items():
        for c in func_calls(fi.node):
            r = an._resolve_call(fi, c)
            if r is not None and r[0] == callee_key:
                out.append((fi, c, r[1]))
    return out


def _arg_prov(an, fi, call, argpos):
    """Provenance of positional argument `argpos` at this call, by re-running the caller's analysis up to the call (approximation:
    provenance of the argument expression in the final state of a fresh analysis pass with the call's own statement located)."""
    from ..prov import _Ctx, Summary, FRESH, UNK
    node = fi.node
    a = node.args
    params = [x.arg for x in a.posonlyargs + a.args]
    is_method = fi.cls is not None and params and params[0] in ("self", "cls")
    state = {}
    for i, p in enumerate(params):
        state[p] = frozenset([("S", "")]) if (is_method and i == 0 and p == "self") else (FRESH if (is_method and i == 0) else frozenset([("P", p)]))
    for x in a.kwonlyargs:
        state[x.arg] = frozenset([("P", x.arg)])
    captured = {}

    class Spy(_Ctx):
        def _check_call_effects(self, n, st, objs, stmt):
            if n is call and argpos < len(n.args):
                captured["prov"] = self.prov(n.args[argpos], st, objs) | captured.get("prov", frozenset())
            return super()._check_call_effects(n, st, objs, stmt)
    spy = Spy(an, fi, params, is_method, Summary(), [], {})
    spy.block(node.body, state, {})
    return captured.get("prov")


def r2_private_mutator_call_sites(ctx):
    an = _analysis(ctx)
    for mod, qn, argpos, floor in PRIVATE_MUTATOR_CALLSITES:
        key = (mod, qn)
        if key not in an.funcs:
            raise AnchorMissing(f"private mutator {mod}:{qn} not found")
        sites = _call_sites(an, key)
        ctx.floor(f"call sites of {qn}", len(sites), floor)
        for fi, c, off in sites:
            pv = _arg_prov(an, fi, c, argpos)
            ctx.need(pv is not None, f"{fi.where}: argument of {qn} not located")
            owned = not any(isinstance(t, tuple) for t in pv)
            ctx.ob(f"{fi.module.relpath}:{c.lineno} {fi.qualname}", f"{qn} (writes into its argument) is handed memory the caller owns: `{u(c)[:80]}`", owned,
                   f"argument provenance {sorted(map(str, pv))}", key=f"C20-R2|{fi.module.name}|{fi.qualname}|{qn}", definite=True)
    # genotype text: the matrix buffers hand a fancy-indexed copy to the (mutating) row encoders
    vb = ctx.index.func("bionumpy.io.vcf_buffers", "VCFMatrixBuffer._get_field_by_number")
    env = local_env(vb.node)
    encs = [c for c in func_calls(vb.node) if u(c.func) == "self.genotype_encoding.encode"]
    ctx.floor("genotype encode call sites", len(encs), 1)
    for c in encs:
        arg = c.args[0]
        src = env.get(u(arg)) if isinstance(arg, ast.Name) else arg
        ok = src is not None and isinstance(src, ast.Call) and u(src.func) == "self._buffer_extractor.get_fixed_length_field"
        ctx.ob(vb.where, "genotype rows given to the row encoder come from get_fixed_length_field (a fancy-indexed copy)", ok, u(src) if src is not None else u(arg),
               key="C20-R2|genotype-source", definite=True)
    gf = ctx.index.func("bionumpy.io.file_buffers", "TextBufferExtractor.get_fixed_length_field")
    rets = [n for n in body_walk(gf.node) if isinstance(n, ast.Return)]
    genv = local_env(gf.node)
    ok = len(rets) == 1 and isinstance(rets[0].value, ast.Subscript) and u(rets[0].value.value) == "self._data" and \
        isinstance(genv.get(u(rets[0].value.slice)), ast.BinOp) and "np.arange(" in u(genv.get(u(rets[0].value.slice)))
    ctx.ob(gf.where, "get_fixed_length_field indexes the buffer with an integer index array (advanced indexing: always a copy)", ok, u(rets[0].value) if rets else "",
           key="C20-R2|fixed-length-copy", definite=True)


IO_TABLE_MODULES = ("bionumpy.io.file_buffers", "bionumpy.io.delimited_buffers", "bionumpy.io.one_line_buffer", "bionumpy.io.multiline_buffer", "bionumpy.io.fastq_buffer",
                    "bionumpy.io.named_text_buffer", "bionumpy.io.bam", "bionumpy.io.vcf_buffers", "bionumpy.io.buffers.sam", "bionumpy.bnpdataclass.lazybnpdataclass",
                    "bionumpy.io.parser", "bionumpy.io.npdataclassreader")


def r3_self_array_writes(ctx, modules=None, floor=None):
    """`modules`: restrict to writes located in these modules (used when the clause is shared with the file-format properties: the tables of a buffer /
    extractor / lazy table are shared between a table and its selections)"""
    an = _analysis(ctx)
    n = 0
    for key, sites in sorted(an.sites.items()):
        if modules is not None and key[0] not in modules:
            continue
        for ws in sites:
            if ws.target[0] != "S" or ws.kind not in ("store", "augassign", "inplace-call", "out=", "callee-mutates", "container-mutation", "container-mutation-via-alias"):
                continue
            if ws.kind == "container-mutation" and not ws.stmt.replace(" ", "").count("__setitem__("):
                continue  # direct list/dict bookkeeping of stateful objects (self._x.append(...)) is not array content
            if ws.kind == "store" and ws.target[1] in an.dict_attrs(an.funcs[key].cls) and ws.stmt.lstrip().startswith("self."):
                continue  # filling a dict cache of the receiver: decided by the memo rules, not an array write
            n += 1
            name = key[1].split(".")[-1]
            ok = (key[0], key[1], ws.target[1]) in ALLOWED_SELF_WRITES
            ctx.ob(ws.where, f"{key[0]}:{key[1]} may not write in place into the receiver's array `self.{ws.target[1]}` (only explicit mutators and initialisers do)",
                   ok, f"[{ws.kind}] `{ws.stmt}`" + (f" via {ws.via}" if ws.via else ""), key=f"C20-R3|{key[0]}|{key[1]}|{ws.target[1]}", definite=True)
    ctx.floor("in-place writes into receiver arrays", n, (10 if modules is None else 2) if floor is None else floor)


def r4_cow_views_and_dead_writers(ctx):
    ix = ctx.index
    an = _analysis(ctx)
    ex = ix.func("bionumpy.io.file_buffers", "TextBufferExtractor._extract_data")
    cons = [c for c in func_calls(ex.node) if u(c.func) == "EncodedRaggedArray"]
    ok = len(cons) == 1 and len(cons[0].args) == 2 and u(cons[0].args[0]) == "self._data" and isinstance(cons[0].args[1], ast.Call) and \
        u(cons[0].args[1].func) in ("RaggedView2", "RaggedView")
    ctx.ob(ex.where, "field text handed to column parsers is a copy-on-write view of the file buffer (RaggedView shape), so parser writes never reach the buffer",
           ok, u(cons[0]) if cons else "", key="C20-R4|extract-data-cow", definite=True)
    users = {}
    for qn in ("TextBufferExtractor.get_field_by_number", "TextThroughputExtractor.get_fields_by_range"):
        f = ix.func("bionumpy.io.file_buffers", qn)
        rets = [n for n in body_walk(f.node) if isinstance(n, ast.Return)]
        ok = bool(rets) and all(isinstance(r.value, ast.Call) and u(r.value.func) == "self._extract_data" for r in rets)
        ctx.ob(f.where, f"{qn} returns only such views", ok, "; ".join(u(r.value) for r in rets), key=f"C20-R4|{qn}", definite=True)
    # dead writers
    for mod, qn in (("bionumpy.io.file_buffers", "FileBuffer._move_2d_array_to_intervals"), ("bionumpy.arithmetics.bedgraph", "memory_efficient_pileup")):
        if not ix.has_func(mod, qn):
            ctx.note(f"{mod}:{qn} no longer exists (fine)")
            continue
        name = qn.split(".")[-1]
        callers = []
        for mi in ix.modules.values():
            for fi in mi.functions.values():
                for c in func_calls(fi.node):
                    if u(c.func).split(".")[-1] == name:
                        callers.append(fi.where)
            for nm, (m, attr) in mi.imports.items():
                if attr == name:
                    callers.append(f"{mi.relpath} imports {name}")
        ctx.ob(f"{mod}:{qn}", f"{name} (writes into its input / the raw buffer) has no caller and is not imported anywhere", not callers, "; ".join(callers[:4]),
               key=f"C20-R4|dead|{name}", definite=True)
    # _parse_split_fields: copy fallback
    ps = ix.func("bionumpy.io.delimited_buffers", "DelimitedBuffer._parse_split_fields")
    trys = [n for n in body_walk(ps.node) if isinstance(n, ast.Try)]
    ok = len(trys) == 1 and any(isinstance(h.type, ast.Name) and h.type.id == "ValueError" for h in trys[0].handlers) and \
        any(isinstance(x, ast.Assign) and u(x.targets[0]) == ps.params[1] and sym.canon(x.value) == f"{ps.params[1]}.copy()" for h in trys[0].handlers for x in h.body)
    ctx.ob(ps.where, "the separator store falls back to a private copy when the view is read-only", ok, "", key="C20-R4|copy-fallback")


def r5_table_derivations(ctx):
    ix = ctx.index
    an = _analysis(ctx)
    targets = [("bionumpy.bnpdataclass.bnpdataclass", "BNPDataClass.add_fields"), ("bionumpy.bnpdataclass.bnpdataclass", "BNPDataClass.extend"),
               ("bionumpy.bnpdataclass.bnpdataclass", "BNPDataClass.sort_by"), ("bionumpy.bnpdataclass.bnpdataclassfunction", "replace"),
               ("bionumpy.arithmetics.intervals", "merge_intervals"), ("bionumpy.arithmetics.intervals", "sort_intervals"),
               ("bionumpy.arithmetics.intervals", "extend_to_size"), ("bionumpy.arithmetics.intervals", "clip"),
               ("bionumpy.io.strops", "str_to_int"), ("bionumpy.io.strops", "str_to_float"), ("bionumpy.io.strops", "ints_to_strings"),
               ("bionumpy.io.strops", "split"), ("bionumpy.io.strops", "join"), ("bionumpy.io.strops", "str_equal"),
               ("bionumpy.sequence.dna", "get_reverse_complement"), ("bionumpy.sequence.translate", "translate_dna_to_protein"),
               ("bionumpy.encoded_array", "change_encoding"), ("bionumpy.encoded_array", "as_encoded_array"),
               ("bionumpy.io.vcf_buffers", "VCFBuffer.from_data"), ("bionumpy.io.vcf_buffers", "VCFBuffer2.from_data"),
               ("bionumpy.io.delimited_buffers", "DelimitedBuffer.from_data"), ("bionumpy.io.dump_csv", "dump_csv")]
    n = 0
    for mod, qn in targets:
        key = (mod, qn)
        if key not in an.funcs:
            raise AnchorMissing(f"{mod}:{qn} not found")
        fi = an.funcs[key]
        n += 1
        s = an.summaries[key]
        params = [x.arg for x in fi.node.args.posonlyargs + fi.node.args.args]
        bad = [(params[i], ws) for i, ws in s.mutates.items() if not (i == 0 and params[i] in ("cls",))]
        bad = [(p, ws) for p, ws in bad if not (p == "self" and ws.target[0] == "S" and ws.kind == "container-mutation")]
        ctx.ob(fi.where, f"{qn} leaves its arguments untouched (it builds new objects)", not bad,
               "; ".join(f"`{p}` written by [{ws.kind}] `{ws.stmt}`" + (f" via {ws.via}" if ws.via else "") for p, ws in bad), key=f"C20-R5|{mod}|{qn}", definite=True)
    ctx.floor("named public derivations checked", n, 20)


_MEMO_DECOS = ("lru_cache", "functools.lru_cache", "cache", "functools.cache", "cached_property", "functools.cached_property")


def _is_memoised(fi) -> bool:
    for d in getattr(fi.node, "decorator_list", []):
        f = d.func if isinstance(d, ast.Call) else d
        if u(f) in _MEMO_DECOS:
            return True
    return False


def _immutable_result(expr, fi) -> bool:
    """Syntactically a value that cannot be written into: numbers, strings, tuples of such, sizes / lengths / counts."""
    if isinstance(expr, ast.Constant):
        return True
    if isinstance(expr, ast.Tuple):
        return all(_immutable_result(e, fi) for e in expr.elts)
    if isinstance(expr, ast.Attribute) and expr.attr in ("size", "ndim", "shape", "dtype", "itemsize", "nbytes"):
        return True
    if isinstance(expr, ast.Call) and u(expr.func) in ("len", "int", "float", "str", "bool", "tuple", "frozenset", "hash", "repr", "sum", "max", "min", "type"):
        return True
    if isinstance(expr, ast.Call) and isinstance(expr.func, ast.Attribute) and expr.func.attr in ("count_entries", "__len__", "item", "tobytes"):
        return True
    if isinstance(expr, (ast.Compare, ast.BoolOp)):
        return True
    return False


# public memoised functions whose mutable result was confirmed by reading never to be written by library or documented use: (module, qualname) -> reason
PUBLIC_MEMO_OK = {}


def r6_memoised_results(ctx, modules=None):
    """A memoised function hands the SAME object to every caller with equal arguments.  If that object is a mutable array and reaches code that may
    write into it (it is returned further, stored, or written in place), one caller's write shows up in another caller's 'new' result.  Every
    memoised function must therefore return an immutable value, or its result must be used only as an operand of expressions that build new values."""
    ix = ctx.index
    n = 0
    memo = [fi for fi in ix.all_functions() if not isinstance(fi.node, ast.Lambda) and _is_memoised(fi) and (modules is None or fi.module.name in modules)]
    mutable = []
    for fi in memo:
        n += 1
        rets = [r.value for r in body_walk(fi.node) if isinstance(r, ast.Return) and r.value is not None]
        if rets and all(_immutable_result(r, fi) for r in rets):
            ctx.ob(fi.where, f"memoised `{fi.qualname}` returns an immutable value", True, "; ".join(u(r) for r in rets), key=f"C20-R6|immutable|{fi.module.name}|{fi.qualname}", definite=True)
        else:
            mutable.append(fi)
    names = {fi.qualname.split(".")[-1] for fi in mutable}
    hits = {nm: [] for nm in names}
    for gi in ix.all_functions():
        if isinstance(gi.node, ast.Lambda) or not any(nm in gi.module.source for nm in names):
            continue
        found = [x for st in linear_body(gi.node) for x in ast.walk(st) if (isinstance(x, ast.Attribute) and x.attr in names and isinstance(x.ctx, ast.Load)) or
                 (isinstance(x, ast.Name) and x.id in names and isinstance(x.ctx, ast.Load))]
        if not found:
            continue
        par = {}
        for a in ast.walk(gi.node):
            for c in ast.iter_child_nodes(a):
                par[c] = a
        for x in found:
            hits[x.attr if isinstance(x, ast.Attribute) else x.id].append((gi, x, par))
    for fi in mutable:
        name = fi.qualname.split(".")[-1]
        is_prop = any(u(d) in ("property", "cached_property") or u(d).endswith("cached_property") for d in fi.node.decorator_list)
        escapes, uses = [], 0
        for gi, attr, par in hits[name]:
            if gi is fi:
                continue
            hit = attr
            if not is_prop:
                up0 = par.get(attr)
                if not (isinstance(up0, ast.Call) and up0.func is attr):
                    if isinstance(attr, ast.Attribute) and isinstance(attr.value, ast.Name) and attr.value.id == "self":
                        uses += 1
                        escapes.append(f"{gi.module.relpath}:{attr.lineno} {gi.qualname}: the bound method is stored / passed on and called indirectly")
                    continue
                hit = up0
            uses += 1
            up = par.get(hit)
            where = f"{gi.module.relpath}:{hit.lineno} {gi.qualname}"
            if isinstance(up, ast.Return) or (isinstance(up, ast.Tuple) and isinstance(par.get(up), ast.Return)) or (isinstance(up, ast.Lambda) and up.body is hit):
                escapes.append(f"{where}: returned")
            elif isinstance(up, ast.Assign) and up.value is hit:
                tgt = up.targets[0]
                if isinstance(tgt, ast.Name):
                    v = tgt.id
                    for y in body_walk(gi.node):
                        if isinstance(y, ast.AugAssign) and u(y.target) == v:
                            escapes.append(f"{where}: `{v}` is then written in place ({u(y)})")
                        elif isinstance(y, ast.Assign) and isinstance(y.targets[0], ast.Subscript) and u(y.targets[0].value) == v:
                            escapes.append(f"{where}: `{v}` is then written in place ({u(y)})")
                        elif isinstance(y, ast.Return) and y.value is not None and u(y.value) == v:
                            escapes.append(f"{where}: `{v}` is then returned")
                else:
                    escapes.append(f"{where}: stored in {u(tgt)}")
            elif isinstance(up, ast.AugAssign) and up.target is hit:
                escapes.append(f"{where}: written in place")
            elif isinstance(up, ast.Subscript) and up.value is hit and isinstance(up.ctx, ast.Store):
                escapes.append(f"{where}: written in place")
        if not name.startswith("_") and not fi.qualname.split(".")[-2:-1] == ["<locals>"] and (fi.module.name, fi.qualname) not in PUBLIC_MEMO_OK:
            escapes.append(f"{fi.qualname} is public API: the memoised object is handed to user code, which may change it")
        ctx.ob(fi.where, f"memoised `{fi.qualname}` returns a mutable object: its result is only ever used as an operand (never returned further, stored, or written in place), "
               "so no caller can change what another caller gets", not escapes, "; ".join(escapes[:4]) or f"{uses} uses, all operands", key=f"C20-R6|shared-result|{fi.module.name}|{fi.qualname}", definite=True)
    ctx.floor("memoised functions examined", n, 7 if modules is None else 0)


def r9_mutable_defaults(ctx, modules=None):
    """A default argument is evaluated once: a `{}` / `[]` / array default that is stored on the object, returned or written into is shared by every call (and every
    object) that relied on the default: a write through one of them shows up in all the others."""
    ix = ctx.index
    n = 0
    for fi in ix.all_functions():
        if isinstance(fi.node, ast.Lambda) or "_legacy" in fi.module.name or (modules is not None and fi.module.name not in modules):
            continue
        a = fi.node.args
        pos = a.posonlyargs + a.args
        pairs = list(zip(pos[len(pos) - len(a.defaults):], a.defaults)) + [(p_, d) for p_, d in zip(a.kwonlyargs, a.kw_defaults) if d is not None]
        for p_, d in pairs:
            mutable = isinstance(d, (ast.Dict, ast.List, ast.Set)) or (isinstance(d, ast.Call) and u(d.func) in ("dict", "list", "set", "defaultdict", "np.array", "np.zeros", "np.empty", "bytearray"))
            if not mutable:
                continue
            n += 1
            name = p_.arg
            escapes = []
            for x in body_walk(fi.node):
                if isinstance(x, ast.Assign) and isinstance(x.value, ast.Name) and x.value.id == name and any(isinstance(t, ast.Attribute) for t in x.targets):
                    escapes.append(f"stored: {u(x)}")
                elif isinstance(x, ast.Assign) and isinstance(x.targets[0], ast.Subscript) and u(x.targets[0].value) == name:
                    escapes.append(f"written: {u(x)[:60]}")
                elif isinstance(x, ast.AugAssign) and (u(x.target) == name or (isinstance(x.target, ast.Subscript) and u(x.target.value) == name)):
                    escapes.append(f"written: {u(x)[:60]}")
                elif isinstance(x, ast.Call) and isinstance(x.func, ast.Attribute) and u(x.func.value) == name and x.func.attr in ("update", "append", "extend", "add", "setdefault", "pop", "clear", "insert", "sort"):
                    escapes.append(f"mutated: {u(x)[:60]}")
                elif isinstance(x, ast.Return) and x.value is not None and u(x.value) == name:
                    escapes.append("returned")
            ctx.ob(fi.where, f"the mutable default of `{name}` ({u(d)[:30]}) is only read: it is not stored on the object, returned or written into (it would be shared by every "
                   "call that relies on the default)", not escapes, "; ".join(escapes[:3]), key=f"C20-R9|mutable-default|{fi.module.name}|{fi.qualname}|{name}", definite=True)
    ctx.count("mutable default arguments examined", n)
    ctx.ob("bionumpy", f"{n} mutable default arguments examined", True, "", key="C20-R9|scan", definite=True)



def _compaction_state(ctx):
    from .c04 import r2_aligned_stores      # writing a selection compacts the extractor in place: every table must end up consistent with the new buffer
    with ctx.only("_make_contigous", "BamBufferExtractor.data"):      # (selection / concatenation build new objects: not this property's business)
        r2_aligned_stores(ctx)


def _copies_copy(ctx):
    from .c07 import r2_operands_encoded    # copy() really copies (str_to_int & co. rely on it before they overwrite characters)
    with ctx.only(".copy"):
        r2_operands_encoded(ctx)


from ..through_time import make_rule as _mk_tt, make_t2 as _mk_t2
_through_time = _mk_tt("C20")
_small_edits = _mk_t2("C20")

def _pass_through_decision(ctx):
    from .c04 import r1_pass_through
    r1_pass_through(ctx)                   # reading a column must not change what a later write emits for it

RULES = [
    ("C20-R1", r1_param_mutators),
    ("C20-R2", r2_private_mutator_call_sites),
    ("C20-R3", r3_self_array_writes),
    ("C20-R4", r4_cow_views_and_dead_writers),
    ("C20-R5", r5_table_derivations),
    ("C20-R6", r6_memoised_results),
    ("C20-R7", _compaction_state),
    ("C20-R8", _copies_copy),
    ("C20-R9", r9_mutable_defaults),
    ("C20-T1", _through_time),
    ("C20-T2", _small_edits),
    ("C20-R10", _pass_through_decision),
]
