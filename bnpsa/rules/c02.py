"""C02 - parsed columns mean what the file format says the text means.

 R1 exhaustiveness: every field type of every dataclass bound to a text buffer class has a text parser (entry of the parser table, the Encoding
    fallback, or a per-column override in that buffer class);
 R2 coordinate shift: on read exactly the VCF POS column is shifted by -1 (the branch constant equals the index of `position`);
    no other text buffer shifts coordinates;
 R3 fixed layouts: SAM (eleven fixed columns + rest), FASTQ / two-line FASTA line roles and marker offsets, GFA S-lines;
 R4 cache-key completeness of the VCF class caches (shared rule F-MEMO(b));
 R5 header / comment separation: comment characters and the header reader;
 R6 field table: starts/ends from delimiter positions, one row per line, column count from the first line; fixed-width helpers
    (digit matrix right-aligned; padded field truncated at the sub-delimiter never beyond its own length).
"""
from __future__ import annotations
import ast

from ..index import AnchorMissing, Unrecognised
from ..cfg import CFG
from ..astutil import linear_body, u, body_walk, local_env, func_calls, walk_local, single_return_expr, inline_locals, straightline_return
from ..pend import edge_facts
from .. import sym, schema, memo

EXPLANATION = ("Static schema analysis of the text parsers: the ordered field types of every dataclass bound to a text buffer class are enumerated "
               "through inheritance and compared with the type->parser table read from the code (plus per-column overrides); the single coordinate "
               "shift (VCF POS-1) is located and its column constant compared with the schema; fixed record layouts (SAM, FASTQ, FASTA, GFA) are "
               "compared as constants; the field start/end table and fixed-width helpers are compared as symbolic normal forms; VCF class caches are "
               "checked for complete keys. Holds for every file; digit alignment and value arithmetic of the parsers are not decided here (see C18).")

FB = "bionumpy.io.file_buffers"
DB = "bionumpy.io.delimited_buffers"


def _overrides(ix, bufcls):
    """Column indices handled by `if field_nr == k` branches in overriding field getters of this buffer class (and its extractor)."""
    out = set()
    for c in ix.mro(bufcls):
        for mname in ("_get_field_by_number", "get_field_by_number", "get_text_field_by_number", "get_data"):
            fi = c.methods.get(mname)
            if fi is None or c.qualname in ("DelimitedBuffer", "FileBuffer", "OneLineBuffer"):
                continue
            for n in body_walk(fi.node):
                if isinstance(n, ast.Compare) and len(n.ops) == 1 and isinstance(n.ops[0], ast.Eq) and isinstance(n.comparators[0], ast.Constant) \
                        and isinstance(n.comparators[0].value, int) and isinstance(n.left, ast.Name):
                    out.add(n.comparators[0].value)
    return out


def r1_parser_exhaustive(ctx):
    ix = ctx.index
    table = set(schema.parser_table_types(ix))
    ctx.floor("entries of the type -> parser table", len(table), 10)
    binds = [(b, dc) for b, dc in schema.buffer_bindings(ix) if not b.module.name.endswith(".bam") and b.qualname not in ("FastaIdxBuffer",)]
    ctx.floor("text buffer classes bound to a dataclass", len(binds), 17)
    pairs = 0
    # the Encoding fallback exists
    gp = ix.func(FB, "FileBuffer._get_parser")
    txt = u(gp.node)
    enc_fallback = "if is_subclass_or_instance(field_type, Encoding):" in txt and "parser = lambda x: as_encoded_array(x, field_type)" in txt
    ctx.ob(gp.where, "fields annotated with an encoding are parsed by encoding the text with that encoding", enc_fallback, "", key="C02-R1|encoding-fallback")
    loop_ok = "for f, field_parser in parsers:" in txt and "if field_type == f:" in txt and "parser = field_parser" in txt
    ctx.ob(gp.where, "the parser of a field is the table entry whose type equals the field type", loop_ok, "", key="C02-R1|lookup")
    for b, dc in binds:
        fields = schema.fields_of(ix, dc)
        ov = _overrides(ix, b)
        is_line_format = any(k.qualname in ("OneLineBuffer", "MultiLineBuffer") for k in ix.mro(b))
        for i, (name, ty, node) in enumerate(fields):
            pairs += 1
            ok = ty in table or schema.is_encoding_type(ix, dc.module, ty) or i in ov or (is_line_format and ty in ("str", "SequenceID"))
            if not ok and b.qualname.startswith("Gfa"):
                ok = (i + 1) in ov or ty in table
            ctx.ob(f"{b.module.relpath} {b.qualname}", f"{b.qualname}: column {i} `{name}: {ty}` of {dc.qualname} has a text parser", ok,
                   "" if ok else f"type {ty} is not in the parser table {sorted(table)}, is not an encoding and column {i} has no override",
                   key=f"C02-R1|{b.qualname}|{name}|{ty}")
    ctx.count("buffer_field_pairs", pairs)
    ctx.floor("(buffer class, field) pairs", pairs, 95)
    # INFO field types produced from the header are parseable too
    tf = ix.func("bionumpy.io.vcf_buffers", "translate_field_type")
    rets = [u(n.value) for n in body_walk(tf.node) if isinstance(n, ast.Return)]
    ok = all(r in table or r == "t" for r in rets)
    ctx.ob(tf.where, "INFO field types derived from the header are types of the parser table", ok, str(rets), key="C02-R1|info-types")


def r2_coordinate_shift(ctx):
    ix = ctx.index
    vb = ix.cls("bionumpy.io.vcf_buffers", "VCFBuffer")
    f = vb.methods["_get_field_by_number"]
    g = CFG(f.node)
    shifts = [n for n in g.stmt_nodes(ast.AugAssign)]
    ctx.floor("coordinate shifts in VCFBuffer._get_field_by_number", len(shifts), 1)
    ventry = ix.cls("bionumpy.datatypes", "VCFEntry")
    pos_idx = [n for n, _, _ in schema.fields_of(ix, ventry)].index("position")
    for s in shifts:
        facts = set()
        for t, lab in g.guards(s):
            facts |= edge_facts(t, lab)
        col = [c for c, p in facts if p and c.endswith(f")==({f.params[1]})") or (p and c.startswith(f"({f.params[1]})==("))]
        consts = set()
        for c in col:
            for part in c.replace("(", " ").replace(")", " ").replace("==", " ").split():
                if part.isdigit():
                    consts.add(int(part))
        ok = consts == {pos_idx} and isinstance(s.ast.op, ast.Sub) and sym.poly(s.ast.value) == sym.Poly.const(1)
        ctx.ob(f.where, f"VCF: exactly column {pos_idx} (`position`) is shifted from 1-based to 0-based (-1) on read", ok, f"{u(s.ast)} under {sorted(facts)}", key="C02-R2|vcf-pos")
    # the shift is applied to an array this call owns (a cached / shared array would be shifted again on every access)
    from ..prov import Analyzer
    an = Analyzer(ix).run()
    shared = [ws for ws in an.sites.get(("bionumpy.io.vcf_buffers", "VCFBuffer._get_field_by_number"), []) if ws.kind == "augassign"]
    ctx.ob(f.where, "the in-place POS shift is applied to a freshly parsed array, not to state shared with the buffer (a memoised column would drift by one per access)",
           not shared, "; ".join(f"{ws.stmt} writes {ws.target}" for ws in shared), key="C02-R2|shift-on-owned-array")
    # no other text buffer shifts a parsed column
    n = 0
    for b, dc in schema.buffer_bindings(ix):
        if b.module.name.endswith(".bam"):
            continue
        for mname in ("_get_field_by_number", "get_field_by_number", "get_data"):
            fi = b.methods.get(mname)
            if fi is None or (b.qualname == "VCFBuffer" and mname == "_get_field_by_number"):
                continue
            n += 1
            bad = [u(x) for x in body_walk(fi.node) if isinstance(x, ast.AugAssign) and isinstance(x.op, (ast.Add, ast.Sub))]
            bad += [u(x) for x in body_walk(fi.node) if isinstance(x, ast.BinOp) and isinstance(x.op, (ast.Add, ast.Sub)) and isinstance(x.right, ast.Constant)
                    and isinstance(x.left, ast.Call) and "get_field_by_number" in u(x.left.func)]
            ctx.ob(fi.where, f"{b.qualname}.{mname} keeps coordinates as written (no +/-1 on parsed columns)", not bad, "; ".join(bad), key=f"C02-R2|{b.qualname}|{mname}", definite=True)
    ctx.floor("overriding field getters examined for shifts", n, 6)


def r3_fixed_layouts(ctx):
    ix = ctx.index
    # SAM
    sam = ix.cls("bionumpy.io.buffers.sam", "SAMBuffer")
    n_fields = len(schema.fields_of(ix, ix.cls("bionumpy.datatypes", "SAMEntry")))
    be = sam.methods["_get_buffer_extractor"]
    cf = [n for n in body_walk(be.node) if isinstance(n, ast.Assign) and u(n.targets[0]) == "common_fields"]
    ok = len(cf) == 1 and sym.poly(cf[0].value) == sym.Poly.const(n_fields - 1)
    ctx.ob(be.where, f"SAM: the first {n_fields - 1} columns are fixed, the rest of the line is the optional-tags field", ok, u(cf[0]) if cf else "", key="C02-R3|sam-common")
    ex = ix.func("bionumpy.io.buffers.sam", "SAMBufferExctractor.get_field_by_number")
    consts = [n.comparators[0].value for n in body_walk(ex.node) if isinstance(n, ast.Compare) and isinstance(n.comparators[0], ast.Constant)]
    ctx.ob(ex.where, "SAM: the extra-tags accessor is column index = number of fixed columns", consts == [n_fields - 1], str(consts), key="C02-R3|sam-extra-index")
    init = sam.methods["__init__"]
    nf = [n for n in body_walk(init.node) if isinstance(n, ast.Assign) and u(n.targets[0]) == "self._n_fields"]
    ctx.ob(init.where, "SAM: declared column count equals the entry type's field count", len(nf) == 1 and sym.poly(nf[0].value) == sym.Poly.const(n_fields), "", key="C02-R3|sam-n-fields")
    xf = ix.func("bionumpy.io.buffers.sam", "SAMBufferExctractor._get_extra_field")
    env = local_env(xf.node)
    ok = sym.same(env.get("starts"), "self._field_starts[:, -1] + self._field_lens[:, -1] + 1") and sym.same(env.get("lens"), "np.maximum(self._entry_ends - starts - 1, 0)", {})
    ctx.ob(xf.where, "SAM: the tags field runs from after the last fixed column to the end of the record (empty when absent)", ok, "", key="C02-R3|sam-extra-range")
    nfm = sam.methods["_get_n_fields"]
    ok = sym.same(single_return_expr(nfm.node), f"np.insert(np.diff({nfm.params[1]}), 0, {nfm.params[1]}[0] + 1)")
    ctx.ob(nfm.where, "SAM: the column count is computed per line (lines differ in their number of tags)", ok, "", key="C02-R3|sam-per-line")
    # FASTQ / FASTA
    fq = ix.cls("bionumpy.io.fastq_buffer", "FastQBuffer")
    from ..absval import const as cev
    lo = cev(fq.attrs["_line_offsets"])
    nl = cev(fq.attrs["n_lines_per_entry"])
    ok = tuple(lo) == (1, 0, 0, 0) and nl == 4 and cev(fq.attrs["HEADER"]) == "@" and list(cev(fq.attrs["_empty_lines"])) == [2]
    ctx.ob(fq.where, "FASTQ: 4 lines per record, '@' marker skipped on line 0 only, line 2 ('+') carries no field", ok, f"offsets {lo}, lines {nl}", key="C02-R3|fastq-layout")
    tf = fq.methods["get_text_field_by_number"]
    g = CFG(tf.node)
    rets = g.stmt_nodes(ast.Return)
    okm = False
    for r in rets:
        facts = set()
        for t, lab in g.guards(r):
            facts |= edge_facts(t, lab)
        if (f"(2)==({tf.params[1]})", True) in facts or (f"({tf.params[1]})==(2)", True) in facts:
            okm = sym.canon(r.ast.value) == "self._buffer_extractor.get_field_by_number(3)"
    ctx.ob(tf.where, "FASTQ: field 2 (quality) is read from line 3", okm, "", key="C02-R3|fastq-quality-line")
    ol = ix.cls("bionumpy.io.one_line_buffer", "OneLineBuffer")
    ok = tuple(cev(ol.attrs["_line_offsets"])) == (1, 0) and cev(ol.attrs["n_lines_per_entry"]) == 2
    tl = ix.cls("bionumpy.io.one_line_buffer", "TwoLineFastaBuffer")
    ok = ok and cev(tl.attrs["HEADER"]) == ">" and cev(tl.attrs["n_lines_per_entry"]) == 2
    ctx.ob(tl.where, "two-line FASTA: 2 lines per record, '>' marker skipped on line 0", ok, "", key="C02-R3|fasta-layout")
    gx = ix.func("bionumpy.io.one_line_buffer", "OneLineBuffer._get_buffer_extractor")
    env = local_env(gx.node)
    nlp = "cls.n_lines_per_entry"
    checks = {
        "tmp": "np.insert(new_lines, 0, -1) + 1",
        "field_starts": f"tmp[:-1].reshape(-1, {nlp}) + np.array(cls._line_offsets)",
        "entry_starts": f"tmp[:-1:{nlp}]",
        "entry_ends": f"tmp[::{nlp}][1:]",
    }
    bad = [k for k, w in checks.items() if not sym.same(env.get(k), w.replace("new_lines", gx.params[2]), {})]
    ctx.ob(gx.where, "line-group formats: field i of a record starts at the start of line i plus the marker offset; a record spans n lines", not bad, str(bad), key="C02-R3|line-starts")
    fe = [n for n in body_walk(gx.node) if isinstance(n, ast.Assign) and u(n.targets[0]) == "field_ends"]
    ok = len(fe) == 2 and sym.same(fe[0].value, f"{gx.params[2]}.reshape(-1, {nlp})") and sym.same(fe[1].value, f"cls._modify_for_carriage_return(field_ends, {gx.params[1]})")
    ctx.ob(gx.where, "line-group formats: a field ends at its line end (before a carriage return, if any)", ok, "", key="C02-R3|line-ends")
    # GFA
    gs = ix.cls(DB, "GfaSequenceBuffer")
    gf = gs.methods["get_field_by_number"]
    ok = sym.same(single_return_expr(gf.node), f"super().get_field_by_number({gf.params[1]} + 1, {gf.params[2]})")
    ctx.ob(gf.where, "GFA S-lines: field i is column i+1 (column 0 is the record type)", ok, "", key="C02-R3|gfa-lazy")
    gd = gs.methods["get_data"]
    ok = sym.same(straightline_return(gd.node), "SequenceEntry(self.get_text(1, fixed_length=False), self.get_text(col=2, fixed_length=False))")
    ctx.ob(gd.where, "GFA S-lines: name = column 1, sequence = column 2", ok, "", key="C02-R3|gfa-eager")
    # multi-line FASTA
    ml = ix.func("bionumpy.io.multiline_buffer", "MultiLineFastaBuffer.get_data")
    e = straightline_return(ml.node)
    ok = e is not None and isinstance(e, ast.Call) and u(e.func) == "SequenceEntry" and len(e.args) == 2
    if ok:
        h, s = sym.canon(e.args[0]), sym.canon(e.args[1])
        ok = "[(np.insert(1 + self._new_entries, 0, 0), 1:)]" in h and s.startswith("RaggedArray(")
    ctx.ob(ml.where, "wrapped FASTA: name = header line without '>', sequence = the record's lines joined", ok, "", key="C02-R3|multiline")


def r4_cache_keys(ctx):
    n = memo.check_dict_caches(ctx, ["bionumpy.io.vcf_buffers", "bionumpy.io.delimited_buffers", "bionumpy.io.file_buffers", "bionumpy.io.vcf_header"], rule_prefix="C02-R4")
    ctx.floor("dict-cache stores in the VCF buffer code", n, 2)


def r5_header_separation(ctx):
    ix = ctx.index
    from ..absval import const as cev
    ok = cev(ix.cls(DB, "DelimitedBuffer").attrs["COMMENT"]) == "#" and cev(ix.cls("bionumpy.io.buffers.sam", "SAMBuffer").attrs["COMMENT"]) == "@" and \
        cev(ix.cls(FB, "FileBuffer").attrs["COMMENT"]) == 0
    ctx.ob("bionumpy/io/delimited_buffers.py COMMENT", "header lines start with '#' (delimited formats) / '@' (SAM); formats without headers declare none", ok, "", key="C02-R5|comment-chars")
    rh = ix.func(FB, "FileBuffer.read_header")
    loops = [n for n in linear_body(rh.node) if isinstance(n, ast.For)]
    ctx.need(len(loops) == 1, "read_header: loop over lines not found")
    lb = linear_body(loops[0])
    fo = rh.params[1]
    txt = [u(s.test) + " -> " + "; ".join(u(x) for x in s.body) if isinstance(s, ast.If) else u(s) for s in lb]
    ok = len(lb) == 2 and isinstance(lb[0], ast.If) and sym.canon(lb[0].test) == sym.canon(sym.parse_expr("line[0] != comment")) and \
        [u(x) for x in lb[0].body] == [f"{fo}.seek(-len(line), 1)", "break"] and u(lb[1]) == "header.append(line.decode('utf-8'))" and u(loops[0].iter) == fo
    ctx.ob(rh.where, "header = the leading lines that start with the comment character; the first other line is pushed back (seek by -len) and belongs to the data",
           ok, " | ".join(txt), key="C02-R5|read-header")
    over = []
    base = ix.cls(FB, "FileBuffer")
    for c in ix.subclasses(base, strict=True):
        fi = c.methods.get("read_header")
        if fi is None or c.module.name.endswith(".bam") or "_legacy" in c.module.name:
            continue
        calls_super = any(u(x.func) == "super().read_header" for x in func_calls(fi.node))
        over.append((c.qualname, calls_super))
        ctx.ob(fi.where, f"{c.qualname}.read_header first consumes the comment header through the base implementation", calls_super, "", key=f"C02-R5|{c.qualname}")
    # interior comments (GFF / wig)
    ic = ix.func(DB, "DelimitedBufferWithInernalComments._calculate_col_starts_and_ends")
    env = {}
    for s in linear_body(ic.node):
        if isinstance(s, ast.Assign) and isinstance(s.targets[0], ast.Name):
            env.setdefault(s.targets[0].id, []).append(s.value)
    d, dl = ic.params[1], ic.params[2]
    ok = len(env.get("comment_mask", [])) == 2 and sym.same(env["comment_mask"][0], f"({d}[{dl}[:-1]] == '\\n') & ({d}[{dl}[:-1] + 1] == cls.COMMENT)") and \
        sym.same(env["start_delimiters"][0], f"np.delete({dl}, comment_mask)[:-1]") and sym.same(env["end_delimiters"][0], f"np.delete({dl}, comment_mask + 1)")
    ctx.ob(ic.where, "interior comment lines (line end followed by the comment character) are removed from both the start and the end table before reshaping", ok, "",
           key="C02-R5|interior-comments")


def r6_field_table(ctx):
    ix = ctx.index
    fr = ix.func(DB, "DelimitedBuffer.from_raw_buffer")
    env = {}
    for s in linear_body(fr.node):
        if isinstance(s, ast.Assign) and isinstance(s.targets[0], ast.Name):
            env.setdefault(s.targets[0].id, []).append(s.value)
    ch = fr.params[1]
    checks = [("mask", 0, f"{ch} == NEWLINE"), ("delimiters", 0, "np.flatnonzero(mask)"), ("entry_ends", 0, f"np.flatnonzero({ch}[delimiters] == '\\n')"),
              ("n_fields", 0, "cls._get_n_fields(entry_ends)"), ("size", 0, "delimiters[entry_ends[-1]] + 1"),
              ("delimiters", 1, "np.insert(delimiters[:entry_ends[-1] + 1], 0, -1)")]
    bad = [f"{k}[{i}]" for k, i, w in checks if len(env.get(k, [])) <= i or not sym.same(env[k][i], w)]
    augs = [u(n) for n in body_walk(fr.node) if isinstance(n, ast.AugAssign)]
    ok = not bad and augs == [f"mask |= {ch} == cls.DELIMITER"]
    ctx.ob(fr.where, "delimited formats: field boundaries are the delimiter and newline positions up to the last complete line, with a virtual delimiter at -1", ok, str(bad) + str(augs),
           key="C02-R6|delimiters")
    nf = ix.func(DB, "DelimitedBuffer._get_n_fields")
    ctx.ob(nf.where, "column count = number of boundaries on the first line", sym.same(single_return_expr(nf.node), f"{nf.params[1]}[0] + 1"), "", key="C02-R6|n-fields")
    be = ix.func(DB, "DelimitedBuffer._get_buffer_extractor")
    env = {}
    for s in linear_body(be.node):
        if isinstance(s, ast.Assign) and isinstance(s.targets[0], ast.Name):
            env.setdefault(s.targets[0].id, []).append(s.value)
    d, dl, nc = be.params[1:4]
    ok = sym.same(env["starts"][0], f"{dl}[:-1].reshape(-1, {nc}) + 1") and sym.same(env["ends"][0], f"{dl}[1:].reshape(-1, {nc})") and sym.same(env["entry_starts"][0], "starts[:, 0]")
    if not ok and all(k in env for k in ("starts", "ends", "entry_starts")):
        # the same index formulas in another spelling (strided slices for columns of the reshaped table, +1 before the reshape ...): compared as index maps
        from ..affine import same_map, R as _R, C as _C
        _N = sym.Poly.atom(nc)
        e1 = {k: v[0] for k, v in env.items() if len(v) == 1}
        ok = same_map(env["starts"][0], dl, nc, _R * _N + _C, 1, 2, e1) and same_map(env["ends"][0], dl, nc, _R * _N + _C + sym.Poly.const(1), 0, 2, e1) and \
            same_map(env["entry_starts"][0], dl, nc, _R * _N, 1, 1, e1)
    ctx.ob(be.where, "field (r, c) starts one past boundary r*n+c and ends at boundary r*n+c+1; a record starts at its first field", ok, "", key="C02-R6|starts-ends")
    e = [n for n in body_walk(be.node) if isinstance(n, ast.Return)]
    ok = len(e) == 1 and sym.same(e[0].value, f"TextThroughputExtractor({d}, starts, field_ends=ends, entry_starts=entry_starts, entry_ends=entry_ends)")
    ctx.ob(be.where, "the extractor receives data, starts, ends and record ranges in their own slots", ok, u(e[0].value) if e else "", key="C02-R6|extractor-args")
    # accessors
    gf = ix.func(FB, "TextBufferExtractor.get_field_by_number")
    env = {}
    for s in body_walk(gf.node):
        if isinstance(s, ast.Assign) and isinstance(s.targets[0], ast.Name):
            env.setdefault(s.targets[0].id, []).append(s.value)
    fnr = gf.params[1]
    ok = sym.same(env["lens"][0], f"self._field_lens.ravel()[{fnr}::self._n_fields]") and sym.same(env["starts"][0], f"self._field_starts.ravel()[{fnr}::self._n_fields]") and \
        len(env["lens"]) == 2 and sym.same(env["lens"][1], "lens + 1")
    ctx.ob(gf.where, "column c = every n-th (start, length) pair beginning at c; keep_sep adds exactly the one trailing separator", ok, "", key="C02-R6|column-stride")
    init = ix.func(FB, "TextBufferExtractor.__init__")
    txt = u(init.node)
    ok = "self._field_lens = field_ends - field_starts" in txt and "self._n_fields = field_starts.shape[1]" in txt
    ctx.ob(init.where, "field length = end - start; column count = width of the start table", ok, "", key="C02-R6|lens")
    # fixed-width helpers
    from .c18 import r3_digit_matrix
    r3_digit_matrix(ctx)
    rp = ix.func(FB, "move_intervals_to_right_padded_array")
    sts = [n for n in body_walk(rp.node) if isinstance(n, ast.Assign) and u(n.targets[0]) == "lens"]
    ok = len(sts) == 2 and sym.same(sts[0].value, f"{rp.params[2]} - {rp.params[1]}") and sym.same(sts[1].value, "np.where(new_lens > 0, np.minimum(lens, new_lens), lens)")
    ctx.ob(rp.where, "padded field: truncation at the sub-delimiter never extends a field beyond its own length (min(own length, position of the stop character))", ok,
           "; ".join(u(n.value) for n in sts), key="C02-R6|stop-at-min")
    nl = [n for n in body_walk(rp.node) if isinstance(n, ast.Assign) and u(n.targets[0]) == "new_lens"]
    ok = len(nl) == 1 and sym.same(nl[0].value, f"np.argmax(array == {rp.params[4]}, axis=-1)")
    ctx.ob(rp.where, "padded field: the stop position is the first occurrence of the stop character in the row", ok, "", key="C02-R6|stop-at-first")
    idx = [n for n in body_walk(rp.node) if isinstance(n, ast.Assign) and u(n.targets[0]) == "indices"]
    ok = len(idx) == 1 and sym.same(idx[0].value, f"np.minimum({rp.params[1]}[..., None] + np.arange(max_chars), {rp.params[0]}.size - 1)")
    ctx.ob(rp.where, "padded field: row i is gathered from consecutive bytes starting at start_i (clamped to the buffer)", ok, "", key="C02-R6|padded-gather")


from .c01 import r7_crlf_sniff as _crlf_line_ends


def _assign_env(fn):
    env = {}
    for s in body_walk(fn):
        if isinstance(s, ast.Assign) and len(s.targets) == 1 and isinstance(s.targets[0], ast.Name):
            env.setdefault(s.targets[0].id, []).append(s.value)
    return env


def r7_named_fields(ctx):
    """key=value sub-fields (VCF INFO): a key is found only by an exact match of the whole key, and the value is what follows `key=`."""
    ix = ctx.index
    NT = "bionumpy.io.named_text_buffer"
    f = ix.func(NT, "NamedBufferExtractor.has_field_name")
    nm = f.params[1]
    env = _assign_env(f.node)
    m0 = env.get("mask", [None])[0]
    if m0 is None:
        raise AnchorMissing(f"{f.where}: candidate mask of flag lookup not found")
    if isinstance(m0, ast.Compare) and len(m0.ops) == 1 and sym.canon(m0.left) == "self._field_lens.ravel()" and sym.canon(m0.comparators[0]) == f"len({nm})":
        ok = isinstance(m0.ops[0], ast.Eq)
    else:
        raise Unrecognised(f"{f.where}: length pre-filter of the flag lookup has an unknown form: {u(m0)}")
    ctx.ob(f.where, "a flag key matches only sub-fields of exactly the key's length (a longer key that merely starts with it is a different key)", ok, u(m0), key="C02-R7|flag-length")
    arr = env.get("array", [None])[0]
    ok = arr is not None and sym.same(arr, f"RaggedArray(self._data, RaggedView2(starts[mask], np.full(mask.sum(), len({nm})))).to_numpy_array()") and \
        sym.same(env.get("starts", [None])[0], "self._field_starts.ravel()")
    ctx.ob(f.where, "the candidate sub-fields are read at their own starts over the key's length", ok, u(arr) if arr is not None else "", key="C02-R7|flag-window")
    st = [n for n in body_walk(f.node) if isinstance(n, ast.Assign) and isinstance(n.targets[0], ast.Subscript) and u(n.targets[0]) == "mask[mask]"]
    ok = len(st) == 1 and sym.same(st[0].value, f"(array == {nm}).all(axis=-1)")
    ctx.ob(f.where, "a candidate matches when ALL its characters equal the key", ok, u(st[0]) if st else "", key="C02-R7|flag-all")
    rets = [n.value for n in body_walk(f.node) if isinstance(n, ast.Return)]
    ctx.ob(f.where, "a record has the flag when any of its sub-fields matched (grouped by the record's own sub-field table)",
           len(rets) == 1 and sym.same(rets[0], "RaggedArray(mask, self._field_starts.shape).any(axis=1)"), "; ".join(u(r) for r in rets), key="C02-R7|flag-any")
    g = ix.func(NT, "NamedBufferExtractor.has_field_mask")
    nm = g.params[1]
    env = _assign_env(g.node)
    ok = sym.same(env.get("line_len", [None])[0], f"len({nm}) + 1") and sym.same(env.get("mask", [None])[0], f"(flat_e.reshape(-1, line_len) == {nm} + '=').all(axis=-1)") and \
        sym.same(env.get("e", [None])[0], "EncodedRaggedArray(self._data, RaggedView2(starts, [line_len] * len(starts)))") and sym.same(env.get("flat_e", [None])[0], "e.ravel()")
    ctx.ob(g.where, "a valued key matches when the sub-field starts with the whole key followed by '=' (all len(key)+1 characters)", ok, "", key="C02-R7|key-equals")
    # trailing sub-fields too short to hold `key=` are left out of the comparison: their False entries go BEHIND the match mask (they are the last sub-fields)
    pads = [x for x in body_walk(g.node) if isinstance(x, ast.Assign) and u(x.targets[0]) == "mask" and isinstance(x.value, ast.Call) and u(x.value.func) in ("np.append", "np.concatenate", "np.insert", "np.pad")]
    for x in pads:
        v = x.value
        if u(v.func) == "np.append" and len(v.args) == 2:
            okp = u(v.args[0]) == "mask" and sym.same(v.args[1], "np.full(n_ignored_fields, False)")
        else:
            raise Unrecognised(f"{g.where}: padding of the match mask has an unknown form: {u(x)}")
        ctx.ob(g.where, "the entries for the skipped trailing sub-fields are appended after the matches (prepending them shifts every match to the following sub-field)", okp, u(x),
               key="C02-R7|mask-padding")
    ctx.floor("padding of the key match mask", len(pads), 1)
    st = env.get("starts", [])
    okc = len(st) == 2 and sym.same(st[0], "self._field_starts.ravel()") and sym.same(st[1], "starts[:len(starts) - n_ignored_fields]")
    ctx.ob(g.where, "exactly the skipped trailing sub-fields are cut from the compared starts", okc, "; ".join(u(x) for x in st), key="C02-R7|mask-cut")
    h = ix.func(NT, "NamedBufferExtractor.get_field_by_name")
    nm = h.params[1]
    env = _assign_env(h.node)
    ok = sym.same(env.get("field_starts", [None])[0], f"self._field_starts.ravel()[mask] + len({nm}) + 1") and sym.same(env.get("lens", [None])[0], f"self._field_lens.ravel()[mask] - len({nm}) - 1")
    ctx.ob(h.where, "the value of a key is the text after `key=` up to the end of its sub-field", ok, "", key="C02-R7|value-extent")
    stores = {u(n.targets[0]): sym.canon(n.value) for n in body_walk(h.node) if isinstance(n, ast.Assign) and isinstance(n.targets[0], ast.Subscript)}
    ok = stores.get("starts[present_mask]") == "field_starts" and stores.get("all_lens[present_mask]") == "lens"
    ctx.ob(h.where, "value extents are stored on the rows that have the key (rows without it keep length 0)", ok, str(stores), key="C02-R7|value-rows")
    gn = ix.func(NT, "NamedBufferExtractor.get_field_by_number")
    r = single_return_expr(gn.node)
    env = local_env(gn.node)
    ok = r is not None and sym.canon(r, env) == sym.canon(sym.parse_expr(f"self.get_field_by_name(self._names[{gn.params[1]}], keep_sep={gn.params[2]})"))
    ctx.ob(gn.where, "column k of the typed INFO table is looked up by the k-th declared key", ok, "", key="C02-R7|by-number")
    hn = ix.func(NT, "NamedBufferExtractor.has_field_number")
    r = single_return_expr(hn.node)
    ok = r is not None and sym.canon(r, local_env(hn.node)) == sym.canon(sym.parse_expr(f"self.has_field_name(self._names[{hn.params[1]}])"))
    ctx.ob(hn.where, "flag k is looked up by the k-th declared key", ok, "", key="C02-R7|flag-by-number")


from ..through_time import make_rule as _mk_tt, make_t2 as _mk_t2
_through_time = _mk_tt("C02")
_small_edits = _mk_t2("C02")

def _number_parsing(ctx):
    from .c18 import r2_parsing, r9_digit_fast_path
    r2_parsing(ctx)              # signs, digits, powers of integer / float columns
    r9_digit_fast_path(ctx)      # the sign-less digit-matrix path of the buffer extractor is taken only for columns without any sign character

def _selection_tables(ctx):
    from .c04 import r2_aligned_stores
    r2_aligned_stores(ctx)   # start/length/record tables stay aligned when lazy chunks are selected, compacted, concatenated

def _late_bound_constants(ctx):
    from .c05 import r7_late_bound_constants
    r7_late_bound_constants(ctx)   # format constants are read through cls / self so that subclass formats keep their own

def _delta_arrays(ctx):
    from ..idioms import check_delta_arrays
    check_delta_arrays(ctx, ["bionumpy.io.strops", "bionumpy.io.file_buffers", "bionumpy.io.delimited_buffers", "bionumpy.io.named_text_buffer", "bionumpy.io.one_line_buffer"], "C02-R12")

RULES = [
    ("C02-R1", r1_parser_exhaustive),
    ("C02-R2", r2_coordinate_shift),
    ("C02-R3", r3_fixed_layouts),
    ("C02-R4", r4_cache_keys),
    ("C02-R5", r5_header_separation),
    ("C02-R6", r6_field_table),
    ("C02-R7", r7_named_fields),
    ("C02-R8", _crlf_line_ends),
    ("C02-T1", _through_time),
    ("C02-T2", _small_edits),
    ("C02-R9", _number_parsing),
    ("C02-R10", _selection_tables),
    ("C02-R11", _late_bound_constants),
    ("C02-R12", _delta_arrays),
]
