"""C16 - BAM records decode to the values the BAM specification defines.

 R1 record layout: every field getter of the BAM extractor, identified by its position in the getter table (= BamEntry field order),
    is compared as a symbolic normal form (methods/properties inlined) with the SAM/BAM specification's offsets, widths and types;
 R2 code tables (4-bit bases, CIGAR ops, op/length split, reference-consuming set, nibble order, strand bit, BGZF EOF block, magic);
 R3 getter order of the interval view = Bed6 field order, with stop = pos + reference length and strand from flag 0x10;
 R4 record selection / compaction keep starts, ends and data aligned; memoised offsets are not invalidated by a state-rebinding method;
 R5 sentinel reference id (-1) indexes the name table unguarded (known finding);
 R6 writer: header bytes are replayed from the bytes read, EOF block appended on close;
 R7 narrow unsigned record fields are widened before arithmetic that can overflow their type.
"""
from __future__ import annotations
import ast
import numpy as np

from ..index import AnchorMissing, Unrecognised
from ..absval import Evaluator
from ..cfg import CFG
from ..pend import edge_facts
from ..astutil import (linear_body, u, body_walk, local_env, func_calls, walk_local, class_inline_env, single_return_expr, inline_locals, statements)
from .. import sym

EXPLANATION = ("Static comparison of the BAM decoder's source with the SAM/BAM specification embedded in the checker: each field getter is reduced to a "
               "symbolic normal form (cached properties and helper methods inlined) and compared with the specified offset/width/type and derived "
               "variable-field offsets; code tables and bit operations are constant-evaluated; selection/compaction/concatenation are checked for "
               "aligned treatment of starts, ends and data and for memo coherence; integer widths are inferred to find arithmetic that wraps in a narrow "
               "record type. Holds for every BAM at once; record chaining across chunk boundaries and optional tags are not decided.")

BAM = "bionumpy.io.bam"

# SAM/BAM specification, section 4.2 (offsets from the start of block_size)
SPEC_FIXED = {
    "refID": (4, 4, "int32"), "pos": (8, 4, "int32"), "l_read_name": (12, 1, "uint8"), "mapq": (13, 1, "uint8"),
    "n_cigar_op": (16, 2, "uint16"), "flag": (18, 2, "uint16"), "l_seq": (20, 4, "int32"), "read_name": (36, None, None),
}
SPEC_BASES = "=ACMGRSVTWYHKDBN"
SPEC_CIGAR = "MIDNSHP=X"
SPEC_CONSUMES_REF = set("MDN=X")
SPEC_EOF = bytes.fromhex("1f8b08040000000000ff0600424302001b0003000000000000000000")

_DT_BYTES = {"np.uint8": 1, "np.int8": 1, "np.uint16": 2, "np.int16": 2, "np.uint32": 4, "np.int32": 4, "np.uint64": 8, "np.int64": 8}


class _StripWiden(ast.NodeTransformer):
    """x.astype(int|np.int64|np.int32|np.uint32|np.uint64) -> x : value-preserving widening of the (<= 32 bit) record fields;
    the width rule R7 looks at the original code."""

    def visit_Call(self, node):
        self.generic_visit(node)
        if isinstance(node.func, ast.Attribute) and node.func.attr == "astype" and len(node.args) == 1 and not node.keywords and \
                u(node.args[0]) in ("int", "np.int64", "np.int32", "np.uint32", "np.uint64", "np.int_", "np.intp"):
            return node.func.value
        return node


def _strip_widening(n):
    import copy
    return ast.fix_missing_locations(_StripWiden().visit(copy.deepcopy(n)))


def _G(off, n, dt):
    return f"self._get_ints({off}, {n}, np.{dt})"


def _ext(ctx):
    return ctx.index.cls(BAM, "BamBufferExtractor")


def _env(ctx):
    return class_inline_env(ctx.index, _ext(ctx))


def r1_layout(ctx):
    ix = ctx.index
    cls = _ext(ctx)
    env = _env(ctx)
    init = ix.func(BAM, "BamBufferExtractor.__init__")
    # data / starts attribute names by role: first and second constructor parameters
    assigns = {u(n.targets[0]): u(n.value) for n in body_walk(init.node) if isinstance(n, ast.Assign) and len(n.targets) == 1}
    ctx.need(assigns.get("self._data") == init.params[1] and assigns.get("self._new_lines") == init.params[2] and assigns.get("self._ends") == init.params[3],
             "BamBufferExtractor.__init__ no longer stores (data, starts, ends) in _data/_new_lines/_ends")
    fl = [n for n in body_walk(init.node) if isinstance(n, ast.Assign) and u(n.targets[0]) == "self._functions"]
    ctx.need(len(fl) == 1 and isinstance(fl[0].value, ast.List), "getter table self._functions not found")
    getters = [u(e) for e in fl[0].value.elts]
    entry = ix.cls("bionumpy.datatypes", "BamEntry")
    fields = [s.target.id for s in entry.node.body if isinstance(s, ast.AnnAssign)]
    ctx.ob(init.where, "getter table has one getter per BamEntry field", len(getters) == len(fields) == 9, f"{len(getters)} getters, fields {fields}")
    ctx.need(len(getters) == len(fields), "getter table length differs from BamEntry")
    gf = ix.func(BAM, "BamBufferExtractor.get_field_by_number")
    ok = sym.same(single_return_expr(gf.node), f"self._functions[{gf.params[1]}]()")
    ctx.ob(gf.where, "field i is produced by getter i of the table", ok, "")
    # _get_ints: gathers n_bytes consecutive bytes at record start + offset and reinterprets them as dtype
    gi = ix.func(BAM, "BamBufferExtractor._get_ints")
    o, nb, dt = gi.params[1:4]
    genv = local_env(gi.node)
    rets = [n for n in body_walk(gi.node) if isinstance(n, ast.Return)]
    ctx.need(len(rets) == 1, "_get_ints: single return expected")
    c = sym.canon(rets[0].value, genv)
    want = sym.canon(sym.parse_expr(f"self._data[(self._new_lines + {o})[:, None] + np.arange({nb})].ravel().view({dt}).ravel()"))
    ctx.ob(gi.where, "_get_ints(offset, n, dtype) reinterprets the n bytes at record start + offset as dtype", c == want, c, key="C16-R1|_get_ints")

    def full(expr_text_or_node):
        n = sym.parse_expr(expr_text_or_node) if isinstance(expr_text_or_node, str) else expr_text_or_node
        return sym.canon(_strip_widening(n), {k: _strip_widening(v) for k, v in env.items()})

    S = "self._new_lines"
    name_len = f"self._data[{S} + 12]"
    spec = {
        "self._read_name_start": f"{S} + 36",
        "self._cigar_start": f"{S} + 36 + {name_len}",
        "self._sequence_start": f"{S} + 36 + {name_len} + 4 * {_G(16, 2, 'uint16')}",
        "self._quality_start": f"{S} + 36 + {name_len} + 4 * {_G(16, 2, 'uint16')} + ({_G(20, 4, 'int32')} + 1) // 2",
    }
    for attr, want in spec.items():
        ctx.need(attr in env, f"{attr} is not a single-return property of the extractor")
        got = full(env[attr])
        ctx.ob(cls.where, f"{attr.split('.')[1]} == {want.replace('self._new_lines', 'record_start').replace('self._data', 'data').replace('self._get_ints', 'ints')}",
               got == sym.canon(sym.parse_expr(want)), got, key=f"C16-R1|{attr}")
    # dtype width == byte count at every _get_ints call in the class
    n_calls = 0
    for name, fi in cls.methods.items():
        for cl in func_calls(fi.node):
            if u(cl.func) == "self._get_ints" and len(cl.args) == 3:
                n_calls += 1
                w = _DT_BYTES.get(u(cl.args[2]))
                nbv = sym.poly(cl.args[1])
                ctx.ob(fi.where, f"integer field read {u(cl)}: dtype width equals the number of bytes gathered", w is not None and nbv == sym.Poly.const(w), "",
                       key=f"C16-R1|width|{u(cl)}")
    ctx.floor("_get_ints call sites", n_calls, 5)
    # per-role getters
    role_spec = {
        "chromosome": [f"self._chromosome_names[{_G(4, 4, 'int32')}]"],
        "flag": [_G(18, 2, "uint16")],
        "position": [_G(8, 4, "int32")],
        "mapq": [f"self._data[{S} + 13]"],
        "name": [f"EncodedRaggedArray(EncodedArray(ragged_slice(self._data, {spec['self._read_name_start']}, {spec['self._cigar_start']} - 1).ravel(), BaseEncoding), "
                 f"ragged_slice(self._data, {spec['self._read_name_start']}, {spec['self._cigar_start']} - 1).shape)"],
        "quality": [f"ragged_slice(self._data, {spec['self._quality_start']}, {spec['self._quality_start']} + {_G(20, 4, 'int32')})"],
    }
    envc = dict(env)
    for role, wants in role_spec.items():
        g = getters[fields.index(role)]
        key = g + "()"
        ctx.need(key in env, f"getter {g} for field '{role}' is not a single-return method")
        got = full(env[key])
        ok = got in [sym.canon(sym.parse_expr(w)) for w in wants]
        ctx.ob(cls.where, f"field '{role}' (getter {g.split('.')[-1]}) decodes the bytes the specification assigns to it", ok, got[:300], key=f"C16-R1|role|{role}")
    # cigar: uint32 words between cigar start and sequence start, split low 4 bits / high 28 bits
    gc = ix.func(BAM, "BamBufferExtractor._get_cigar")
    cenv = local_env(gc.node)
    rets = [n for n in body_walk(gc.node) if isinstance(n, ast.Return)]
    words = None
    for n in body_walk(gc.node):
        if isinstance(n, ast.Call) and u(n.func) == "split_cigar" and n.args:
            words = n.args[0]
    ctx.need(words is not None, "_get_cigar does not call split_cigar")
    # cigars is rebound: evaluate statement by statement
    st = [n for n in linear_body(gc.node) if isinstance(n, ast.Assign)]
    ctx.need(len(st) >= 3, "_get_cigar: unexpected shape")
    first = full(st[0].value)
    ok1 = first == sym.canon(sym.parse_expr(f"ragged_slice(self._data, {spec['self._cigar_start']}, {spec['self._sequence_start']})"))
    v = u(st[0].targets[0])
    ok2 = sym.same(st[1].value, f"RaggedArray({v}.ravel().view(np.uint32), {v}.lengths // 4)")
    ok3 = sym.same(st[2].value, f"split_cigar({v})") and u(st[2].targets[0]) in ("cigar_symbol, cigar_length", "(cigar_symbol, cigar_length)")
    ok4 = len(rets) == 1 and u(rets[0].value) in ("(cigar_symbol, cigar_length)", "cigar_symbol, cigar_length")
    ctx.ob(gc.where, "CIGAR = the 32-bit words between cigar start and sequence start (4 bytes per op), split into (op, length)", ok1 and ok2 and ok3 and ok4,
           f"{first[:120]} | {u(st[1].value)} | {u(st[2])}", key="C16-R1|cigar")
    for role, idx in (("cigar_op", 0), ("cigar_length", 1)):
        g = getters[fields.index(role)] + "()"
        ctx.need(g in env, f"getter for {role} not single-return")
        ok = sym.same(env[g], f"self._get_cigar()[{idx}]")
        ctx.ob(cls.where, f"field '{role}' is element {idx} of (op, length)", ok, u(env[g]), key=f"C16-R1|role|{role}")
    # sequence: packed nibbles between sequence start and quality start, high nibble first, trimmed to l_seq
    gkey = getters[fields.index("sequence")] + "()"
    ctx.need(gkey in env, "sequence getter is not straight-line")
    gs = ix.func(BAM, getters[fields.index("sequence")].replace("self.", "BamBufferExtractor."))
    got = full(env[gkey])
    SEQ, QUAL, LSEQ = spec["self._sequence_start"], spec["self._quality_start"], _G(20, 4, "int32")
    raw = f"ragged_slice(self._data, {SEQ}, {QUAL})"
    seqs = f"EncodedArray(((({raw}).ravel()[:, None]) >> (4 * np.arange(2, dtype=np.uint8)[::-1])).ravel() & np.uint8(15), BamEncoding)"
    new = f"EncodedRaggedArray({seqs}, (({LSEQ} + 1) // 2) * 2)"
    want = sym.canon(sym.parse_expr(f"{new}[RaggedView({new}._shape.starts, {LSEQ})]"))
    if got == want:
        ctx.ob(gs.where, "sequence = the bytes between sequence start and quality start, two 4-bit bases per byte (high nibble first), "
                         "rows of 2*ceil(l_seq/2) bases trimmed to l_seq, in the 4-bit base encoding", True, "", key="C16-R1|sequence")
    else:
        # decide which part deviates; anything not positively wrong is 'unrecognised'
        shifts = [n for n in ast.walk(gs.node) if isinstance(n, ast.BinOp) and isinstance(n.op, ast.RShift)]
        ands = [n for n in ast.walk(gs.node) if isinstance(n, ast.BinOp) and isinstance(n.op, ast.BitAnd)]
        problems = []
        try:
            if len(shifts) == 1 and list(np.asarray(Evaluator().ev(shifts[0].right)).ravel()) != [4, 0]:
                problems.append(f"nibble shifts are {list(np.asarray(Evaluator().ev(shifts[0].right)).ravel())}, specification: high nibble first [4, 0]")
            if len(ands) == 1 and int(Evaluator().ev(ands[0].right)) != 15:
                problems.append(f"nibble mask is {int(Evaluator().ev(ands[0].right))}, specification: 15")
        except Unrecognised:
            pass
        if sym.canon(sym.parse_expr(raw)) not in got:
            problems.append("packed bytes are not the range [sequence start, quality start)")
        if sym.canon(sym.parse_expr(f"RaggedView({new}._shape.starts, {LSEQ})")) not in got and "RaggedView(" in got:
            problems.append("rows are not trimmed to l_seq from their starts")
        if sym.canon(sym.parse_expr(f"(({LSEQ} + 1) // 2) * 2")) not in got and not problems:
            problems.append("unpacked row length is not 2*ceil(l_seq/2)")
        if "BamEncoding" not in got:
            problems.append("bases are not wrapped in the 4-bit base encoding")
        if not problems:
            raise Unrecognised(f"{gs.where}: sequence decoding has a form the checker cannot compare with the specification: {got[:200]}")
        ctx.ob(gs.where, "sequence decoding follows the specification (nibble order, mask, byte range, trimming)", False, "; ".join(problems), key="C16-R1|sequence")


def r2_code_tables(ctx):
    ix = ctx.index
    A = "bionumpy.encodings.alphabet_encoding"
    mi = ix.module(A)
    for nm, spec in (("BamEncoding", SPEC_BASES), ("CigarOpEncoding", SPEC_CIGAR)):
        v = mi.globals_.get(nm)
        ok = isinstance(v, ast.Call) and v.args and isinstance(v.args[0], ast.Constant) and v.args[0].value == spec
        ctx.ob(f"{mi.relpath} {nm}", f"{nm} alphabet is the specification's code order {spec!r}", ok, u(v) if v is not None else "missing", key=f"C16-R2|{nm}")
    sc = ix.func("bionumpy.alignments.cigar", "split_cigar")
    p = sc.params[0]
    env = local_env(sc.node)
    sym_as = [n for n in body_walk(sc.node) if isinstance(n, ast.Assign) and u(n.targets[0]) == "symbol"]
    len_as = [n for n in body_walk(sc.node) if isinstance(n, ast.Assign) and u(n.targets[0]) == "lengths"]
    ok = False
    if sym_as and isinstance(sym_as[-1].value, ast.Call):
        a0 = sym_as[-1].value.args[0]
        ok = isinstance(a0, ast.BinOp) and isinstance(a0.op, ast.BitAnd) and u(a0.left) == p and int(Evaluator().ev(a0.right)) == 15 and \
            u(sym_as[-1].value.args[1]) == "CigarOpEncoding"
    ctx.ob(sc.where, "CIGAR op = low 4 bits of the word, in the CIGAR op encoding", ok, u(sym_as[-1].value) if sym_as else "", key="C16-R2|cigar-op-bits")
    ok = bool(len_as) and sym.same(len_as[-1].value, f"{p} >> 4")
    ctx.ob(sc.where, "CIGAR length = word >> 4", ok, u(len_as[-1].value) if len_as else "", key="C16-R2|cigar-len-bits")
    rets = [u(n.value) for n in body_walk(sc.node) if isinstance(n, ast.Return)]
    rnodes = [n.value for n in body_walk(sc.node) if isinstance(n, ast.Return)]
    ok = bool(rnodes) and all(isinstance(r, ast.Tuple) and len(r.elts) == 2 and "symbol" in u(r.elts[0]) and "lengths" not in u(r.elts[0])
                              and "lengths" in u(r.elts[1]) and "symbol" not in u(r.elts[1]) for r in rnodes)
    ctx.ob(sc.where, "split_cigar returns (op, length) in that order", ok, "; ".join(rets))
    cr = ix.func("bionumpy.alignments.cigar", "count_reference_length")
    cons = [n for n in body_walk(cr.node) if isinstance(n, ast.Assign) and u(n.targets[0]) == "consuming"]
    ok = len(cons) == 1 and isinstance(cons[0].value, ast.Call) and cons[0].value.args and isinstance(cons[0].value.args[0], ast.Constant) and \
        set(cons[0].value.args[0].value) == SPEC_CONSUMES_REF and len(cons[0].value.args[0].value) == 5
    ctx.ob(cr.where, "reference-consuming CIGAR operations are exactly M, D, N, =, X", ok, u(cons[0].value) if cons else "", key="C16-R2|ref-consuming")
    txt = u(cr.node)
    rets = [n for n in body_walk(cr.node) if isinstance(n, ast.Return)]
    loop_form = "mask = mask | (symbol == consuming_symbol)" in txt and "mask = symbol == consuming[0]" in txt and "for consuming_symbol in consuming[1:]" in txt
    # the same OR over ALL consuming symbols written as a fold: reduce(or_, (symbol == c for c in consuming)), np.logical_or.reduce([...]), np.any([...], axis=0)
    fold_form = False
    for a in [n for n in body_walk(cr.node) if isinstance(n, ast.Assign) and u(n.targets[0]) == "mask" and isinstance(n.value, ast.Call)]:
        fn, args = u(a.value.func), a.value.args
        gen = None
        if fn in ("reduce", "functools.reduce") and len(args) == 2 and u(args[0]) in ("or_", "operator.or_", "np.logical_or", "np.bitwise_or", "lambda a, b: a | b"):
            gen = args[1]
        elif fn in ("np.logical_or.reduce", "np.bitwise_or.reduce") and len(args) == 1:
            gen = args[0]
        elif fn == "np.any" and len(args) == 1 and [k for k in a.value.keywords if k.arg == "axis" and u(k.value) == "0"]:
            gen = args[0]
        if isinstance(gen, (ast.GeneratorExp, ast.ListComp)) and len(gen.generators) == 1 and not gen.generators[0].ifs and u(gen.generators[0].iter) == "consuming" \
                and isinstance(gen.generators[0].target, ast.Name) and sym.same(gen.elt, f"symbol == {gen.generators[0].target.id}"):
            fold_form = True
    ok = len(rets) == 1 and sym.same(rets[0].value, "np.sum(mask * lengths, axis=-1).astype(int)") and (loop_form or fold_form)
    ctx.ob(cr.where, "reference length = sum of the lengths of the reference-consuming operations of each record", ok, "", key="C16-R2|ref-length")
    # strand bit at both sites
    al = ix.func("bionumpy.alignments", "alignment_to_interval")
    env = local_env(al.node)
    a = al.params[0]
    st = [n for n in body_walk(al.node) if isinstance(n, ast.Assign) and u(n.targets[0]) == "strand"]
    ok = len(st) == 2 and sym.same(st[0].value, f"{a}.flag & np.uint16(16)") and \
        sym.same(st[1].value, "EncodedArray(np.where(strand, ord('-'), ord('+'))[:, None], encoding=BaseEncoding)")
    ctx.ob(al.where, "strand is '-' iff flag bit 0x10 is set", ok, "; ".join(u(n.value) for n in st), key="C16-R2|strand-bit")
    rets = [n for n in body_walk(al.node) if isinstance(n, ast.Return)]
    ok = len(rets) == 1 and sym.same(rets[0].value, f"Bed6({a}.chromosome, {a}.position, {a}.position + count_reference_length({a}.cigar_op, {a}.cigar_length), {a}.name, {a}.mapq, strand)", {k: v for k, v in env.items() if k != "strand"})
    ctx.ob(al.where, "alignment interval = [pos, pos + reference length) with name, mapq and strand", ok, u(rets[0].value) if rets else "", key="C16-R2|interval")
    # EOF block and magic
    w = ix.cls("bionumpy.io.parser", "NumpyBamWriter")
    eof = w.attrs.get("EOF_MARKER")
    val = Evaluator().ev(eof) if eof is not None else None
    ctx.ob(w.where, "EOF marker is the 28-byte BGZF end-of-file block of the specification", val == SPEC_EOF, repr(val)[:80], key="C16-R2|eof-block")
    rh = ix.func(BAM, "BamHeader.read_header")
    asserts = [n for n in body_walk(rh.node) if isinstance(n, ast.Assert)]
    ok = any(isinstance(a.test, ast.Compare) and any(isinstance(x, ast.Constant) and x.value == b"BAM\x01" for x in ast.walk(a.test)) for a in asserts)
    ctx.ob(rh.where, "the header magic 'BAM\\1' is checked", ok, "")
    st = [u(s) for s in linear_body(rh.node) if not (isinstance(s, ast.Expr) and isinstance(s.value, ast.Constant))]
    want = ["magic = self.read(4)", None, "header_length = self._read_int()", "self.read(header_length)", "n_ref = self._read_int()", "return self._handle_refs(n_ref)"]
    ok = len(st) == len(want) and all(w is None or w == s for w, s in zip(want, st))
    ctx.ob(rh.where, "header = magic, l_text, text, n_ref, then the references, read in that order", ok, " | ".join(st), key="C16-R2|header-order")
    hr = ix.func(BAM, "BamHeader._handle_refs")
    st = [u(s) for s in linear_body(hr.node)[1].body] if len(linear_body(hr.node)) > 1 and isinstance(linear_body(hr.node)[1], ast.For) else []
    ok = st == ["ref_n = self._read_int()", "name = self._read_zero_term()", "sequence_length = self._read_int()", "info.append((name, sequence_length))"]
    ctx.ob(hr.where, "each reference = l_name, NUL-terminated name, l_ref, recorded as (name, length)", ok, " | ".join(st), key="C16-R2|refs")
    ri = ix.func(BAM, "BamHeader._read_int")
    ok = sym.same(single_return_expr(ri.node), "int.from_bytes(self.read(4), byteorder='little')")
    ctx.ob(ri.where, "header integers are 4-byte little-endian", ok, "")


def r3_interval_view(ctx):
    ix = ctx.index
    f = ix.func(BAM, "BamIntervalBuffer.get_field_by_number")
    fl = [n for n in body_walk(f.node) if isinstance(n, ast.Assign) and isinstance(n.value, ast.List) and all(isinstance(e, ast.Lambda) for e in n.value.elts)]
    ctx.need(len(fl) == 1, "lambda getter table not found in BamIntervalBuffer.get_field_by_number")
    lam = [e.body for e in fl[0].value.elts]
    bed6 = ix.cls("bionumpy.datatypes", "Bed6")
    order = []
    for c in reversed(ix.mro(bed6)):
        for s in c.node.body:
            if isinstance(s, ast.AnnAssign):
                order.append(s.target.id)
    ctx.need(order == ["chromosome", "start", "stop", "name", "score", "strand"], f"Bed6 field order changed: {order}")
    g = "self._buffer_extractor.get_field_by_number"
    want = [f"{g}(0)", f"{g}(3)", f"{g}(3) + count_reference_length(*({g}(i) for i in (5, 6)))", f"{g}(1)", f"{g}(4)",
            f"EncodedArray(np.where({g}(2) & np.uint16(16), ord('-'), ord('+'))[:, None], BaseEncoding)"]
    ctx.ob(f.where, "interval view has one getter per Bed6 field", len(lam) == 6, str(len(lam)))
    for name, l, w in zip(order, lam, want):
        ctx.ob(f.where, f"Bed6.{name} of an alignment is taken from the right BAM field(s)", sym.same(l, w), u(l)[:160], key=f"C16-R3|{name}")
    rets = [n for n in body_walk(f.node) if isinstance(n, ast.Return)]
    ok = len(rets) == 1 and sym.same(rets[0].value, f"{u(fl[0].targets[0])}[{f.params[1]}]()")
    ctx.ob(f.where, "field i is getter i", ok, "")
    gd = ix.func(BAM, "BamIntervalBuffer.get_data")
    first_ret = [n for n in linear_body(gd.node) if isinstance(n, ast.Return)]
    ok = bool(first_ret) and sym.same(first_ret[0].value, "self.dataclass(*(self.get_field_by_number(i) for i in range(6)))")
    ctx.ob(gd.where, "the interval table is built from getters 0..5 in order", ok, "")
    bd = ix.func(BAM, "BamBuffer.get_data")
    ok = sym.same(single_return_expr(bd.node), "BamEntry(*(self.get_field_by_number(i) for i in range(9)))")
    ctx.ob(bd.where, "the alignment table is built from getters 0..8 in order", ok, "")


def r4_selection_compaction(ctx):
    ix = ctx.index
    gi = ix.func(BAM, "BamBufferExtractor.__getitem__")
    it = gi.params[1]
    genv = local_env(gi.node)
    rets = [n for n in body_walk(gi.node) if isinstance(n, ast.Return)]
    ctx.floor("returns of BamBufferExtractor.__getitem__", len(rets), 1)
    for r in rets:
        v = r.value
        ctx.need(isinstance(v, ast.Call) and u(v.func) in ("self.__class__", "BamBufferExtractor") and len(v.args) >= 4,
                 f"{gi.where}: selection does not return a new extractor: {u(v) if v is not None else None}")
        data, starts, ends = (sym.canon(a, genv) for a in v.args[:3])
        alike = starts.replace("self._new_lines", "@").replace("self._ends", "#") == ends.replace("self._ends", "@").replace("self._new_lines", "#")
        ctx.ob(gi.where, "selection treats record starts and record ends alike (same index, same re-basing)", alike and it in starts, f"starts: {starts} | ends: {ends}",
               key="C16-R4|getitem-aligned")
        plain = data == "self._data" and starts == f"self._new_lines[{it}]" and ends == f"self._ends[{it}]"
        flag = [k for k in v.keywords if k.arg == "is_contigous"] or ([] if len(v.args) < 5 else [ast.keyword(arg="is_contigous", value=v.args[4])])
        if plain:
            ok = bool(flag) and isinstance(flag[0].value, ast.Constant) and flag[0].value.value is False
            ctx.ob(gi.where, "a selection over the shared data is marked non-contiguous", ok, u(v), key="C16-R4|getitem-flag")
        elif alike and data != "self._data":
            raise Unrecognised(f"{gi.where}: selection re-slices the data; re-basing cannot be compared: {u(v)}")
    # data property / size for non-contiguous selections
    dp = ix.func(BAM, "BamBufferExtractor.data")
    g = CFG(dp.node)
    rets = g.stmt_nodes(ast.Return)
    env = local_env(dp.node)
    seen_nc = False
    for r in rets:
        gt = g.guard_texts(r)
        c = sym.canon(r.ast.value, env)
        if "not(self._is_contigous)" in gt:
            seen_nc = True
            ok = c == sym.canon(sym.parse_expr("RaggedArray(self._data, RaggedView2(self._new_lines, self._ends - self._new_lines)).ravel()"))
            ctx.ob(dp.where, "bytes of a selection are the selected records' byte ranges [start, end) in selection order", ok, c, key="C16-R4|data-noncontig")
        else:
            ctx.ob(dp.where, "bytes of an unselected buffer are the buffer itself", c == "self._data", c)
    mutators = []
    cls = _ext(ctx)
    state = {"self._data", "self._new_lines", "self._ends"}
    memo = [n for n, fi in cls.methods.items() if any("cached_property" in d or "lru_cache" in d for d in fi.decorators)]
    ctx.floor("memoised offset properties of the BAM extractor", len(memo), 4)
    reach_rebind = []
    for name, fi in cls.methods.items():
        if name == "__init__":
            continue
        reb = [u(t) for n in body_walk(fi.node) if isinstance(n, ast.Assign) for t in n.targets if u(t) in state]
        if reb:
            callers = [n2 for n2, f2 in cls.methods.items() if any(u(c.func) == f"self.{name}" for c in func_calls(f2.node))]
            mutators.append((name, reb, callers))
    for name, reb, callers in mutators:
        ctx.ob(cls.methods[name].where,
               f"memo coherence: {name} rebinds {sorted(set(reb))} that the cached offsets {sorted(memo)} were computed from, so it must not be reachable from the public API",
               not callers, f"called from {callers}", key=f"C16-R4|memo|{name}")
    if not seen_nc and not mutators:
        raise Unrecognised("neither a non-mutating data property nor a compaction method found")
    sz = ix.func(BAM, "BamBufferExtractor.size")
    g = CFG(sz.node)
    for r in g.stmt_nodes(ast.Return):
        gt = g.guard_texts(r)
        c = sym.canon(r.ast.value)
        if "self._is_contigous" in gt:
            ctx.ob(sz.where, "size of an unselected buffer is the data size", c == "self._data.size", c)
        else:
            ctx.ob(sz.where, "size of a selection is the summed record lengths", c == sym.canon(sym.parse_expr("(self._ends - self._new_lines).sum()")), c, key="C16-R4|size")
    ln = ix.func(BAM, "BamBufferExtractor.__len__")
    ctx.ob(ln.where, "number of records = number of record starts", sym.same(single_return_expr(ln.node), "len(self._new_lines)"), "")
    # from_raw_buffer: starts chain, extractor gets (cut chunk, starts[:-1], starts[1:])
    fr = ix.func(BAM, "BamBuffer.from_raw_buffer")
    env = local_env(fr.node)
    cons = [c for c in func_calls(fr.node) if u(c.func) == "BamBufferExtractor"]
    ok = len(cons) == 1 and [u(a) for a in cons[0].args[:3]] == [f"{fr.params[1]}[:starts[-1]]", "starts[:-1]", "starts[1:]"] and u(cons[0].args[3]) == f"{fr.params[2]}.info"
    ctx.ob(fr.where, "records = consecutive [start_i, start_i+1) ranges of the chunk cut at the last complete record; reference names from the header",
           ok, u(cons[0]) if cons else "", key="C16-R4|from_raw_buffer")
    fs = ix.func(BAM, "BamBuffer._find_starts")
    lam = [n for n in body_walk(fs.node) if isinstance(n, ast.Assign) and isinstance(n.value, ast.Lambda)]
    ok = len(lam) == 1 and sym.same(lam[0].value.body, "start + int.from_bytes(chunk[start:start + 4], byteorder='little') + 4")
    ctx.ob(fs.where, "next record start = start + block_size + 4 (block_size = little-endian int at the record start)", ok, u(lam[0].value.body) if lam else "",
           key="C16-R4|chain")
    tw = [c for c in func_calls(fs.node) if u(c.func) == "takewhile"]
    ok = len(tw) == 1 and isinstance(tw[0].args[0], ast.Lambda) and sym.same(tw[0].args[0].body, "start <= len(chunk)")
    ctx.ob(fs.where, "a record ending exactly at the end of the chunk is complete (start <= len(chunk))", ok, u(tw[0].args[0].body) if tw else "", key="C16-R4|chain-bound")
    acc = [c for c in func_calls(fs.node) if u(c.func) == "accumulate"]
    ok = len(acc) == 1 and sym.same(acc[0].args[0], "repeat(0)")
    ctx.ob(fs.where, "the chain starts at offset 0", ok, "")


def r5_sentinel_refid(ctx):
    f = ctx.index.func(BAM, "BamBufferExtractor._get_chromosome")
    env = local_env(f.node)
    e = single_return_expr(f.node)
    ctx.need(e is not None, "_get_chromosome: single return expected")
    c = sym.canon(e)
    unguarded = c == sym.canon(sym.parse_expr(f"self._chromosome_names[{_G(4, 4, 'int32')}]"))
    guards = [n for n in body_walk(f.node) if isinstance(n, (ast.If, ast.IfExp)) or (isinstance(n, ast.Call) and u(n.func) in ("np.where", "np.any"))]
    ctx.ob(f.where, "reference id -1 (unmapped) must not be used as an index into the reference-name table", not (unguarded and not guards),
           "name table indexed directly with refID; -1 selects the last reference", key="C16-R5|refid-sentinel")


def r6_writer(ctx):
    ix = ctx.index
    rd = ix.func(BAM, "BamHeader.read")
    st = [u(s) for s in linear_body(rd.node)]
    p = rd.params[1]
    ok = st == [f"bytes = self._file_object.read({p})", "self._header_data.append(bytes)", "return bytes"]
    ctx.ob(rd.where, "every byte read while parsing the header is recorded, in order", ok, " | ".join(st), key="C16-R6|record")
    users = []
    cls = ix.cls(BAM, "BamHeader")
    for name, fi in cls.methods.items():
        for c in func_calls(fi.node):
            if u(c.func) == "self._file_object.read" and name != "read":
                users.append(name)
    ctx.ob(cls.where, "header parsing reads the file only through the recording read()", not users, str(users), key="C16-R6|bypass")
    by = ix.func(BAM, "BamHeader.bytes")
    ctx.ob(by.where, "header bytes = the recorded reads joined in order", sym.same(single_return_expr(by.node), "b''.join(self._header_data)"), "")
    mh = ix.func(BAM, "BamBuffer.make_header")
    ok = sym.same(single_return_expr(mh.node), f"{mh.params[1]}.get_context('header').bytes()")
    ctx.ob(mh.where, "the written header is the replay of the header that was read", ok, "")
    ex = ix.func("bionumpy.io.parser", "NumpyBamWriter.__exit__")
    g = CFG(ex.node)
    wr = [n for n in g.nodes if n.kind == "stmt" and any(isinstance(c, ast.Call) and u(c.func).endswith(".write") and c.args and u(c.args[0]) == "self.EOF_MARKER" for c in walk_local(n.ast))]
    cl = [n for n in g.nodes if n.kind == "stmt" and any(isinstance(c, ast.Call) and u(c.func) == "self._file_obj.close" for c in walk_local(n.ast))]
    ok = len(wr) == 1 and len(cl) == 1 and g.dominates(cl[0], wr[0]) and g.postdominates(wr[0], g.entry)
    withs = [n for n in g.nodes if n.kind == "with"]
    ok_mode = any("'ab'" in u(w.ast.items[0].context_expr) and "self._file_obj.name" in u(w.ast.items[0].context_expr) for w in withs)
    ctx.ob(ex.where, "on close the EOF block is appended once to the same file, after the data was flushed", ok and ok_mode, "", key="C16-R6|eof")
    gb = ix.func("bionumpy.io.files", "_get_buffered_file")
    gg = CFG(gb.node)
    sel = [n for n in gg.nodes if n.kind == "stmt" and isinstance(n.ast, ast.Assign) and u(n.ast.value) == "NumpyBamWriter"]
    want = (sym.canon(sym.parse_expr(f"{gb.params[1]} == '.bam'")), True)
    ok = False
    for n in sel:
        facts = set()
        for t, lab in gg.guards(n):
            facts |= edge_facts(t, lab)
        tgt = u(n.ast.targets[0])
        used = [r for r in gg.nodes if r.kind == "stmt" and isinstance(r.ast, ast.Return) and any(isinstance(c, ast.Call) and u(c.func) == tgt for c in ast.walk(r.ast))]
        ok = ok or (want in facts and bool(used))
    ctx.ob(gb.where, ".bam targets are written with the BAM writer", ok, "; ".join(u(n.ast) for n in sel), key="C16-R6|bam-writer-selected")


_WIDTH = {"uint8": 8, "int8": 8, "uint16": 16, "int16": 16, "uint32": 32, "int32": 32, "uint64": 64, "int64": 64, "weak": 0}


def _dtype(expr, env, depth=0):
    """Inferred NumPy dtype name of an integer expression of the BAM extractor ('weak' = Python int), plus narrow arithmetic found."""
    found = []

    def dt(n, d=0):
        if d > 30:
            return "int64"
        if isinstance(n, ast.Constant) and isinstance(n.value, int):
            return "weak"
        key = None
        try:
            key = u(n)
        except Exception:
            pass
        if key in env and isinstance(n, (ast.Attribute, ast.Call)) and (isinstance(n, ast.Attribute) or not n.args):
            return dt(env[key], d + 1)
        if isinstance(n, ast.Call):
            fn = u(n.func)
            if fn == "self._get_ints" and len(n.args) == 3:
                return u(n.args[2]).replace("np.", "")
            if fn.startswith("np.") and fn[3:] in _WIDTH and n.args:
                return fn[3:]
            if fn.endswith(".astype") and n.args:
                a = u(n.args[0]).replace("np.", "")
                return {"int": "int64"}.get(a, a if a in _WIDTH else "int64")
            if fn in ("int",):
                return "weak"
            return "int64"
        if isinstance(n, ast.Subscript):
            base = u(n.value)
            if base == "self._data":
                dt(n.slice, d + 1)
                return "uint8"
            return dt(n.value, d + 1)
        if isinstance(n, ast.Attribute):
            if u(n) in ("self._new_lines", "self._ends"):
                return "int64"
            return "int64"
        if isinstance(n, ast.BinOp) and isinstance(n.op, (ast.Add, ast.Sub, ast.Mult, ast.FloorDiv, ast.LShift, ast.Mod, ast.RShift, ast.BitAnd)):
            l, r = dt(n.left, d + 1), dt(n.right, d + 1)
            if l == "weak" and r == "weak":
                return "weak"
            if l == "weak":
                res = r
            elif r == "weak":
                res = l
            else:
                res = str(np.result_type(np.dtype(l), np.dtype(r)))
            if isinstance(n.op, (ast.Add, ast.Mult, ast.LShift)) and _WIDTH.get(res, 64) < 32:
                found.append((u(n), res))
            return res
        if isinstance(n, (ast.Tuple, ast.List)):
            for e in n.elts:
                dt(e, d + 1)
            return "int64"
        return "int64"
    return dt(expr), found


def r7_integer_width(ctx):
    cls = _ext(ctx)
    env = _env(ctx)
    sites = {}
    n_expr = 0
    for name, fi in cls.methods.items():
        lenv = local_env(fi.node)
        for n in body_walk(fi.node):
            if isinstance(n, ast.BinOp) and isinstance(n.op, (ast.Add, ast.Mult, ast.LShift)):
                n_expr += 1
                e = inline_locals(n, lenv)
                res, found = _dtype(e, env)
                if _WIDTH.get(res, 64) < 32 and res != "weak":
                    sites.setdefault((name, u(n)), (u(e), res))
    ctx.floor("integer add/multiply sites examined in the BAM extractor", n_expr, 8)
    ctx.count("width_sites", n_expr)
    if not sites:
        ctx.ob(cls.where, "no addition or multiplication on record fields is carried out in an 8- or 16-bit type", True, "")
    for (name, stmt), (txt, res) in sorted(sites.items()):
        ctx.ob(cls.methods[name].where, "arithmetic on a narrow record field must be widened first (it wraps silently in its own type)", False,
               f"`{stmt}` is computed in {res}: {txt[:120]}", key=f"C16-R7|{name}|{sym.canon(sym.parse_expr(stmt)) if True else stmt}")


def r8_raw_chunk_untouched(ctx):
    """BAM records are binary: any byte value can be the last byte of a record, so nothing may be cut from the chunk by looking at its content.  The chunk
    reaches the record scanner and the extractor as it was read (np.asarray only)."""
    ix = ctx.index
    f = ix.func(BAM, "BamBuffer.from_raw_buffer")
    ch = f.params[1]
    writes = [n for n in body_walk(f.node) if isinstance(n, ast.Assign) and any(u(t) == ch for t in n.targets)]
    for w in writes:
        v = w.value
        if isinstance(v, ast.Call) and u(v.func) in ("np.asarray", "np.asanyarray", "np.ascontiguousarray") and len(v.args) == 1 and u(v.args[0]) == ch:
            ok = True
        elif any(isinstance(x, ast.Subscript) and u(x.value) == ch for x in ast.walk(v)):
            ok = False
        else:
            raise Unrecognised(f"{f.where}: the raw chunk is rewritten in an unknown form: {u(w)}")
        ctx.ob(f.where, "the raw BAM chunk is not trimmed before the records are located (a record may end in any byte, e.g. 0x0A)", ok, u(w), key="C16-R8|chunk-untrimmed")
    fs = [c for c in func_calls(f.node) if u(c.func).endswith("_find_starts")]
    ok = len(fs) == 1 and fs[0].args and u(fs[0].args[0]) == ch
    ctx.ob(f.where, "record starts are located in the chunk as read", ok, u(fs[0]) if fs else "", key="C16-R8|scan-arg")
    ctx.count("assignments to the raw chunk", len(writes))


from .c03 import r2_header_once as _header_once      # the BAM header is replayed once, before any record, also when the first table is empty

from ..through_time import make_rule as _mk_tt, make_t2 as _mk_t2
_through_time = _mk_tt("C16")
_small_edits = _mk_t2("C16")

def _chunk_carry_over(ctx):
    from .c01 import r2_carry_over
    r2_carry_over(ctx)         # BAM is read through the same chunk reader in prepend (gzip) mode

def _uniformity_shortcuts(ctx):
    from ..idioms import check_uniformity_shortcuts
    check_uniformity_shortcuts(ctx, [BAM, "bionumpy.alignments.cigar"], "C16-R11")

def _buffer_selection(ctx):
    from .c04 import r2_aligned_stores
    with ctx.only("BamBuffer", "BamBufferExtractor"):
        r2_aligned_stores(ctx)   # selecting rows of a BAM buffer selects the same rows of its extractor


RULES = [
    ("C16-R1", r1_layout),
    ("C16-R2", r2_code_tables),
    ("C16-R3", r3_interval_view),
    ("C16-R4", r4_selection_compaction),
    ("C16-R5", r5_sentinel_refid),
    ("C16-R6", r6_writer),
    ("C16-R7", r7_integer_width),
    ("C16-R8", r8_raw_chunk_untouched),
    ("C16-R9", _header_once),
    ("C16-T1", _through_time),
    ("C16-T2", _small_edits),
    ("C16-R10", _chunk_carry_over),
    ("C16-R11", _uniformity_shortcuts),
    ("C16-R12", _buffer_selection),
]
