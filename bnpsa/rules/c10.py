"""C10 - genome-wide operations respect chromosome boundaries.

 R1 lock-step sources agree: the contig order walked by per-chromosome streams is exactly the contigs that have sizes (= C12-R5), and derived
    contexts keep the ignored set (= C12-R4);
 R2 global-coordinate taint: intervals converted to concatenated coordinates may flow into coverage-type operations (mask, pileup, run-length
    indexing) but not into boundary-sensitive ones (merge, extend, clip, windows);
 R3 sizes are per chromosome: every clamp in clip / extended_to_size / get_windows takes its size from global_offset.get_size(<chromosome column>);
 R4 coordinate conversion: bounds checks (>=, <=), searchsorted(side='right') - 1, offsets = cumulative sizes;
 R5 strand selectors in the genomic-data modules (= C14-R3);
 R6 F-RESOLVE: every name and self-attribute used in the genomic-data modules resolves;
 R7 sequence extraction looks rows up in label order (= C17-R1 label-order).
"""
from __future__ import annotations
import ast

from ..index import AnchorMissing, Unrecognised
from ..cfg import CFG
from ..astutil import linear_body, u, body_walk, local_env, func_calls, walk_local, single_return_expr, inline_locals
from ..pend import edge_facts
from .. import sym, resolve

EXPLANATION = ("Static analysis of the genome-wide layer: coordinate conversion is compared with its definition (bounds tests, searchsorted orientation, "
               "cumulative offsets) as normal forms; a taint analysis tracks values in concatenated coordinates and forbids their flow into operations "
               "whose result depends on chromosome boundaries; every clamp's size operand must derive from the per-chromosome size lookup; names and "
               "attributes are resolved over the genomic-data modules; strand selectors, contig order and label order are shared rules. "
               "Equality with the single-contig operation is not decided.")

GD = "bionumpy.genomic_data"
MODS = [f"{GD}.global_offset", f"{GD}.genomic_intervals", f"{GD}.genomic_track", f"{GD}.geometry", f"{GD}.genome_context", f"{GD}.genomic_sequence", f"{GD}.genome",
        f"{GD}.coordinate_mapping", f"{GD}.binned_genome", f"{GD}.genomic_data"]
GLOBAL_SOURCES = ("from_local_interval", "start_ends_from_intervals", "from_local_coordinates")
BOUNDARY_SENSITIVE = {"merge_intervals", "extend_to_size", "clip", "sort_intervals", "intersect", "extend"}
COVERAGE_OK = {"get_boolean_mask", "get_pileup", "from_bedgraph", "from_global_data", "to_local_interval", "to_local_coordinates"}


def r1_lockstep(ctx):
    from .c12 import r5_order_equals_sizes, r4_context_immutable
    r5_order_equals_sizes(ctx)
    r4_context_immutable(ctx)
    gc = ctx.index.func(f"{GD}.genome_context", "GenomeContext.__init__")
    env = {}
    for s in linear_body(gc.node):
        if isinstance(s, ast.Assign):
            env.setdefault(u(s.targets[0]), []).append(s.value)
    ok = sym.canon(env["self._chrom_size_dict"][0]) == sym.canon(sym.parse_expr("{key: value for key, value in chrom_size_dict.items() if key in self._included}")) and \
        sym.canon(env["self._included"][0]) == sym.canon(sym.parse_expr("[chrom for chrom in chrom_size_dict if chrom not in self._ignored]")) and \
        sym.canon(env["self._global_offset"][0]) == "GlobalOffset(self._chrom_size_dict, string_encoding=self._string_endcoding)"
    ctx.ob(gc.where, "sizes, global offsets and the included list are all built from the same filtered contig dict (ignored contigs are in none of them)", ok, "", key="C10-R1|context-init")


def r2_global_taint(ctx):
    ix = ctx.index
    n_src = 0
    for mod in MODS:
        mi = ix.module(mod)
        for fi in mi.functions.values():
            if isinstance(fi.node, ast.Lambda):
                continue
            tainted = set()
            for n in body_walk(fi.node):
                if isinstance(n, ast.Assign) and isinstance(n.value, ast.Call) and u(n.value.func).split(".")[-1] in GLOBAL_SOURCES:
                    for t in n.targets:
                        for x in ast.walk(t):
                            if isinstance(x, ast.Name):
                                tainted.add(x.id)
                    n_src += 1
            changed = True
            while changed:
                changed = False
                for n in body_walk(fi.node):
                    if isinstance(n, ast.Assign) and isinstance(n.targets[0], ast.Name) and n.targets[0].id not in tainted:
                        v = n.value
                        if isinstance(v, ast.Call) and u(v.func).split(".")[-1] in COVERAGE_OK:
                            continue
                        if {x.id for x in ast.walk(v) if isinstance(x, ast.Name)} & tainted:
                            tainted.add(n.targets[0].id)
                            changed = True
            if not tainted:
                continue
            for c in func_calls(fi.node):
                name = u(c.func).split(".")[-1]
                if name in BOUNDARY_SENSITIVE:
                    used = [a for a in c.args if {x.id for x in ast.walk(a) if isinstance(x, ast.Name)} & tainted]
                    ctx.ob(f"{mi.relpath}:{c.lineno} {fi.qualname}", f"`{name}` is not applied to intervals in concatenated (genome-wide) coordinates: "
                           f"neighbouring chromosomes are adjacent there, so touching/nearby intervals across a chromosome end would be combined", not used,
                           u(c)[:120], key=f"C10-R2|{fi.module.name}|{fi.qualname}|{name}")
    ctx.floor("conversions to concatenated coordinates in the genomic-data modules", n_src, 8)
    # the in-memory merged() goes per chromosome
    m = ix.func(f"{GD}.genomic_intervals", "GenomicIntervalsFull.merged")
    env = local_env(m.node)
    e = single_return_expr(m.node)
    ok = e is not None and sym.canon(e) == f"self.as_stream().merged({m.params[1]}).compute()"
    ctx.ob(m.where, "GenomicIntervals.merged merges chromosome by chromosome (through the per-chromosome stream)", ok, u(e) if e is not None else "", key="C10-R2|merged-per-chromosome")


def r3_per_chromosome_sizes(ctx):
    ix = ctx.index
    sites = [(f"{GD}.genomic_intervals", "GenomicIntervalsFull.clip", "self._intervals.chromosome"), (f"{GD}.genomic_intervals", "GenomicIntervalsFull.extended_to_size", "self._intervals.chromosome"),
             (f"{GD}.geometry", "Geometry.clip", None), (f"{GD}.geometry", "Geometry.extend_to_size", None)]
    for mod, qn, chrom in sites:
        f = ix.func(mod, qn)
        env = local_env(f.node)
        c = chrom or f"{f.params[1]}.chromosome"
        want = f"self._genome_context.global_offset.get_size({c})"
        ok = "chrom_sizes" in env and sym.canon(env["chrom_sizes"]) == want
        ctx.ob(f.where, f"{qn}: the clamp size is looked up per interval from its own chromosome", ok, u(env.get("chrom_sizes")) if "chrom_sizes" in env else "", key=f"C10-R3|{qn}|size-source")
        e = single_return_expr(f.node)
        txt = sym.canon(e) if e is not None else ""
        uses = "self._genome_context.global_offset.get_size(" in txt
        genome_size = "genome_context.size" in txt or "total_size" in txt
        ctx.ob(f.where, f"{qn}: the per-chromosome sizes (not the genome size) reach the clamp", uses and not genome_size, txt[:160], key=f"C10-R3|{qn}|size-used")
    c = ix.func(f"{GD}.genomic_intervals", "GenomicIntervalsFull.clip")
    e = single_return_expr(c.node)
    ok = e is not None and sym.canon(e) == sym.canon(sym.parse_expr(
        "replace(self, start=np.maximum(0, self.start), stop=np.minimum(self._genome_context.global_offset.get_size(self._intervals.chromosome), self.stop))"))
    ctx.ob(c.where, "GenomicIntervals.clip: start >= 0 and stop <= own chromosome size", ok, "", key="C10-R3|clip-form")
    gw = ix.func(f"{GD}.genomic_intervals", "GenomicLocationGlobal.get_windows") if ix.has_func(f"{GD}.genomic_intervals", "GenomicLocationGlobal.get_windows") else None
    if gw is None:
        for qn in ix.module(f"{GD}.genomic_intervals").functions:
            if qn.endswith(".get_windows") and "Streamed" not in qn:
                gw = ix.func(f"{GD}.genomic_intervals", qn)
    ctx.need(gw is not None, "get_windows not found")
    rets = [n for n in body_walk(gw.node) if isinstance(n, ast.Return)]
    ok = bool(rets) and all(isinstance(r.value, ast.Call) and u(r.value.func).endswith(".clip") for r in rets)
    ctx.ob(gw.where, "windows around locations are clipped to their chromosome before they are returned", ok, "; ".join(u(r.value)[:80] for r in rets), key="C10-R3|windows-clipped")
    env = local_env(gw.node)
    txt = u(gw.node)
    ok = "l_flank = flank" in txt and "r_flank = flank + 1" in txt and "l_flank = window_size // 2" in txt and "r_flank = window_size // 2 + window_size % 2" in txt and \
        "self.position - l_flank" in txt and "self.position + r_flank" in txt
    ctx.ob(gw.where, "window = [position - left flank, position + right flank) with flank / flank+1 or floor/ceil halves of the window size", ok, "", key="C10-R3|windows-form")


def r4_coordinate_conversion(ctx):
    ix = ctx.index
    GO = f"{GD}.global_offset"
    init = ix.func(GO, "GlobalOffset.__init__")
    ok = any(isinstance(n, ast.Assign) and u(n.targets[0]) == "self._offset" and sym.canon(n.value) == "np.insert(np.cumsum(self._sizes), 0, 0)" for n in body_walk(init.node))
    ctx.ob(init.where, "chromosome k starts at the total size of the chromosomes before it", ok, "", key="C10-R4|offsets")
    f = ix.func(GO, "GlobalOffset.from_local_coordinates")
    name, loc = f.params[1], f.params[2]
    env = local_env(f.node)
    ok = "mask" in env and sym.canon(env["mask"]) == sym.canon(sym.parse_expr(f"{loc} >= self.get_size({name})"))
    ctx.ob(f.where, "a local position equal to or beyond its chromosome's size is rejected (>=): it would land on the next chromosome", ok, u(env.get("mask")) if "mask" in env else "",
           key="C10-R4|local-bound")
    g = CFG(f.node)
    rets = g.stmt_nodes(ast.Return)
    raises = [n for n in g.nodes if n.kind == "stmt" and isinstance(n.ast, ast.Raise)]
    ok = len(rets) == 1 and sym.canon(rets[0].ast.value) == sym.canon(sym.parse_expr(f"self.get_offset({name}) + {loc}")) and len(raises) == 1
    if ok:
        facts = set()
        for t, lab in g.guards(raises[0]):
            facts |= edge_facts(t, lab)
        ok = ("np.any(np.atleast_1d(mask))", True) in facts and g.path([g.entry], rets, blocked=lambda n: n.kind == "test" and False) is not None
    ctx.ob(f.where, "global position = chromosome offset + local position, after the bounds check raised for any offender", ok, "", key="C10-R4|local-to-global")
    for qn, arg in (("GlobalOffset.to_local_interval", "{p}.start"), ("GlobalOffset.to_local_coordinates", "{p}")):
        h = ix.func(GO, qn)
        env = local_env(h.node)
        p = h.params[1]
        ok = "chromosome_idxs" in env and sym.canon(env["chromosome_idxs"]) == sym.canon(sym.parse_expr(f"np.searchsorted(self._offset, {arg.format(p=p)}, side='right') - 1"))
        ctx.ob(h.where, f"{qn}: chromosome of a global position = last offset <= position (searchsorted side='right' minus 1; a position on a boundary belongs to the next chromosome)",
               ok, u(env.get("chromosome_idxs")) if "chromosome_idxs" in env else "", key=f"C10-R4|{qn}|searchsorted")
    tl = ix.func(GO, "GlobalOffset.to_local_interval")
    env = local_env(tl.node)
    p = tl.params[1]
    ok = sym.same(env.get("start"), f"{p}.start - self._offset[chromosome_idxs]", {}) and sym.same(env.get("stop"), f"{p}.stop - self._offset[chromosome_idxs]", {})
    asserts = [n for n in body_walk(tl.node) if isinstance(n, ast.Assert)]
    ok2 = any(sym.canon(a.test) == sym.canon(sym.parse_expr("np.all(stop <= self._sizes[chromosome_idxs])")) for a in asserts)
    ctx.ob(tl.where, "local interval = global interval minus its chromosome's offset (both ends by the start's chromosome)", ok, "", key="C10-R4|to-local-interval")
    ctx.ob(tl.where, "an interval reaching past its chromosome's end is rejected", ok2, "", key="C10-R4|to-local-interval-bound")
    se = ix.func(GO, "GlobalOffset.start_ends_from_intervals")
    g = CFG(se.node)
    iv = se.params[1]
    env = local_env(se.node)
    raises = [n for n in g.nodes if n.kind == "stmt" and isinstance(n.ast, ast.Raise)]
    okr = False
    for r in raises:
        facts = set()
        for t, lab in g.guards(r):
            facts |= edge_facts(t, lab)
        if (sym.canon(sym.parse_expr(f"np.any({iv}.start >= sizes)")), True) in facts:
            okr = True
    ctx.ob(se.where, "interval starts at or beyond the chromosome size raise", okr, "", key="C10-R4|start-bound")
    asserts = [n for n in g.nodes if n.kind == "stmt" and isinstance(n.ast, ast.Assert)]
    oka = any(sym.canon(a.ast.test) == "np.all((stop)<=(sizes))" for a in asserts)
    clips = [n for n in g.stmt_nodes(ast.Assign) if u(n.ast.targets[0]) == "stop" and sym.canon(n.ast.value) in ("np.minimum(stop, sizes)", "np.minimum(sizes, stop)")]
    ctx.ob(se.where, "interval stops beyond the chromosome size are rejected (or clamped to the size when clipping is requested)", oka and len(clips) == 1, "", key="C10-R4|stop-bound")
    ok = sym.same(env.get("offsets"), "self.get_offset(chromosome)") and sym.same(env.get("sizes"), "self.get_size(chromosome)") and \
        sym.same(env.get("start_offsets"), f"{iv}.start + offsets", {}) and sym.same(env.get("stop_offsets"), "stop + offsets", {})
    ctx.ob(se.where, "global start/stop = local start/stop + own chromosome offset; sizes and offsets are looked up with the same chromosome column", ok, "", key="C10-R4|interval-to-global")
    for qn, arr in (("GlobalOffset.get_offset", "self._offset"), ("GlobalOffset.get_size", "self._sizes")):
        h = ix.func(GO, qn)
        env = local_env(h.node)
        rets = [n for n in body_walk(h.node) if isinstance(n, ast.Return)]
        pre = [n for n in body_walk(h.node) if isinstance(n, ast.Assign) and u(n.targets[0]) == h.params[1]]
        ok = len(rets) == 1 and sym.canon(rets[0].value) == f"{arr}[{h.params[1]}.raw()]" and len(pre) == 1 and \
            sym.canon(pre[0].value) == f"as_encoded_array({h.params[1]}, target_encoding=self._old_encoding)"
        ctx.ob(h.where, f"{qn} indexes by the chromosome's code in the genome's own name encoding", ok, "", key=f"C10-R4|{qn}")
    # array values under intervals / per-chromosome slices
    gt = ix.func(f"{GD}.genomic_track", "GenomicArrayGlobal.extract_intervals")
    env = local_env(gt.node)
    ok = sym.same(env.get("global_intervals"), f"self._genome_context.global_offset.from_local_interval({gt.params[1]})") and sym.same(env.get("rle"), "self._global_track[global_intervals]", {})
    ctx.ob(gt.where, "array values under intervals are read at the intervals' global coordinates (bounds-checked conversion)", ok, "", key="C10-R4|extract-intervals")


def r5_strand_selectors(ctx):
    from .c14 import check_strand_selectors
    n = check_strand_selectors(ctx, restrict_modules=set(MODS))
    ctx.floor("strand selector sites in the genomic-data modules", n, 3)
    gl = ctx.index.func(f"{GD}.genomic_intervals", "GenomicIntervalsFull.get_location")
    loc = [x for x in body_walk(gl.node) if isinstance(x, ast.Call) and u(x.func) == "np.where"]      # whether or not the selection is given a name
    ok = len(loc) == 1 and sym.canon(loc[0]) == sym.canon(sym.parse_expr(f"np.where(self.strand == ('+' if {gl.params[1]} == 'start' else '-'), self.start, self.stop - 1)"))
    ctx.ob(gl.where, "stranded start/stop location: the 5' end is `start` on '+' and `stop - 1` on '-' (and the reverse for the 3' end)", ok, u(loc[0]) if loc else "", key="C10-R5|get-location")
    reps = [c for c in func_calls(gl.node) if u(c.func) == "replace" and any(k.arg == "start" for k in c.keywords)]
    env5 = local_env(gl.node)
    ok = any(sym.canon(next(k.value for k in c.keywords if k.arg == "start")) in ("location", sym.canon(loc[0]) if loc else "") for c in reps)
    ctx.ob(gl.where, "the selected position becomes the location's coordinate", ok, "; ".join(u(c)[:80] for c in reps), key="C10-R5|get-location-used")


def r6_resolve(ctx):
    ix = ctx.index
    n = 0
    for mod in MODS:
        mi = ix.module(mod)
        for fi in mi.functions.values():
            if isinstance(fi.node, ast.Lambda):
                continue
            n += 1
            for name, line in resolve.unresolved_names(ix, fi):
                ctx.ob(f"{mi.relpath}:{line} {fi.qualname}", f"name `{name}` used in {fi.qualname} is defined (local, global, import or builtin)", False,
                       "NameError when this statement runs", key=f"C10-R6|{mod}|{fi.qualname}|{name}")
            for attr, line in resolve.unresolved_self_attrs(ix, fi):
                ctx.ob(f"{mi.relpath}:{line} {fi.qualname}", f"attribute `self.{attr}` used in {fi.qualname} is assigned or defined somewhere in the class hierarchy", False,
                       "AttributeError when this statement runs", key=f"C10-R6|{mod}|{fi.qualname}|self.{attr}")
    ctx.count("functions_resolved", n)
    ctx.floor("functions examined by the resolver", n, 150)
    ctx.ob("bionumpy/genomic_data", f"names and self-attributes of {n} functions in the genomic-data modules were resolved", True, "")


def r7_label_order(ctx):
    ix = ctx.index
    f = ix.func("bionumpy.io.indexed_fasta", "IndexedFasta._get_interval_sequences_fast")
    env = local_env(f.node)
    iv = f.params[1]
    ind = [x for x in body_walk(f.node) if isinstance(x, (ast.Assign, ast.AnnAssign)) and u(x.targets[0] if isinstance(x, ast.Assign) else x.target) == "indices"]
    ctx.need(len(ind) == 1, "fast path: `indices` row lookup not found")
    init = ix.func("bionumpy.io.indexed_fasta", "IndexedFasta.__init__")
    attr_env = {u(x.targets[0]): x.value for x in body_walk(init.node) if isinstance(x, ast.Assign) and u(x.targets[0]).startswith("self._index_table")}
    c = sym.canon(inline_locals(ind[0].value, {k: v for k, v in env.items() if k != "indices"}), attr_env)
    ok = f"{iv}.chromosome.encoding.get_labels()" in c and c.endswith(f"[{iv}.chromosome.raw()]")
    ctx.ob(f.where, "sequence under intervals: index rows are looked up by chromosome code in a table built in the order of the chromosome encoding's labels "
                    "(genome order may differ from FASTA file order)", ok, c[:160], key="C10-R7|label-order")
    gs = ix.func(f"{GD}.genomic_sequence", "GenomicSequence.extract_intervals")
    # every returned value is dna_encode(self._extract_intervals(<the intervals parameter>)), possibly strand-selected: locals inlined, so the spelling of the steps is free
    ivp = gs.params[1]
    genv = {}
    for n_ in linear_body(gs.node):
        if isinstance(n_, ast.Assign) and isinstance(n_.targets[0], ast.Name):
            genv[n_.targets[0].id] = inline_locals(n_.value, genv)
    grets = [inline_locals(r.value, genv) for r in body_walk(gs.node) if isinstance(r, ast.Return) and r.value is not None]
    core = f"dna_encode(self._extract_intervals({ivp}))"
    ok = bool(grets) and all(core in u(r) and u(r).replace(core, "").count("_extract_intervals") == 0 for r in grets)
    ctx.ob(gs.where, "sequence under intervals is fetched per interval from the indexed file and DNA-encoded", ok, "", key="C10-R7|extract")


def _ceil_div_kind(expr, num: str, den: str):
    """'ceil' / 'floor' / None for an expression meant to count the bins of `num` with bins of `den`"""
    c = sym.canon(expr)
    ceil_forms = [f"({num} + {den} - 1) // {den}", f"-(-{num} // {den})", f"-((-{num}) // {den})", f"np.ceil({num} / {den}).astype(int)", f"(({num} - 1) // {den}) + 1"]
    if c in {sym.canon(sym.parse_expr(t)) for t in ceil_forms}:
        return "ceil"
    stripped = expr
    while isinstance(stripped, ast.Call) and u(stripped.func) in ("np.maximum", "max", "np.minimum", "min", "int") and stripped.args:
        nxt = [a for a in stripped.args if not (sym.poly(a).is_const())]
        if len(nxt) != 1:
            break
        stripped = nxt[0]
    if sym.canon(stripped) in {sym.canon(sym.parse_expr(f"{num} // {den}")), sym.canon(sym.parse_expr(f"({num} / {den}).astype(int)"))}:
        return "floor"
    return None


def r8_bins_size_strand(ctx):
    """(a) binned genome: a chromosome of size s has ceil(s / bin) bins (a floor loses the last partial bin and shifts every later chromosome's bins);
    (b) the genome size used for whole-genome arrays is the sum over exactly the chromosomes the global offsets are built from;
    (c) tables derived from stranded genomic intervals keep the strand flag (it decides reversal / reverse-complement on '-')."""
    ix = ctx.index
    init = ix.func("bionumpy.genomic_data.binned_genome", "BinnedGenome.__init__")
    env = local_env(init.node)
    nb = [n for n in body_walk(init.node) if isinstance(n, ast.Assign) and u(n.targets[0]) == "self._n_bins"]
    ctx.need(len(nb) == 1, "BinnedGenome.__init__: bin count assignment not found")
    bs = init.params[2]
    kind = _ceil_div_kind(nb[0].value, "chrom_sizes", bs)
    if kind is None:
        raise Unrecognised(f"{init.where}: number of bins has an unknown form: {u(nb[0].value)}")
    ctx.ob(init.where, "bins per chromosome = ceil(size / bin_size): the last, partial bin exists", kind == "ceil", u(nb[0]), key="C10-R8|bins-ceil")
    ok = sym.same(env.get("chrom_sizes"), f"np.array(list({init.params[1]}.chrom_sizes.values()))")
    ctx.ob(init.where, "bin counts are computed from the context's own per-chromosome sizes, in its order", ok, "", key="C10-R8|bins-sizes")
    off = [n for n in body_walk(init.node) if isinstance(n, ast.Assign) and u(n.targets[0]) == "self._bin_offsets"]
    ok = len(off) == 1 and sym.same(off[0].value, "np.insert(np.cumsum(self._n_bins), 0, 0)")
    ctx.ob(init.where, "a chromosome's first bin follows the previous chromosome's last bin (exclusive cumulative sum)", ok, u(off[0]) if off else "", key="C10-R8|bin-offsets")
    cnt = ix.func("bionumpy.genomic_data.binned_genome", "BinnedGenome.count")
    cenv = local_env(cnt.node)
    e, pf = cnt.params[1], cnt.params[2]
    ok = sym.same(cenv.get("bin_nr"), f"self._bin_offsets[self._genome_context.encoding.encode({e}.chromosome).raw()] + getattr({e}, {pf}) // self._bin_size", {})
    ok = ok or (sym.canon(inline_locals(cenv.get("bin_nr"), cenv)) == sym.canon(sym.parse_expr(f"self._bin_offsets[self._genome_context.encoding.encode({e}.chromosome).raw()] + getattr({e}, {pf}) // self._bin_size")))
    ctx.ob(cnt.where, "a location falls in bin (first bin of its chromosome) + position // bin_size", ok, "", key="C10-R8|bin-of-location")
    # (b)
    gc = ix.cls("bionumpy.genomic_data.genome_context", "GenomeContext")
    sz = gc.methods["size"]
    r = single_return_expr(sz.node)
    ginit = gc.methods["__init__"]
    go = [n for n in body_walk(ginit.node) if isinstance(n, ast.Assign) and u(n.targets[0]) == "self._global_offset"]
    ctx.need(len(go) == 1 and isinstance(go[0].value, ast.Call) and go[0].value.args, "GenomeContext.__init__: global offset construction not found")
    table = u(go[0].value.args[0])
    if r is not None and sym.canon(r) == sym.canon(sym.parse_expr(f"sum({table}.values())")):
        ok, detail = True, u(r)
    elif r is not None and isinstance(r, ast.Attribute) and u(r.value) == "self":
        asg = [n for n in body_walk(ginit.node) if isinstance(n, ast.Assign) and u(n.targets[0]) == u(r)]
        ctx.need(len(asg) == 1, f"GenomeContext: cached size {u(r)} is not assigned exactly once in __init__")
        v = asg[0].value
        tdef = [n for n in body_walk(ginit.node) if isinstance(n, ast.Assign) and u(n.targets[0]) == table]
        ok = sym.canon(v) == sym.canon(sym.parse_expr(f"sum({table}.values())")) and bool(tdef) and asg[0].lineno > tdef[-1].lineno
        detail = u(asg[0])
        if not ok and not (isinstance(v, ast.Call) and u(v.func) == "sum"):
            raise Unrecognised(f"{ginit.where}: cached genome size has an unknown form: {u(asg[0])}")
    elif r is not None and isinstance(r, ast.Call) and u(r.func) == "sum" and len(r.args) == 1 and isinstance(r.args[0], ast.Call) and u(r.args[0].func).endswith(".values"):
        ok, detail = False, u(r)      # a sum over some other table
    else:
        raise Unrecognised(f"{sz.where}: genome size has an unknown form: {u(r) if r is not None else '?'}")
    ctx.ob(sz.where, f"genome size = sum of the sizes in `{table}`, the very table the global offsets are built from (ignored contigs are in neither)", ok, detail, key="C10-R8|size-table")
    # (c)
    GI = "bionumpy.genomic_data.genomic_intervals"
    n = 0
    for cname, data_attr in (("GenomicIntervalsFull", "_intervals"), ("GenomicLocationGlobal", "_locations")):
        ci = ix.cls(GI, cname)
        for mname, fi in ci.methods.items():
            if mname in ("__init__",) or any(d in ("classmethod", "staticmethod") for d in fi.decorators):
                continue
            for c in func_calls(fi.node):
                fn = u(c.func)
                if fn not in ("self.__class__", "self.from_intervals", cname, f"{cname}.from_intervals", "self.from_fields"):
                    continue
                if not c.args or f"self.{data_attr}" not in u(c.args[0]):
                    continue
                n += 1
                passed = [u(a) for a in c.args[2:3]] + [u(k.value) for k in c.keywords if k.arg == "is_stranded"]
                ctx.ob(fi.where, f"{cname}.{mname} derives a table from the receiver's entries and hands on the receiver's strand flag", "self._is_stranded" in passed,
                       u(c)[:140], key=f"C10-R8|strand-flag|{cname}|{mname}", definite=True)
    ctx.floor("derivations of stranded tables examined", n, 5)


from ..through_time import make_rule as _mk_tt, make_t2 as _mk_t2
_through_time = _mk_tt("C10")
_small_edits = _mk_t2("C10")

def _every_chromosome_visited(ctx):
    from .c12 import r1_pending_group, r2_every_contig_gets_a_buffer
    r1_pending_group(ctx)
    r2_every_contig_gets_a_buffer(ctx)   # streamed genome-wide results cover every chromosome, also trailing ones without entries

def _genome_order(ctx):
    """Sorting in genome order (property text): the sort keys of genomic intervals and locations -- clauses of C08-R2 on GenomicIntervalsFull.sorted and
    GenomicLocationGlobal.sorted."""
    from .c08 import r2_sort_keys
    with ctx.only("GenomicIntervalsFull.sorted", "GenomicLocationGlobal.sorted"):
        r2_sort_keys(ctx)



def _round7_order_and_shortcuts(ctx):
    from ..idioms import check_endpoint_samples
    from .round7 import compatible_means_same_order, code_lookup_tables
    mods = [m for m in ctx.index.modules if m.startswith("bionumpy.genomic_data") or m.startswith("bionumpy.arithmetics") or m.startswith("bionumpy.streams") or m == "bionumpy.io.indexed_fasta"]
    compatible_means_same_order(ctx, "C10-R11")
    check_endpoint_samples(ctx, mods, "C10-R11")
    code_lookup_tables(ctx, mods, "C10-R11")

RULES = [
    ("C10-R1", r1_lockstep),
    ("C10-R2", r2_global_taint),
    ("C10-R3", r3_per_chromosome_sizes),
    ("C10-R4", r4_coordinate_conversion),
    ("C10-R5", r5_strand_selectors),
    ("C10-R6", r6_resolve),
    ("C10-R7", r7_label_order),
    ("C10-R8", r8_bins_size_strand),
    ("C10-T1", _through_time),
    ("C10-T2", _small_edits),
    ("C10-R9", _every_chromosome_visited),
    ("C10-R10", _genome_order),
    ("C10-R11", _round7_order_and_shortcuts),
]
