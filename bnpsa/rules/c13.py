"""C13 - sliding-window sequence functions are row-local and match their definitions.

 R1 trailing trim: every place that drops the last w-1 columns of each row uses the bound -w+1 *and* treats w == 1 (where -w+1 == 0 would
    empty the row): `... or None`, or an explicit w > 1 guard for the zeroing form;
 R2 k-mer code = little-endian base-|A| number: the generic weights, both encode paths and to_string agree (constant-evaluated for small
    k and |A|, exhaustively over all codes); the 2-bit packed path is used exactly for |A| == 4;
 R3 window algebra of minimizers (n_kmers + k - 1 composed with window - k + 1 is the identity), minimum over the k-mer axis;
 R4 the ragged shape used to re-wrap a convolved flat array is the shape of the same object that was flattened;
 R5 chunked counting covers every value; motif scores accumulate m[offset][seq[i+offset]] into position i;
 R6 memo keys of label caches name everything the cached value depends on (shared rule F-MEMO(b)).
"""
from __future__ import annotations
import ast
import numpy as np

from ..index import AnchorMissing, Unrecognised
from ..absval import Evaluator, Obj, MethodRunner
from ..cfg import CFG
from ..astutil import linear_body, u, body_walk, local_env, func_calls, walk_local, single_return_expr, inline_locals
from ..pend import edge_facts
from .. import sym
from .. import memo

EXPLANATION = ("Static analysis of the sliding-window code: slice bounds that trim the last w-1 columns are compared as linear forms and checked for the w == 1 "
               "case; the k-mer hash weights, both encoders and the renderer are constant-evaluated for small k and alphabet sizes over all codes and "
               "compared with the little-endian base-|A| definition; the packed-path dispatch, minimizer window algebra, shape provenance of re-wrapping, "
               "chunk coverage of counting and the motif accumulation statement are compared as symbolic normal forms. Per-window values are not observed.")

MODS = ["bionumpy.sequence.kmers", "bionumpy.sequence.rollable", "bionumpy.sequence.minimizers", "bionumpy.sequence.string_matcher",
        "bionumpy.sequence.position_weight_matrix", "bionumpy.sequence.count_encoded", "bionumpy.encodings.kmer_encodings", "bionumpy.util"]


def _strip_or_none(n):
    if isinstance(n, ast.BoolOp) and isinstance(n.op, ast.Or) and len(n.values) == 2 and isinstance(n.values[1], ast.Constant) and n.values[1].value is None:
        return n.values[0], True
    return n, False


def r1_trailing_trim(ctx):
    ix = ctx.index
    n_upper = n_lower = 0
    for mod in MODS:
        mi = ix.module(mod)
        for fi in mi.functions.values():
            g = None
            for sub in body_walk(fi.node):
                if not isinstance(sub, ast.Subscript):
                    continue
                sl = sub.slice
                elts = sl.elts if isinstance(sl, ast.Tuple) else [sl]
                if not (elts and isinstance(elts[-1], ast.Slice)):
                    continue
                s = elts[-1]
                for which, bound in (("upper", s.upper), ("lower", s.lower)):
                    if bound is None or "window_size" not in u(bound):
                        continue
                    core, has_or_none = _strip_or_none(bound)
                    p = sym.poly(core)
                    atoms = [a for a in p.atoms() if "window_size" in a]
                    if len(atoms) != 1 or len(p.atoms()) != 1:
                        continue
                    W = sym.Poly.atom(atoms[0])
                    if (p + W).is_const() is False:
                        continue  # not of the form -w + c
                    c = (p + W).const_value()
                    if which == "upper" and s.lower is None:
                        n_upper += 1
                        ctx.ob(fi.where, "trailing trim drops exactly the last w-1 columns of every row (bound == -w + 1)", c == 1, f"bound {p}",
                               key=f"C13-R1|{mod}|{fi.qualname}|bound")
                        ctx.ob(fi.where, "trailing trim keeps every column when w == 1 (`-w+1 or None`; a bare 0 bound would empty every row)", has_or_none, u(bound),
                               key=f"C13-R1|{mod}|{fi.qualname}|w1")
                    elif which == "lower" and s.upper is None:
                        n_lower += 1
                        if g is None:
                            g = CFG(fi.node)
                        node = None
                        for nd in g.nodes:
                            if nd.kind == "stmt" and any(x is sub for x in ast.walk(nd.ast)):
                                node = nd
                        fs = set()
                        if node is not None:
                            for t, lab in g.guards(node):
                                fs |= edge_facts(t, lab)
                        guarded = any(cnd in (f"(1)<({atoms[0]})",) and pol for cnd, pol in fs)
                        ctx.ob(fi.where, "zeroing of the last w-1 columns uses the bound -w+1 and is skipped for w == 1 (where [0:] would zero the whole row)",
                               c == 1 and (guarded or has_or_none), f"bound {p}; guards {sorted(fs)}", key=f"C13-R1|{mod}|{fi.qualname}|lower")
    ctx.floor("trailing-trim sites (drop last w-1 columns)", n_upper, 4)
    ctx.floor("trailing zeroing sites", n_lower, 1)


def r2_hash_weights(ctx):
    ix = ctx.index
    K = "bionumpy.sequence.kmers"
    kcls = ix.cls(K, "KmerEncoder")
    runner = MethodRunner(ix)
    bad = []
    narrow = []
    for k in (1, 2, 3, 4):
        for n in (2, 3, 4, 5, 20):
            obj = Obj(kcls)
            runner.call(obj, kcls, "__init__", (k, Obj(None, alphabet_size=n)))
            w = obj.attrs().get("_convolution")
            if not isinstance(w, np.ndarray) or list(w) != [n ** i for i in range(k)]:
                bad.append(f"k={k} |A|={n}: {None if w is None else list(w)}")
            elif w.dtype.kind in "iu" and w.dtype.itemsize < 8:
                narrow.append(f"k={k} |A|={n}: weights are {w.dtype}")
    ctx.count("weight_configs", 20)
    ctx.ob(kcls.where, "generic k-mer weights are |A|**i for letter i (little-endian), for k in 1..4 and |A| in {2,3,4,5,20}", not bad, "; ".join(bad[:4]), key="C13-R2|weights")
    ctx.ob(kcls.where, "the weights (and so the dot product) are 64-bit integers for every k: with narrower weights the hash of a long k-mer wraps at the one k where "
           "|A|**k first exceeds the narrow range", not narrow, "; ".join(narrow[:3]), key="C13-R2|weights-width")
    call = ix.func(K, "KmerEncoder.__call__")
    e = [n for n in body_walk(call.node) if isinstance(n, ast.Return)]
    ok = len(e) == 1 and isinstance(e[0].value, ast.Call) and sym.canon(e[0].value.args[0]) in (f"{call.params[1]}.data.dot(self._convolution)", f"{call.params[1]}.raw().dot(self._convolution)") \
        and sym.canon(e[0].value.args[1]) == "KmerEncoding(self._encoding, self._k)"
    ctx.ob(call.where, "k-mer hash = dot(letter codes of the window, weights), labelled with the k-mer encoding of the same alphabet and k", ok, u(e[0].value) if e else "", key="C13-R2|dot")
    ok = any(isinstance(n, ast.Assign) and u(n.targets[0]) == call.params[1] and sym.canon(n.value) == f"as_encoded_array({call.params[1]}, target_encoding=self._encoding)"
             for n in body_walk(call.node))
    ctx.ob(call.where, "windows are brought to the encoder's alphabet first", ok, "")
    # KmerEncoding.encode: both branches use the same weights
    E = "bionumpy.encodings.kmer_encodings"
    enc = ix.func(E, "KmerEncoding.encode")
    rets = [n for n in body_walk(enc.node) if isinstance(n, ast.Return)]
    ctx.floor("encode branches of KmerEncoding", len(rets), 2)
    for r in rets:
        ok = isinstance(r.value, ast.Call) and u(r.value.func) == "EncodedArray" and sym.same(r.value.args[0], "letters.dot(self._alphabet_encoding.alphabet_size ** np.arange(self._k))") \
            and u(r.value.args[1]) == "self"
        ctx.ob(enc.where, "KmerEncoding.encode uses the weights |A|**arange(k)", ok, sym.canon(r.value.args[0]) if isinstance(r.value, ast.Call) else u(r.value), key="C13-R2|encode")
    # to_string: digits of the code, exhaustively for small k, n
    ts = ix.func(E, "KmerEncoding.to_string")
    stmts = linear_body(ts.node)
    # the statements that compute the digits: everything after the array dispatch (`if ...ndim > 0: return ...`) up to the statement that wraps `tmp`
    lo = next((i for i, s_ in enumerate(stmts) if isinstance(s_, ast.If) and "ndim" in u(s_.test)), None)
    hi = next((i for i, s_ in enumerate(stmts) if isinstance(s_, ast.Assign) and u(s_.targets[0]) == "chars"), None)
    ctx.need(lo is not None and hi is not None and lo < hi, "to_string: digit computation not found")
    digit_stmts = stmts[lo + 1:hi]
    ctx.need(any("tmp" in {u(t) for x in ast.walk(s_) if isinstance(x, ast.Assign) for t in x.targets} for s_ in digit_stmts), "to_string: alphabet-size dispatch not found")
    # the code is an int64 up to |A|**k: its digits are exact only in integer arithmetic (a float quotient is exact up to 2**53 only)
    inexact = []
    for s_ in digit_stmts:
        for x in ast.walk(s_):
            if isinstance(x, ast.BinOp) and isinstance(x.op, ast.Div):
                inexact.append(u(x))
            if isinstance(x, ast.Call) and u(x.func) in ("np.floor", "np.log", "np.log2", "np.log10", "np.true_divide", "np.divide", "float", "np.float64", "np.power", "np.sqrt", "np.round", "np.rint", "np.trunc", "np.ceil"):
                inexact.append(u(x))
            if isinstance(x, ast.Call) and isinstance(x.func, ast.Attribute) and x.func.attr == "astype" and x.args and u(x.args[0]) in ("float", "np.float64", "np.float32"):
                inexact.append(u(x))
    ctx.ob(ts.where, "the digits of a code are extracted in integer arithmetic (shift / floor division / modulo): a float quotient loses the low digits of codes above 2**53",
           not inexact, "; ".join(inexact[:3]), key="C13-R2|to_string-integer", definite=True)
    bad = []
    total = 0
    for n in (2, 3, 4, 5):
        for k in (1, 2, 3, 4):
            for code in range(n ** k):
                ev = Evaluator({"self": Obj(None, _k=k, _alphabet_encoding=Obj(None, alphabet_size=n)), ts.params[1]: code})
                try:
                    ev.run(digit_stmts)
                except Unrecognised:
                    if inexact:
                        break
                    raise
                tmp = ev.env.get("tmp")
                want = [(code // n ** i) % n for i in range(k)]
                total += 1
                if tmp is None or list(np.asarray(tmp).ravel()) != want:
                    bad.append(f"|A|={n} k={k} code={code}: {None if tmp is None else list(np.asarray(tmp).ravel())} != {want}")
    ctx.count("codes_rendered", total)
    ctx.ob(ts.where, "to_string renders letter i as digit i of the code in base |A| (all codes for |A| in 2..5, k in 1..4)", not bad, "; ".join(bad[:3]), key="C13-R2|to_string")
    txt = u(ts.node)
    ok = "chars = EncodedArray(tmp, self._alphabet_encoding)" in txt
    ctx.ob(ts.where, "digits are rendered with the k-mer's own alphabet", ok, "")
    gl = ix.func(E, "KmerEncoding.get_labels")
    e = single_return_expr(gl.node)
    if e is not None and sym.canon(e) == sym.canon(sym.parse_expr("[self.to_string(kmer) for kmer in range(self._alphabet_encoding.alphabet_size ** self._k)]")):
        ctx.ob(gl.where, "label i is the rendering of code i, for all |A|**k codes", True, "")
    else:
        # a different form (e.g. memoised): decided by the memo-key rule R6; here only the generator of labels is located
        txt = u(gl.node)
        ok = "self.to_string(" in txt and "range(self._alphabet_encoding.alphabet_size ** self._k)" in txt
        if not ok:
            raise Unrecognised(f"{gl.where}: label generation has an unknown form")
        ctx.ob(gl.where, "labels are generated as renderings of the codes 0..|A|**k-1 (memoisation decided by R6)", True, "")
    # packed path dispatch
    gk = ix.func(K, "get_kmers")
    g = CFG(gk.node)
    rets = [n for n in g.stmt_nodes(ast.Return)]
    packed = [n for n in rets if "_get_dna_kmers" in u(n.ast.value)]
    generic = [n for n in rets if "KmerEncoder(" in u(n.ast.value)]
    ctx.need(len(packed) == 1 and len(generic) == 1, "get_kmers: packed / generic dispatch not found")
    p = gk.params[0]
    fs = set()
    for t, lab in g.guards(packed[0]):
        fs |= edge_facts(t, lab)
    ok = (f"(4)==({p}.encoding.alphabet_size)", True) in fs
    ctx.ob(gk.where, "the 2-bit packed path is taken exactly when the alphabet has 4 letters (its codes are base 4)", ok, str(sorted(fs)), key="C13-R2|dispatch")
    ok = sym.canon(generic[0].ast.value) == f"KmerEncoder({gk.params[1]}, {p}.encoding).rolling_window({p})" and sym.canon(packed[0].ast.value) == f"_get_dna_kmers({p}, {gk.params[1]})"
    ctx.ob(gk.where, "both paths receive the sequences and k unchanged", ok, "")
    dk = ix.func(K, "_get_dna_kmers")
    env = local_env(dk.node)
    ok = "bit_array" in env and sym.canon(env["bit_array"]) == f"BitArray.pack({dk.params[0]}.data, bit_stride=2)" and "hashes" not in env
    hs = [n for n in body_walk(dk.node) if isinstance(n, ast.Assign) and u(n.targets[0]) == "hashes"]
    ok = ok and len(hs) == 2 and sym.canon(hs[0].value) == f"bit_array.sliding_window({dk.params[1]})" and sym.canon(hs[1].value) == "hashes.view(np.int64)"
    ctx.ob(dk.where, "packed path: 2 bits per letter, sliding window of k letters", ok, "", key="C13-R2|packed")
    oe = [n for n in body_walk(dk.node) if isinstance(n, ast.Assign) and u(n.targets[0]) == "output_encoding"]
    ok = len(oe) == 1 and sym.canon(oe[0].value) == f"KmerEncoding({dk.params[0]}.encoding, {dk.params[1]})"
    ctx.ob(dk.where, "packed path labels its codes with the k-mer encoding of the same alphabet and k", ok, "")


def r3_minimizer_algebra(ctx):
    ix = ctx.index
    M = "bionumpy.sequence.minimizers"
    init = ix.func(M, "Minimizers.__init__")
    n, ke = init.params[1], init.params[2]
    ws = [x for x in body_walk(init.node) if isinstance(x, ast.Assign) and u(x.targets[0]) == "self.window_size"]
    ctx.need(len(ws) == 1, "Minimizers.window_size assignment not found")
    p = sym.poly(ws[0].value)
    want = sym.poly(sym.parse_expr(f"{n} + {ke}.window_size - 1"))
    ctx.ob(init.where, "a minimizer window of n k-mers spans n + k - 1 letters", p == want, str(p), key="C13-R3|window")
    gm = ix.func(M, "get_minimizers")
    cs = [c for c in func_calls(gm.node) if u(c.func) == "Minimizers"]
    ctx.need(len(cs) == 1 and len(cs[0].args) == 2, "get_minimizers: Minimizers(...) call not found")
    seq, k, w = gm.params
    inner = cs[0].args[1]
    ok_inner = sym.canon(inner) == f"KmerEncoder({k}, {seq}.encoding)"
    kinit = ix.func("bionumpy.sequence.kmers", "KmerEncoder.__init__")
    kw = [x for x in body_walk(kinit.node) if isinstance(x, ast.Assign) and u(x.targets[0]) == "self.window_size"]
    ok_k = len(kw) == 1 and u(kw[0].value) == kinit.params[1]
    composed = sym.poly(ws[0].value, {n: cs[0].args[0], f"{ke}.window_size": sym.parse_expr(k)})
    ctx.ob(gm.where, "window algebra: (window - k + 1) k-mers of length k span exactly `window` letters", composed == sym.Poly.atom(w) and ok_inner and ok_k, f"composed: {composed}",
           key="C13-R3|identity")
    call = ix.func(M, "Minimizers.__call__")
    e = [x for x in body_walk(call.node) if isinstance(x, ast.Return)]
    env = local_env(call.node)
    ok = len(e) == 1 and sym.canon(e[0].value, env) == f"EncodedArray(self._kmer_encoding.rolling_window({call.params[1]}).raw().min(axis=-1), self._kmer_encoding.rolling_window({call.params[1]}).encoding)"
    ctx.ob(call.where, "minimizer = minimum k-mer code within the window (min over the last axis)", ok, u(e[0].value) if e else "", key="C13-R3|min")
    asserts = [x for x in body_walk(gm.node) if isinstance(x, ast.Assert)]
    ok = any(sym.canon(a.test) == f"({k})<=({w})" for a in asserts)
    ctx.ob(gm.where, "a window shorter than k is rejected", ok, "")


def r4_shape_provenance(ctx):
    ix = ctx.index
    sites = [("bionumpy.sequence.kmers", "convolution.<locals>.new_func"), ("bionumpy.sequence.rollable", "RollableFunction.rolling_window"),
             ("bionumpy.util", "rolling_window_function.<locals>.new_func")]
    n = 0
    for mod, qn in sites:
        fi = ix.func(mod, qn)
        tu = [x for x in body_walk(fi.node) if isinstance(x, ast.Assign) and isinstance(x.targets[0], ast.Tuple) and u(x.targets[0]) == "(shape, sequence)"]
        ctx.need(len(tu) == 1, f"{fi.where}: (shape, sequence) pair not found")
        v = tu[0].value
        ok = isinstance(v, ast.Tuple) and len(v.elts) == 2 and isinstance(v.elts[0], ast.Attribute) and v.elts[0].attr == "shape" and \
            isinstance(v.elts[1], ast.Call) and u(v.elts[1].func) == f"{u(v.elts[0].value)}.ravel"
        ctx.ob(fi.where, "the shape and the flat data come from the same object", ok, u(v), key=f"C13-R4|{qn}|pair")
        for c in func_calls(fi.node):
            if u(c.func) in ("EncodedRaggedArray", "RaggedArray", "as_strided") and len(c.args) >= 2:
                n += 1
                ctx.ob(fi.where, f"{u(c.func)}(...) re-wraps the convolved data with that same shape", u(c.args[0]) == "convoluted" and u(c.args[1]) == "shape", u(c)[:100],
                       key=f"C13-R4|{qn}|{u(c.func)}")
    ctx.floor("re-wrapping sites", n, 6)
    gm = ix.func("bionumpy.sequence.position_weight_matrix", "get_motif_scores")
    tu = [x for x in body_walk(gm.node) if isinstance(x, ast.Assign) and isinstance(x.targets[0], ast.Tuple)]
    p = gm.params[0]
    ok = len(tu) == 1 and u(tu[0].targets[0]) == "(flat_sequence, shape)" and sym.canon(tu[0].value) == f"({p}.ravel(), {p}.shape)"
    ctx.ob(gm.where, "motif scores: flat data and shape come from the same sequences", ok, u(tu[0]) if tu else "", key="C13-R4|motif|pair")
    cs = [c for c in func_calls(gm.node) if u(c.func) == "RaggedArray"]
    ok = len(cs) == 1 and u(cs[0].args[0]) == "scores" and u(cs[0].args[1]) == "shape[-1]"
    ctx.ob(gm.where, "motif scores are re-wrapped with the sequences' own row lengths", ok, u(cs[0]) if cs else "", key="C13-R4|motif|wrap")
    sc = [x for x in body_walk(gm.node) if isinstance(x, ast.Assign) and u(x.targets[0]) == "scores" and isinstance(x.value, ast.Call) and "calculate_scores" in u(x.value.func)]
    ok = len(sc) == 1 and sym.canon(sc[0].value) == f"{gm.params[1]}.calculate_scores(flat_sequence)"
    ctx.ob(gm.where, "motif scores are computed on the flat sequence", ok, "")


def r5_coverage_and_accumulation(ctx):
    ix = ctx.index
    ce = ix.func("bionumpy.sequence.count_encoded", "count_encoded")
    env = local_env(ce.node)
    v = ce.params[0]
    gens = []
    for x in body_walk(ce.node):
        if isinstance(x, (ast.GeneratorExp, ast.ListComp)) and len(x.generators) == 1 and isinstance(x.generators[0].iter, ast.Call) and u(x.generators[0].iter.func) == "range":
            iv = u(x.generators[0].target)
            subs = [y for y in ast.walk(x.elt) if isinstance(y, ast.Subscript) and u(y.value) == v and isinstance(y.slice, ast.Slice)
                    and y.slice.lower is not None and iv in {z.id for z in ast.walk(y.slice.lower) if isinstance(z, ast.Name)}]
            if subs:
                gens.append((x, subs[0]))
    ctx.need(len(gens) == 1, "count_encoded: chunked slicing of the values not found")
    ge, sl = gens[0]
    i = u(ge.generators[0].target)
    rng = ge.generators[0].iter
    ctx.need(len(rng.args) == 1, "chunk loop is not range(n)")
    n_chunks = sym.poly(rng.args[0], env)
    L, m = f"len({v})", "max_size"
    forms_ok = [sym.poly(sym.parse_expr(t), env) for t in (f"{L} // {m} + 1", f"({L} + {m} - 1) // {m}", f"-(-{L} // {m})", f"({L} - 1) // {m} + 1")]
    bad_form = sym.poly(sym.parse_expr(f"{L} // {m}"), env)
    if n_chunks in forms_ok:
        ok = True
    elif n_chunks == bad_form:
        ok = False
    else:
        raise Unrecognised(f"{ce.where}: number of chunks has an unknown form: {n_chunks}")
    ctx.ob(ce.where, "chunked counting: the number of chunks covers every value (ceil(len / chunk) or more)", ok, f"range({n_chunks})", key="C13-R5|chunks")
    ok = sl.slice.step is None and sl.slice.upper is not None and \
        sym.poly(sl.slice.lower, env) == sym.poly(sym.parse_expr(f"{i} * {m}"), env) and sym.poly(sl.slice.upper, env) == sym.poly(sym.parse_expr(f"({i} + 1) * {m}"), env)
    ctx.ob(ce.where, "chunk i is values[i*chunk : (i+1)*chunk] (consecutive, non-overlapping)", ok, u(sl), key="C13-R5|slices")
    bcs = [c for c in func_calls(ce.node) if u(c.func) == "np.bincount"]
    mins = {sym.canon(k.value) for c in bcs for k in c.keywords if k.arg == "minlength"}
    ctx.ob(ce.where, "every count uses the same number of bins (the alphabet size)", mins == {"len(alphabet)"} and all(any(k.arg == "minlength" for k in c.keywords) for c in bcs), str(mins))
    # PWM accumulation
    cs = ix.func("bionumpy.sequence.position_weight_matrix", "PWM.calculate_scores")
    loops = [x for x in linear_body(cs.node) if isinstance(x, ast.For)]
    ctx.need(len(loops) == 1, "calculate_scores: accumulation loop not found")
    lp = loops[0]
    ok_iter = sym.canon(lp.iter, local_env(cs.node)) == "enumerate(self._matrix.T.copy())" and u(lp.target) == "(offset, row)"
    st = lp.body[0] if lp.body else None
    seq = cs.params[1]
    ok_st = isinstance(st, ast.AugAssign) and isinstance(st.op, ast.Add) and sym.canon(st.target) == sym.canon(sym.parse_expr("scores[:scores.size - offset]")) and \
        sym.canon(st.value) == f"row[{seq}[offset:].raw()]" and len(lp.body) == 1
    ctx.ob(cs.where, "motif score at position i accumulates matrix[letter at i+offset][offset] for every motif offset", ok_iter and ok_st, u(st) if st is not None else "",
           key="C13-R5|pwm-accumulate")
    z = [x for x in body_walk(cs.node) if isinstance(x, ast.Assign) and u(x.targets[0]) == "scores"]
    ok = len(z) == 1 and sym.canon(z[0].value) == f"np.zeros({seq}.size, dtype=float)"
    ctx.ob(cs.where, "scores start at zero, one per sequence position", ok, "")


def r6_label_cache_keys(ctx):
    found = memo.check_dict_caches(ctx, MODS, rule_prefix="C13-R6")
    ctx.count("dict_caches_in_scope", found)
    if found == 0:
        ctx.ob("bionumpy/encodings/kmer_encodings.py", "no dict-based memo exists in the sliding-window modules (nothing can go stale)", True, "")


def r7_exact_match_and_short_input(ctx):
    """(a) match_string decides a window by comparing every position with the pattern; a positional hash `codes . base**arange(w)` of a pattern of
    unbounded length wraps in int64 (4**32 == 0 mod 2**64): windows that differ only beyond the wrap compare equal; (b) a text of exactly
    window_size letters has one window: a guard for 'too short for one window' must be strict (< window_size)."""
    ix = ctx.index
    f = ix.func("bionumpy.sequence.string_matcher", "StringMatcher.__call__")
    sq = f.params[1]
    rets = [r for r in body_walk(f.node) if isinstance(r, ast.Return)]
    ctx.floor("returns of StringMatcher.__call__", len(rets), 1)
    want = sym.canon(sym.parse_expr(f"np.all({sq} == self._matching_sequence_array, axis=-1)"))
    for r in rets:
        c = sym.canon(r.value, local_env(f.node))
        if c == want:
            ok = True
        elif any(isinstance(x, ast.BinOp) and isinstance(x.op, ast.Pow) for x in ast.walk(inline_locals(r.value, local_env(f.node)))) and \
                any(isinstance(x, ast.Call) and isinstance(x.func, ast.Attribute) and x.func.attr in ("dot", "sum") for x in ast.walk(r.value)):
            ok = False
        else:
            raise Unrecognised(f"{f.where}: a window is matched in a form the checker cannot compare: {u(r.value)}")
        ctx.ob(f.where, "a window matches when ALL its letters equal the pattern's (exact comparison per position; no fixed-width hash of a pattern of unbounded length)", ok, u(r.value)[:140],
               key="C13-R7|exact-match")
    rw = ix.func("bionumpy.sequence.rollable", "RollableFunction.rolling_window")
    ws = rw.params[2]
    n = 0
    for t in [x for x in body_walk(rw.node) if isinstance(x, ast.If)]:
        for c in [x for x in ast.walk(t.test) if isinstance(x, ast.Compare) and len(x.ops) == 1]:
            sides = (sym.canon(c.left), sym.canon(c.comparators[0]))
            if ws not in sides or not any(s_.startswith("len(") or s_.endswith(".size") for s_ in sides):
                continue
            if not any(isinstance(x, ast.Return) for b in t.body for x in ast.walk(b)):
                continue
            n += 1
            op = type(c.ops[0])
            len_left = sides[0] != ws
            strict = (op is ast.Lt and len_left) or (op is ast.Gt and not len_left)
            ctx.ob(rw.where, "the early exit for input too short to hold one window is taken only when length < window_size (length == window_size holds exactly one window)", strict,
                   u(c), key="C13-R7|short-input-guard")
    ctx.count("short-input guards in rolling_window", n)
    valid = [r for r in body_walk(rw.node) if isinstance(r, ast.Return) and r.value is not None and "or None" in u(r.value)]
    ctx.ob(rw.where, "valid mode returns every row without its last window_size-1 positions (one window for a row of exactly window_size letters)",
           any(sym.canon(r.value) == sym.canon(sym.parse_expr(f"out[..., :(-{ws} + 1) or None]")) for r in valid), "; ".join(u(r.value) for r in valid), key="C13-R7|valid-trim")


from ..through_time import make_rule as _mk_tt, make_t2 as _mk_t2
_through_time = _mk_tt("C13")
_small_edits = _mk_t2("C13")

def _delta_arrays(ctx):
    from ..idioms import check_delta_arrays
    check_delta_arrays(ctx, [m for m in ctx.index.modules if m.startswith("bionumpy.sequence") or m == "bionumpy.encodings.kmer_encodings"], "C13-R8")

def _counts_not_written_in_place(ctx):
    from .c20 import r3_self_array_writes
    r3_self_array_writes(ctx, ("bionumpy.sequence.count_encoded", "bionumpy.sequence.kmers", "bionumpy.sequence.position_weight_matrix", "bionumpy.sequence.minimizers",
                               "bionumpy.sequence.rollable", "bionumpy.sequence.string_matcher", "bionumpy.encodings.kmer_encodings"), floor=0)

def r10_pwm_letters(ctx):
    """Rows of a position weight matrix are paired with letters by POSITION.  (a) from_dict: row i, letter i and background i all come from the same key of the
    probability dictionary; (b) a sequence that is already encoded is scored as it is only if its codes mean the same letters: its alphabet must START WITH
    the matrix alphabet in the same order (having the same letters somewhere is not enough)."""
    from ..cfg import CFG
    from ..pend import edge_facts
    ix = ctx.index
    PW = "bionumpy.sequence.position_weight_matrix"
    f = ix.func(PW, "PWM.from_dict")
    d, bg = f.params[1], f.params[2]
    env = {}
    for x in body_walk(f.node):
        if isinstance(x, ast.Assign) and isinstance(x.targets[0], ast.Name) and x.targets[0].id not in (bg,):
            env[x.targets[0].id] = inline_locals(x.value, env)
    ctx.need("matrix" in env and "alphabet" in env, "PWM.from_dict: matrix / alphabet not found")
    m = env["matrix"]
    ctx.need(isinstance(m, ast.BinOp) and isinstance(m.op, ast.Sub), "PWM.from_dict: matrix is not a difference of logs")

    def strip(e):
        while True:
            if isinstance(e, ast.Subscript):
                e = e.value
            elif isinstance(e, ast.Call) and u(e.func) in ("np.log", "np.array", "np.asarray", "list") and e.args:
                e = e.args[0]
            else:
                return e
    P, B = strip(m.left), strip(m.right)
    okp = u(P) == f"{d}.values()"
    oka = sym.canon(env["alphabet"]) in (sym.canon(sym.parse_expr(f"''.join({d}.keys())")), sym.canon(sym.parse_expr(f"''.join({d})")))
    ctx.ob(f.where, "matrix rows and alphabet letters are the values and keys of the same dictionary in its own order", okp and oka, f"{u(P)} / {u(env['alphabet'])}", key="C13-R10|rows-letters")
    okb = None
    if isinstance(B, ast.ListComp) and len(B.generators) == 1 and not B.generators[0].ifs:
        it = u(B.generators[0].iter)
        v = u(B.generators[0].target)
        if it in (d, f"{d}.keys()") and u(B.elt) == f"{bg}[{v}]":
            okb = True
        elif it in (bg, f"{bg}.keys()", f"{bg}.values()", f"{bg}.items()"):
            okb = False
    elif u(B) in (f"{bg}.values()",):
        okb = False
    if okb is None:
        raise Unrecognised(f"{f.where}: background vector `{u(B)}`")
    ctx.ob(f.where, "the background probability of row i is looked up by row i's own letter (the background dict's own order is irrelevant)", okb, u(B), key="C13-R10|background-by-key", definite=True)
    g = ix.func(PW, "PWM.as_valid_encoded_array")
    sq = g.params[1]
    cfg = CFG(g.node)
    envg = local_env(g.node)
    n = 0
    for r in cfg.nodes:
        if not (r.kind == "stmt" and isinstance(r.ast, ast.Return) and u(r.ast.value) == sq):
            continue
        n += 1
        facts = set()
        for t, lab in cfg.guards(r):
            facts |= edge_facts(t, lab, envg)
        pre = {f"(list(self._alphabet))==(list({sq}.encoding.get_alphabet())[:len(self._alphabet)])", f"(list({sq}.encoding.get_alphabet())[:len(self._alphabet)])==(list(self._alphabet))"}
        okpre = any(v and k in pre for k, v in facts)
        okmax = any((not v) and k == f"(len(self._alphabet))<=(np.max({sq}.raw()))" for k, v in facts)
        about = [k for k, v in facts if "get_alphabet" in k or "_alphabet" in k]
        if not okpre and any(("==" in k and "[:" in k) for k in about):
            raise Unrecognised(f"{g.where}: alphabet comparison `{about}`")
        ctx.ob(g.where, "an already encoded sequence is scored as it is only if its alphabet starts with the matrix alphabet in the same order (code i must mean matrix row i)",
               okpre, f"guards: {sorted(about)}", key="C13-R10|prefix-order", definite=True)
        ctx.ob(g.where, "... and only if none of its codes lies beyond the matrix rows", okmax, "", key="C13-R10|codes-in-range", definite=True)
    ctx.floor("pass-through returns of PWM.as_valid_encoded_array", n, 1)


RULES = [
    ("C13-R1", r1_trailing_trim),
    ("C13-R2", r2_hash_weights),
    ("C13-R3", r3_minimizer_algebra),
    ("C13-R4", r4_shape_provenance),
    ("C13-R5", r5_coverage_and_accumulation),
    ("C13-R6", r6_label_cache_keys),
    ("C13-R7", r7_exact_match_and_short_input),
    ("C13-T1", _through_time),
    ("C13-T2", _small_edits),
    ("C13-R8", _delta_arrays),
    ("C13-R9", _counts_not_written_in_place),
    ("C13-R10", r10_pwm_letters),
]
