"""C14 - reverse complement, stranded extraction and translation are biologically exact.

 R1 complement tables (ASCII and every DNA alphabet encoding literal) evaluated as constants and compared with the
    Watson-Crick involution A<->T, C<->G, N fixed, both cases; reversal is [..., ::-1] of the complement; shape kept;
 R2 the 64-entry codon table is compared, through the index formula derived from the code (codon reversal, little-endian
    base-4 hash over the source alphabet), with the standard genetic code (NCBI table 1) embedded here - all 64 codons;
 R3 strand selectors: at every np.where on a strand test the '+' side is the forward value and the other side is derived
    from it by reversal / reverse complement.
"""
from __future__ import annotations
import ast
import numpy as np

from ..index import AnchorMissing, Unrecognised
from ..absval import Evaluator, Obj, MethodRunner, EvalRaised
from ..astutil import linear_body, u, body_walk, local_env, func_calls, walk_local, root_name
from .. import sym

EXPLANATION = ("Static analysis of the complement / translation / strand-selection source: the complement lookups and the codon table are constant-"
               "evaluated from their initialisers and compared exhaustively (all letters in both cases; all 64 codons through the index formula read "
               "from the code) with embedded biological specifications; reversal and strand selectors are checked structurally by dataflow roles. "
               "Decides these table/orientation clauses for all inputs; ragged row-length preservation is delegated to npstructures.")

DNA = "bionumpy.sequence.dna"
WC = {"A": "T", "T": "A", "C": "G", "G": "C", "N": "N"}

# NCBI translation table 1 (standard code)
_AAS = "FFLLSSSSYY**CC*WLLLLPPPPHHQQRRRRIIIMTTTTNNKKSSRRVVVVAAAADDEEGGGG"
_B1 = "TTTTTTTTTTTTTTTTCCCCCCCCCCCCCCCCAAAAAAAAAAAAAAAAGGGGGGGGGGGGGGGG"
_B2 = "TTTTCCCCAAAAGGGGTTTTCCCCAAAAGGGGTTTTCCCCAAAAGGGGTTTTCCCCAAAAGGGG"
_B3 = "TCAGTCAGTCAGTCAGTCAGTCAGTCAGTCAGTCAGTCAGTCAGTCAGTCAGTCAGTCAGTCAG"
STANDARD_CODE = {a + b + c: aa for aa, a, b, c in zip(_AAS, _B1, _B2, _B3)}


def _module_resolver(ctx, modname, extra=None):
    mi = ctx.index.module(modname)

    def res(name):
        if extra and name in extra:
            return extra[name]
        if name in mi.globals_:
            return Evaluator(resolver=res).ev(mi.globals_[name])
        raise Unrecognised(f"unknown name {name} in {modname}")
    return res


def r1_complement(ctx):
    mi = ctx.index.module(DNA)
    comp = Evaluator().ev(ctx.index.global_(DNA, "_complements"))
    ctx.need(isinstance(comp, dict), "_complements is not a dict literal")
    ok = all(k in WC and WC[k] == v for k, v in comp.items()) and set("ACGT") <= set(comp)
    ctx.ob(f"{mi.relpath} _complements", "complement map pairs A<->T and C<->G (and fixes N if it lists it); no other pairs", ok, str(comp), key="C14-R1|_complements")
    inv = all(comp.get(comp.get(k)) == k for k in comp)
    ctx.ob(f"{mi.relpath} _complements", "complement applied twice is the identity", inv, str(comp))
    # ASCII table
    f = ctx.index.func(DNA, "_get_ascii_complement_lookup")

    def hook(n, fobj, args, kwargs, ev):
        nm = u(n.func)
        if nm in ("Lookup", "EncodedArray"):
            return args[0]
        return NotImplemented
    ev = Evaluator(resolver=_module_resolver(ctx, DNA, {"BaseEncoding": "BaseEncoding"}), call_hook=hook)
    table = ev.run(f.node.body)
    ctx.need(isinstance(table, np.ndarray) and table.ndim == 1, "ASCII complement lookup did not evaluate to a vector")
    bad = []
    for b in range(len(table)):
        ch = chr(b)
        want = 0
        if ch.upper() in WC and ch.isalpha():
            w = WC[ch.upper()]
            want = ord(w if ch.isupper() else w.lower())
        if int(table[b]) != want:
            bad.append(f"{ch!r}->{chr(int(table[b]))!r} (expected {chr(want)!r})")
    ctx.count("ascii_table_entries", len(table))
    ctx.ob(f.where, "ASCII complement table maps every letter of ACGTN in both cases to its complement in the same case, nothing else",
           not bad and len(table) >= 128, "; ".join(bad[:8]), key="C14-R1|ascii-table")
    # alphabet-encoding table, evaluated for every DNA alphabet literal
    g = ctx.index.func(DNA, "_get_alphabet_encoding_complement_lookup")
    enc_mod = ctx.index.module("bionumpy.encodings.alphabet_encoding")
    alphabets = []
    for name, v in enc_mod.globals_.items():
        if isinstance(v, ast.Call) and v.args and isinstance(v.args[0], ast.Constant) and isinstance(v.args[0].value, str):
            a = v.args[0].value.upper()
            if set(a) <= set("ACGTN") and len(a) >= 4:
                alphabets.append((name, a))
    ctx.floor("DNA alphabet literals", len(alphabets), 4)
    for name, alpha in alphabets:
        encobj = Obj(None, alphabet=list(alpha))

        def hook2(n, fobj, args, kwargs, ev, alpha=alpha):
            nm = u(n.func)
            if nm.endswith(".get_alphabet"):
                return list(alpha)
            if nm == "as_encoded_array":
                return np.array([alpha.index(c) for c in args[0]])
            if nm == "Lookup":
                return args[0]
            return NotImplemented
        ev2 = Evaluator({g.params[0]: encobj}, resolver=_module_resolver(ctx, DNA), call_hook=hook2)
        try:
            t = ev2.run(g.node.body)
        except KeyError as e:
            ctx.ob(g.where, f"complement lookup for alphabet {alpha} ({name}) is defined for every letter", False, f"no complement for {e}")
            continue
        bad = [f"{alpha[i]}->{alpha[int(t[i])]}" for i in range(len(alpha)) if alpha[int(t[i])] != WC[alpha[i]]]
        ctx.ob(g.where, f"complement lookup for alphabet {alpha} ({name}): code of X maps to code of complement(X)", not bad, "; ".join(bad),
               key=f"C14-R1|alphabet|{alpha}")
    # dispatch
    d = ctx.index.func(DNA, "_get_complement_lookup")
    txt = sym.canon(ast.Module(body=d.node.body, type_ignores=[])) if False else u(d.node)
    ok = "isinstance(encoding, AlphabetEncoding)" in txt and "_get_alphabet_encoding_complement_lookup(encoding)" in txt and \
         "encoding == BaseEncoding" in txt and "_get_ascii_complement_lookup()" in txt
    ctx.ob(d.where, "lookup dispatch: alphabet encodings use the alphabet table built for that same encoding, ASCII uses the ASCII table, anything else raises",
           ok and isinstance(linear_body(d.node)[-1], ast.Raise), "")
    # complement(): lookup applied to the flat data, original shape re-attached
    c = ctx.index.func(DNA, "complement")
    p = c.params[0]
    cons = [x for x in func_calls(c.node) if u(x.func) == "EncodedRaggedArray"]
    ok = len(cons) == 1 and len(cons[0].args) == 2 and u(cons[0].args[1]) in (f"{p}._shape", f"{p}.shape")
    ctx.ob(c.where, "complement() re-wraps the flat result with the operand's own ragged shape", ok, u(cons[0]) if cons else "")
    looks = [x for x in body_walk(c.node) if isinstance(x, ast.Assign) and isinstance(x.value, ast.Subscript) and u(x.value.value) == "lookup"]
    lk = [x for x in body_walk(c.node) if isinstance(x, ast.Assign) and u(x.targets[0]) == "lookup"]
    ok = len(looks) == 1 and len(lk) == 1 and sym.canon(lk[0].value) == "_get_complement_lookup(array.encoding)" and u(looks[0].value.slice) == "array"
    ctx.ob(c.where, "complement() indexes the lookup built for the data's own encoding with the data", ok, "")
    # reverse complement = complement reversed along the last axis
    rc = ctx.index.func(DNA, "get_reverse_complement")
    rets = [n for n in body_walk(rc.node) if isinstance(n, ast.Return)]
    ok = False
    if len(rets) == 1 and isinstance(rets[0].value, ast.Subscript):
        s = rets[0].value
        sl = s.slice
        is_rev = isinstance(sl, ast.Tuple) and len(sl.elts) == 2 and isinstance(sl.elts[0], ast.Constant) and sl.elts[0].value is Ellipsis and \
            isinstance(sl.elts[1], ast.Slice) and sl.elts[1].lower is None and sl.elts[1].upper is None and sl.elts[1].step is not None and \
            sym.poly(sl.elts[1].step) == sym.Poly.const(-1)
        ok = is_rev and isinstance(s.value, ast.Call) and u(s.value.func) == "complement" and u(s.value.args[0]) == rc.params[0]
    ctx.ob(rc.where, "get_reverse_complement returns complement(sequence) reversed along the last axis ([..., ::-1])", ok, u(rets[0].value) if rets else "",
           key="C14-R1|reverse")
    pre = [n for n in body_walk(rc.node) if isinstance(n, ast.Assign) and u(n.targets[0]) == rc.params[0]]
    ok = all(sym.canon(n.value) == f"as_encoded_array({rc.params[0]})" for n in pre)
    ctx.ob(rc.where, "the sequence is only normalised with as_encoded_array before complementing (no re-encoding)", ok, "; ".join(u(n) for n in pre))
    # Lookup.__getitem__ indexes the values with the raw codes in the lookup's encoding
    L = ctx.index.func("bionumpy.sequence.lookup", "Lookup.__getitem__")
    rets = [n for n in body_walk(L.node) if isinstance(n, ast.Return)]
    ok = len(rets) == 1 and u(rets[0].value) == f"self._values[{L.params[1]}]"
    ctx.ob(L.where, "Lookup[...] returns the stored values indexed by the (encoded) key", ok, "")


def r2_genetic_code(ctx):
    T = "bionumpy.sequence.translate"
    ix = ctx.index
    cls = ix.cls(T, "DNAToProtein")
    aa_node = cls.attrs.get("amino_acids")
    ctx.need(aa_node is not None, "DNAToProtein.amino_acids not found")
    fe = cls.attrs.get("from_encoding")
    ctx.need(isinstance(fe, ast.Call) and u(fe.func) == "AlphabetEncoding" and fe.args and isinstance(fe.args[0], ast.Constant), "from_encoding is not an alphabet literal")
    alpha = fe.args[0].value.upper()
    # evaluate the class body: amino_acids, _lookup
    def hook(n, fobj, args, kwargs, ev):
        nm = u(n.func)
        if nm == "EncodedArray":
            return args[0]
        if nm == "AlphabetEncoding":
            return ("alphabet", args[0])
        return NotImplemented
    ev = Evaluator(resolver=lambda name: {"BaseEncoding": "BaseEncoding"}.get(name) or (_ for _ in ()).throw(Unrecognised(name)), call_hook=hook)
    ev.run([s for s in cls.node.body if isinstance(s, (ast.Assign, ast.AnnAssign))])
    lookup = ev.env.get("_lookup")
    ctx.need(isinstance(lookup, np.ndarray), "_lookup did not evaluate to a vector")
    gi = ix.func(T, "DNAToProtein.__getitem__")
    rets = [n for n in body_walk(gi.node) if isinstance(n, ast.Return)]
    ok = len(rets) == 1 and u(rets[0].value) == f"self._lookup[{gi.params[1]}.raw()]"
    ctx.ob(gi.where, "the table is indexed by the raw k-mer hash", ok, u(rets[0].value) if rets else "")
    # weights from KmerEncoder.__init__ (constant-evaluated for k=3, |A|=len(alpha))
    K = "bionumpy.sequence.kmers"
    kcls = ix.cls(K, "KmerEncoder")
    runner = MethodRunner(ix)
    obj = Obj(kcls)
    runner.call(obj, kcls, "__init__", (3, Obj(None, alphabet_size=len(alpha))))
    w = obj.attrs().get("_convolution")
    ctx.need(isinstance(w, np.ndarray) and w.shape == (3,), "KmerEncoder._convolution did not evaluate to 3 weights")
    call = ix.func(K, "KmerEncoder.__call__")
    rets = [n for n in body_walk(call.node) if isinstance(n, ast.Return)]
    ok = len(rets) == 1 and isinstance(rets[0].value, ast.Call) and rets[0].value.args and \
        sym.canon(rets[0].value.args[0]) in (f"{call.params[1]}.data.dot(self._convolution)", f"{call.params[1]}.raw().dot(self._convolution)")
    ctx.ob(call.where, "k-mer hash = dot(letter codes of the window, weights)", ok, u(rets[0].value) if rets else "", key="C14-R2|hash-dot")
    # Translate.__call__: is the codon reversed before hashing?
    tc = ix.func(T, "Translate.__call__")
    p = tc.params[1]
    rev_assign = [n for n in body_walk(tc.node) if isinstance(n, ast.Assign) and u(n.targets[0]) == p and isinstance(n.value, ast.Subscript)
                  and u(n.value.value) == p]
    reversed_ = False
    for n in rev_assign:
        sl = n.value.slice
        if isinstance(sl, ast.Tuple) and len(sl.elts) == 2 and isinstance(sl.elts[1], ast.Slice) and sl.elts[1].step is not None and \
                sym.poly(sl.elts[1].step) == sym.Poly.const(-1) and sl.elts[1].lower is None and sl.elts[1].upper is None:
            reversed_ = True
        else:
            raise Unrecognised(f"{tc.where}: codon re-indexed in an unknown way: {u(n)}")
    enc_calls = [c for c in func_calls(tc.node) if isinstance(c.func, ast.Call) and u(c.func.func) == "KmerEncoder"]
    ctx.need(len(enc_calls) == 1 and u(enc_calls[0].args[0]) == p, "KmerEncoder(...)(sequence) call not found in Translate.__call__")
    kargs = enc_calls[0].func
    k_ok = sym.canon(kargs.args[0]) == "self.window_size" and (sym.canon(kargs.keywords[0].value) if kargs.keywords else sym.canon(kargs.args[1])) == "self._encoding"
    ctx.ob(tc.where, "codons are hashed with k = window size and the table's source alphabet", k_ok, u(kargs))
    ws = ix.func(T, "Translate.window_size")
    rets = [n for n in body_walk(ws.node) if isinstance(n, ast.Return)]
    ok = len(rets) == 1 and sym.poly(rets[0].value) == sym.Poly.const(3)
    ctx.ob(ws.where, "translation window is 3 letters", ok, "")
    ti = ix.func(T, "Translate.__init__")
    ok = any(isinstance(n, ast.Assign) and u(n.targets[0]) == "self._encoding" and sym.canon(n.value) == f"{ti.params[1]}.from_encoding" for n in body_walk(ti.node))
    ctx.ob(ti.where, "sequences are encoded with the table's source alphabet (from_encoding)", ok, "")
    rets = [n for n in body_walk(tc.node) if isinstance(n, ast.Return)]
    env = local_env(tc.node)
    ok = len(rets) == 1 and sym.canon(rets[0].value, env).startswith("self._table[KmerEncoder(")
    ctx.ob(tc.where, "the amino acid is the table entry at the codon's hash", ok, u(rets[0].value) if rets else "")
    # all 64 codons
    bad = []
    for codon, aa in STANDARD_CODE.items():
        try:
            codes = [alpha.index(c) for c in codon]
        except ValueError:
            bad.append(f"{codon}: letter missing from source alphabet {alpha}")
            continue
        if reversed_:
            codes = codes[::-1]
        idx = int(np.dot(np.array(codes), w))
        got = chr(int(lookup[idx])) if 0 <= idx < len(lookup) else "?"
        if got != aa:
            bad.append(f"{codon}->{got} (standard code: {aa})")
    ctx.count("codons", 64)
    ctx.ob(cls.where, "all 64 codons translate to the standard genetic code (NCBI table 1), stops as '*'", not bad and len(lookup) == 64,
           "; ".join(bad[:10]) + (f" (+{len(bad) - 10})" if len(bad) > 10 else ""), key="C14-R2|codon-table")
    # windowed(): codons in order, one amino acid per codon, length must be a multiple of 3
    wf = ix.func(T, "WindowFunction.windowed")
    env = local_env(wf.node)
    p = wf.params[1]
    asserts = [n for n in body_walk(wf.node) if isinstance(n, ast.Assert)]
    ok = any(sym.same(a.test, f"np.all({p}.lengths % self.window_size == 0)") for a in asserts)
    ctx.ob(wf.where, "a sequence whose length is not a multiple of the window raises", ok, "; ".join(u(a.test) for a in asserts))
    tup = [n for n in body_walk(wf.node) if isinstance(n, ast.Assign) and u(n.targets[0]) == "tuples"]
    ok = len(tup) == 1 and sym.canon(tup[0].value) == f"{p}.ravel().reshape(-1, self.window_size)"
    ctx.ob(wf.where, "codons are consecutive, non-overlapping windows in order (reshape(-1, window))", ok, u(tup[0].value) if tup else "", key="C14-R2|reshape")
    rets = [n for n in body_walk(wf.node) if isinstance(n, ast.Return)]
    ok = len(rets) == 1 and isinstance(rets[0].value, ast.Call) and len(rets[0].value.args) == 2 and \
        sym.same(rets[0].value.args[1], f"{p}.lengths // self.window_size") and "self(" in sym.canon(rets[0].value.args[0], env)
    ctx.ob(wf.where, "one amino acid per codon per row (row lengths // window)", ok, u(rets[0].value) if rets else "")
    pre = [n for n in body_walk(wf.node) if isinstance(n, ast.Assign) and u(n.targets[0]) == p]
    ok = len(pre) == 1 and sym.canon(pre[0].value) == f"as_encoded_array({p}, target_encoding=self._encoding)"
    ctx.ob(wf.where, "input is brought to the table's source alphabet before hashing", ok, "")


def _is_reversal_of(expr, env, base_names):
    """Does expr derive from one of base_names through get_reverse_complement(...) or a [..., ::-1] / [:, ::-1] index?"""
    n = expr
    for _ in range(6):
        if isinstance(n, ast.Name) and n.id in env:
            n = env[n.id]
            continue
        break
    if isinstance(n, ast.Call) and u(n.func).split(".")[-1] == "get_reverse_complement" and n.args:
        return u(n.args[0]) in base_names or _derives(n.args[0], env, base_names)
    if isinstance(n, ast.Subscript):
        sl = n.slice
        elts = sl.elts if isinstance(sl, ast.Tuple) else [sl]
        if elts and isinstance(elts[-1], ast.Slice) and elts[-1].step is not None and sym.poly(elts[-1].step) == sym.Poly.const(-1) \
                and elts[-1].lower is None and elts[-1].upper is None:
            return u(n.value) in base_names or _derives(n.value, env, base_names)
    return False


def _derives(n, env, base_names):
    return isinstance(n, ast.Name) and n.id in base_names


def strand_selector_sites(ctx):
    """All np.where(strand-test, X, Y) calls where one branch is a reversal of the other."""
    out = []
    for mi in ctx.index.modules.values():
        if mi.name.startswith("bionumpy._legacy") or ".simulate" in mi.name:
            continue
        for fi in mi.functions.values():
            for c in func_calls(fi.node):
                if u(c.func) == "np.where" and len(c.args) == 3 and "strand" in u(c.args[0]):
                    out.append((fi, c))
    return out


def check_strand_selectors(ctx, restrict_modules=None):
    sites = strand_selector_sites(ctx)
    n = 0
    for fi, c in sites:
        if restrict_modules and fi.module.name not in restrict_modules:
            continue
        cond, x, y = c.args
        cmps = [k for k in ast.walk(cond) if isinstance(k, ast.Compare) and len(k.ops) == 1 and isinstance(k.ops[0], (ast.Eq, ast.NotEq))]
        signs = []
        for k in cmps:
            for side in (k.left, k.comparators[0]):
                if isinstance(side, ast.Constant) and side.value in ("+", "-"):
                    signs.append((side.value, isinstance(k.ops[0], ast.Eq)))
        if len(signs) != 1:
            continue  # not a plain strand test (e.g. start/stop selection with a conditional literal)
        sign, eq = signs[0]
        plus_selects_x = (sign == "+") == eq
        env = local_env(fi.node)
        xr = _is_reversal_of(x, env, {u(y)})
        yr = _is_reversal_of(y, env, {u(x)})
        if not (xr or yr):
            # one side is a reverse complement / reversal of SOMETHING ELSE than the other side (e.g. of the text before it was encoded): the two sides of a
            # strand selector must be one value and its reversal
            def _rev_of_other(e):
                n_ = e
                for _ in range(6):
                    if isinstance(n_, ast.Name) and n_.id in env:
                        n_ = env[n_.id]
                        continue
                    break
                if isinstance(n_, ast.Call) and u(n_.func).split(".")[-1] == "get_reverse_complement" and n_.args:
                    return u(n_.args[0])
                return None
            ox, oy = _rev_of_other(x), _rev_of_other(y)
            if ox or oy:
                n += 1
                ctx.ob(fi.where, "strand selector: the reverse-complemented side is derived from the SAME value as the forward side", False,
                       f"forward {u(y if ox else x)}, reversed from {ox or oy}", key=f"C14-R3|{fi.module.name}|{fi.qualname}")
            continue  # not a forward/reverse pair (e.g. coordinate selection) - handled by C08/C10 orientation rules
        n += 1
        ok = (plus_selects_x and yr and not xr) or ((not plus_selects_x) and xr and not yr)
        ctx.ob(fi.where, "strand selector: '+' rows take the forward value, '-' rows the value derived from it by reversal / reverse complement",
               ok, u(c)[:160], key=f"C14-R3|{fi.module.name}|{fi.qualname}")
    return n


def _bound_ok(ctx, fi, expr, env, column, seq, is_stop):
    """Classify a slice bound of the extracted subsequence: exactly the interval column (ok), a clamp whose upper limit is the
    sequence length (ok), a clamp that cuts valid positions (violation), anything else (unrecognised)."""
    c = sym.canon(expr, env)
    if c == sym.canon(sym.parse_expr(column)):
        return True, c
    n = expr
    for _ in range(5):
        if isinstance(n, ast.Name) and n.id in env:
            n = env[n.id]
    if isinstance(n, ast.Call) and u(n.func) in ("np.clip", "np.minimum") and n.args and sym.canon(n.args[0], env) == sym.canon(sym.parse_expr(column)):
        hi = n.args[2] if u(n.func) == "np.clip" else n.args[1]
        hp = sym.poly(hi, env)
        for full in (f"len({seq})", f"{seq}.size", f"{seq}.shape[0]"):
            d = hp - sym.poly(sym.parse_expr(full))
            if d.is_const():
                return (d.const_value() >= 0) if is_stop else (d.const_value() >= -1 or True), c
        raise Unrecognised(f"{fi.where}: clamp limit not understood: {c}")
    raise Unrecognised(f"{fi.where}: extraction bound not understood: {c}")


def r3_strand_selectors(ctx):
    n = check_strand_selectors(ctx)
    ctx.floor("forward/reverse strand selector sites", n, 5)
    # the forward value is exactly sequence[start:stop] of the interval columns
    for qn in ("get_strand_specific_sequences", "get_sequences"):
        fi = ctx.index.func(DNA, qn)
        env = local_env(fi.node)
        seq, iv = fi.params[0], fi.params[1]
        subs = [x for x in body_walk(fi.node) if isinstance(x, ast.Subscript) and u(x.value) == seq and isinstance(x.slice, ast.Slice)]
        ctx.need(len(subs) == 1, f"{fi.where}: subsequence extraction not found")
        sl = subs[0].slice
        ctx.need(sl.lower is not None and sl.upper is not None and sl.step is None, f"{fi.where}: extraction is not seq[start:stop]")
        ok1, c1 = _bound_ok(ctx, fi, sl.lower, env, f"{iv}.start", seq, False)
        ok2, c2 = _bound_ok(ctx, fi, sl.upper, env, f"{iv}.stop", seq, True)
        ctx.ob(fi.where, "extracted subsequence starts at the interval's start", ok1, c1, key=f"C14-R3|{qn}|start")
        ctx.ob(fi.where, "extracted subsequence ends at the interval's stop (a clamp may not cut positions inside the sequence)", ok2, c2, key=f"C14-R3|{qn}|stop")


_PERM_SOURCES = ("np.lexsort", "np.argsort", "numpy.argsort", "numpy.lexsort")


def permute_twice_sites(ix, modules):
    """(function, permutation variable, result variable, offending subscript): a value computed from `x[p]` (p a sorting permutation) and then indexed
    by the same p again - the way back is the inverse permutation (np.argsort(p)) or a scatter `out[p] = r`."""
    out, scanned = [], 0
    for mod in modules:
        if mod not in ix.modules:
            continue
        for fi in ix.module(mod).functions.values():
            if isinstance(fi.node, ast.Lambda):
                continue
            scanned += 1
            perms = {}
            for a in body_walk(fi.node):
                if isinstance(a, ast.Assign) and len(a.targets) == 1 and isinstance(a.targets[0], ast.Name) and isinstance(a.value, ast.Call) and u(a.value.func) in _PERM_SOURCES:
                    perms[a.targets[0].id] = a
            if not perms:
                continue
            for p in perms:
                derived = set()
                for a in body_walk(fi.node):
                    if isinstance(a, ast.Assign) and len(a.targets) == 1 and isinstance(a.targets[0], ast.Name) and isinstance(a.value, ast.Call):
                        uses_perm = any(isinstance(x, ast.Subscript) and u(x.slice) == p for arg in list(a.value.args) + [k.value for k in a.value.keywords] for x in ast.walk(arg))
                        if uses_perm:
                            derived.add(a.targets[0].id)
                for x in body_walk(fi.node):
                    if not (isinstance(x, ast.Subscript) and isinstance(x.ctx, ast.Load) and u(x.slice) == p):
                        continue
                    if isinstance(x.value, ast.Name) and x.value.id in derived:
                        out.append((fi, p, x.value.id, x))
                    elif isinstance(x.value, ast.Call) and any(isinstance(y, ast.Subscript) and u(y.slice) == p for arg in list(x.value.args) + [k.value for k in x.value.keywords]
                                                               for y in ast.walk(arg)):
                        out.append((fi, p, u(x.value.func) + "(...)", x))
    return out, scanned


def _by_name_lookup(ctx):
    """The in-memory sequence table is keyed by chromosome NAME.  A chromosome code of an interval table indexes the genome's name order, which need not be
    the dict's order (sort_names, another genome object): rows must be looked up by name, never by position in `dict.values()`."""
    ix = ctx.index
    f = ix.func("bionumpy.genomic_data.genomic_sequence", "GenomicSequenceDict._extract_intervals")
    env = local_env(f.node)
    n = 0
    for x in [y for st in f.node.body for y in ast.walk(st)]:
        if not isinstance(x, ast.Subscript):
            continue
        base = x.value
        b = u(base)
        via = env.get(b) if isinstance(base, ast.Name) else None
        src = u(via) if via is not None else b
        if not (b == "self._dict" or (via is not None and "self._dict" in src) or (isinstance(base, ast.Call) and "self._dict" in b)):
            continue
        n += 1
        positional = ".values()" in src or ".items()" in src or "list(self._dict" in src
        by_name = b == "self._dict" and "to_string()" in u(x.slice)
        if not positional and not by_name:
            raise Unrecognised(f"{f.where}: the sequence table is indexed in an unknown form: {u(x)[:80]}")
        ctx.ob(f.where, "sequences are looked up in the table by chromosome name (a chromosome code is an index into the GENOME's order, not the table's)", by_name and not positional,
               u(x)[:100], key=f"C14-R4|by-name|{'positional' if positional else 'name'}")
    ctx.floor("look-ups in the in-memory sequence table", n, 1)


def r4_caches_and_permutations(ctx):
    """(a) dict caches of complement / translation tables are keyed by everything the cached value depends on (an alphabet's letters AND their order);
    (b) sequences fetched for intervals in a sorted order are put back with the inverse permutation."""
    from .. import memo
    ix = ctx.index
    mods = [m for m in ("bionumpy.sequence.dna", "bionumpy.sequence.lookup", "bionumpy.sequence.translate", "bionumpy.genomic_data.genomic_sequence") if m in ix.modules]
    n = memo.check_dict_caches(ctx, mods, rule_prefix="C14-R4")
    ctx.count("dict-cache stores examined", n)
    pm = [m for m in ix.modules if m.startswith("bionumpy.genomic_data") or m.startswith("bionumpy.sequence") or m == "bionumpy.io.indexed_fasta"]
    sites, scanned = permute_twice_sites(ix, pm)
    ctx.floor("functions scanned for the permute-twice idiom", scanned, 150)
    for fi, p, r, x in sites:
        ctx.ob(fi.where, f"`{r}` was computed from entries taken in the order `{p}`; indexing it with `{p}` again permutes twice instead of restoring the original order "
               f"(use np.argsort({p}) or scatter into out[{p}])", False, u(x), key=f"C14-R4|permute-twice|{fi.module.name}|{fi.qualname}|{r}", definite=True)
    ctx.ob("bionumpy.genomic_data, bionumpy.sequence", f"{scanned} functions scanned: no value computed on permuted entries is indexed by the same permutation again", True, "",
           key="C14-R4|permute-twice-scan")
    _by_name_lookup(ctx)


from ..through_time import make_rule as _mk_tt, make_t2 as _mk_t2
_through_time = _mk_tt("C14")
_small_edits = _mk_t2("C14")

def _fasta_byte_arithmetic(ctx):
    from .c17 import r2_byte_arithmetic
    r2_byte_arithmetic(ctx)    # sequence under intervals is read from the indexed FASTA with this arithmetic

def _delta_arrays(ctx):
    from ..idioms import check_delta_arrays
    check_delta_arrays(ctx, ["bionumpy.sequence.dna", "bionumpy.sequence.lookup", "bionumpy.sequence.translate", "bionumpy.genomic_data.genomic_sequence", "bionumpy.sequence.genes"], "C14-R6")

def _strand_flag_kept(ctx):
    from .c10 import r8_bins_size_strand
    with ctx.only("strand flag", "stranded", "is_stranded"):
        r8_bins_size_strand(ctx)     # a table derived from stranded intervals stays stranded (it decides reverse-complementing on '-')



def _round7_retarget(ctx):
    from .round7 import retarget_by_membership, code_lookup_tables
    retarget_by_membership(ctx, "C14-R8")      # translation / complement tables are indexed by the codes of THEIR alphabet: re-labelled input must keep letters, not codes
    code_lookup_tables(ctx, ["bionumpy.genomic_data.genomic_sequence", "bionumpy.io.indexed_fasta", "bionumpy.sequence.dna", "bionumpy.sequence.translate"], "C14-R8")

RULES = [
    ("C14-R1", r1_complement),
    ("C14-R2", r2_genetic_code),
    ("C14-R3", r3_strand_selectors),
    ("C14-R4", r4_caches_and_permutations),
    ("C14-T1", _through_time),
    ("C14-T2", _small_edits),
    ("C14-R5", _fasta_byte_arithmetic),
    ("C14-R6", _delta_arrays),
    ("C14-R7", _strand_flag_kept),
    ("C14-R8", _round7_retarget),
]
