"""C04 - unmodified records and fields are written back byte-for-byte.

 R1 pass-through: the lazy table returns the raw record bytes only when no field was assigned (and the buffer class is compatible); in the
    modified branch a field contributes its new column iff its name is among the assigned ones, otherwise its original text;
 R2 aligned stores (F-ALIGN): every extractor / buffer derivation (__getitem__, concatenate, compaction) treats all row-aligned stores
    alike: same index on every per-row store, cumulative data-size shift on every offset-typed store and on no length-typed one,
    compaction re-bases every offset-typed store consistently;
 R3 memo coherence: no memoised value of an extractor outlives a rebinding of what it was computed from;
 R4 "rest of line" columns: the column index from which trailing columns are fetched equals the entry type's field count;
 R5 record ranges: a record's end offset is derived from the raw line end (not the carriage-return-adjusted field end), its start from
    the first field, so selected records keep their terminators.
"""
from __future__ import annotations
import ast

from ..index import AnchorMissing, Unrecognised
from ..cfg import CFG
from ..astutil import (linear_body, u, body_walk, local_env, func_calls, walk_local, single_return_expr, inline_locals, symbolic_state_after, straightline_return)
from ..pend import edge_facts
from .. import sym, schema

EXPLANATION = ("Static aligned-state analysis of the buffer extractors and the lazy table: every operation that derives a new extractor/buffer from an old "
               "one is reduced to the constructor call it returns and compared store by store (data kept, per-row stores indexed alike, offset-typed "
               "stores shifted by the cumulative data size, length-typed ones not); in-place compaction is symbolically executed and its final state "
               "compared with the re-basing identities; the lazy table's write path is checked on its CFG for the pass-through guard and the "
               "per-field choice. Holds for every selection/concatenation history; numeric correctness of offsets on concrete data is not observed.")

FB = "bionumpy.io.file_buffers"
LZ = "bionumpy.bnpdataclass.lazybnpdataclass"
LAZY = "create_lazy_class.<locals>.NewClass"

# constructor parameter -> (attribute, kind) ; kinds: data, offset, length, const, flag
STORES = {
    (FB, "TextBufferExtractor"): {"data": ("_data", "data"), "field_starts": ("_field_starts", "offset"), "field_lens": ("_field_lens", "length")},
    (FB, "TextThroughputExtractor"): {"data": ("_data", "data"), "field_starts": ("_field_starts", "offset"), "field_lens": ("_field_lens", "length"),
                                       "entry_starts": ("_entry_starts", "offset"), "entry_ends": ("_entry_ends", "offset"), "is_contiguous": ("_is_contiguous", "flag")},
    ("bionumpy.io.named_text_buffer", "NamedBufferExtractor"): {"data": ("_data", "data"), "field_starts": ("_field_starts", "offset"), "field_lens": ("_field_lens", "length"),
                                                                 "names": ("_names", "const")},
}


def _ctor_args(ix, mod, clsname, call):
    """parameter name -> argument expression of a constructor call of the class."""
    cls = ix.cls(mod, clsname)
    init = ix.lookup_method(cls, "__init__")
    params = [a.arg for a in init.node.args.args][1:]
    out = {}
    for i, a in enumerate(call.args):
        if i < len(params):
            out[params[i]] = a
    for k in call.keywords:
        if k.arg:
            out[k.arg] = k.value
    return out


def r1_pass_through(ctx):
    f = ctx.index.func(LZ, f"{LAZY}.get_buffer")
    g = CFG(f.node)
    rets = g.stmt_nodes(ast.Return)
    raw = [r for r in rets if sym.canon(r.ast.value) == "self._itemgetter.buffer.data.ravel()"]
    ctx.floor("raw-bytes return of the lazy table", len(raw), 1)
    bc = f.params[1]
    for r in raw:
        facts = set()
        for t, lab in g.guards(r):
            facts |= edge_facts(t, lab)
        ok1 = ("self._set_values", False) in facts
        ok2 = (f"issubclass(self._itemgetter.buffer.__class__, {bc})", True) in facts
        ctx.ob(f.where, "original record bytes are returned only when no field has been assigned", ok1, str(sorted(facts)), key="C04-R1|guard-set-values")
        ctx.ob(f.where, "original record bytes are returned only for a compatible target buffer class", ok2, str(sorted(facts)), key="C04-R1|guard-class")
    loops = [n for n in g.nodes if n.kind == "for" and "dataclasses.fields(dataclass)" in u(n.ast.iter)]
    comps = [c for c in walk_local(f.node) if isinstance(c, ast.ListComp) and len(c.generators) == 1 and "dataclasses.fields(dataclass)" in u(c.generators[0].iter)]
    seen = {}
    if len(loops) == 1 and u(loops[0].ast.iter) == "enumerate(dataclasses.fields(dataclass))":
        iv, fv = (e.id for e in loops[0].ast.target.elts)
        apps = [n for n in g.nodes if n.kind == "stmt" and isinstance(n.ast, ast.Expr) and isinstance(n.ast.value, ast.Call) and u(n.ast.value.func) == "columns.append"]
        ctx.need(len(apps) == 2, "modified write: two column sources expected")
        for a in apps:
            facts = set()
            for t, lab in g.guards(a):
                facts |= edge_facts(t, lab)
            pol = [p for c, p in facts if c == f"({fv}.name)in(self._set_values)"]
            seen[pol[0] if pol else None] = sym.canon(a.ast.value.args[0])
    elif not loops and len(comps) == 1 and u(comps[0].generators[0].iter) == "enumerate(dataclasses.fields(dataclass))" and not comps[0].generators[0].ifs \
            and isinstance(comps[0].generators[0].target, ast.Tuple) and len(comps[0].generators[0].target.elts) == 2 and isinstance(comps[0].elt, ast.IfExp):
        # the same per-field choice written as one list comprehension over the fields (in field order)
        iv, fv = (e.id for e in comps[0].generators[0].target.elts)
        e = comps[0].elt
        tc = sym.canon(e.test)
        if tc == f"({fv}.name)in(self._set_values)":
            seen[True], seen[False] = sym.canon(e.body), sym.canon(e.orelse)
        elif tc == f"({fv}.name)not in(self._set_values)" or tc == f"not(({fv}.name)in(self._set_values))":
            seen[False], seen[True] = sym.canon(e.body), sym.canon(e.orelse)
        else:
            raise Unrecognised(f"{f.where}: per-field choice of the modified write is made on `{u(e.test)}`")
        users = [x for x in body_walk(f.node) if isinstance(x, ast.Assign) and x.value is comps[0] and u(x.targets[0]) == "columns"] + \
                [c for c in walk_local(f.node) if isinstance(c, ast.Call) and c.args and c.args[0] is comps[0] and u(c.func) == f"{bc}.join_fields"]
        ctx.need(len(users) == 1, "modified write: the list of columns is not what is joined")
    else:
        raise Unrecognised("per-field loop of the modified write not found")
    want_new = f"get_column({bc}.process_field_for_write({fv}.name, self._set_values[{fv}.name]), {fv}.type)"
    want_old = f"self._itemgetter.buffer.get_field_range_as_text({iv}, 1 + {iv})"
    ctx.ob(f.where, "an assigned field is written from its new value (through the format's write hook and its declared type)", seen.get(True) == want_new, str(seen.get(True)),
           key="C04-R1|new-column")
    ctx.ob(f.where, "a field that was not assigned is written from its original text (column i .. i+1 of the source records)", seen.get(False) == want_old, str(seen.get(False)),
           key="C04-R1|old-column")
    fin = [r for r in rets if sym.canon(r.ast.value) == f"{bc}.join_fields(columns)"]
    ctx.ob(f.where, "the columns are joined in field order by the target format", len(fin) == 1, "", key="C04-R1|join")
    # FileBuffer.data / Delimited get_field_range_as_text
    d = ctx.index.func(FB, "FileBuffer.data")
    ctx.ob(d.where, "a buffer's bytes are its extractor's bytes", sym.same(single_return_expr(d.node), "self._buffer_extractor.data"), "", key="C04-R1|buffer-data")
    gr = ctx.index.func("bionumpy.io.delimited_buffers", "DelimitedBuffer.get_column_range_as_text")
    rets = [n for n in body_walk(gr.node) if isinstance(n, ast.Return)]
    ok = bool(rets) and sym.same(rets[-1].value, f"self._buffer_extractor.get_field_by_number({gr.params[1]})")
    ctx.ob(gr.where, "original text of column i is the extractor's field i (no parsing, no re-formatting)", ok, "", key="C04-R1|column-text")


def _check_getitem(ctx, mod, clsname, stores):
    ix = ctx.index
    fi = ix.func(mod, f"{clsname}.__getitem__")
    idx = fi.params[1]
    rets = [n for n in body_walk(fi.node) if isinstance(n, ast.Return)]
    ctx.need(len(rets) >= 1, f"{fi.where}: no return")
    for r in rets:
        v = r.value
        ctx.need(isinstance(v, ast.Call) and u(v.func) in ("self.__class__", clsname), f"{fi.where}: selection does not return a new {clsname}: {u(v)}")
        args = _ctor_args(ix, mod, clsname, v)
        for p, (attr, kind) in stores.items():
            if kind == "flag":
                ok = p in args and isinstance(args[p], ast.Constant) and args[p].value is False
                ctx.ob(fi.where, f"{clsname}[idx]: the result is marked non-contiguous (its data still holds unselected records)", ok, u(args.get(p)) if p in args else "missing",
                       key=f"C04-R2|{clsname}|getitem|{attr}")
                continue
            want = f"self.{attr}" if kind in ("data", "const") else f"self.{attr}[{idx}]"
            got = sym.canon(args[p]) if p in args else "missing"
            ctx.ob(fi.where, f"{clsname}[idx]: store `{attr}` ({kind}) is " + ("kept" if kind in ("data", "const") else "indexed with the same index as every other per-row store"),
                   got == want, got, key=f"C04-R2|{clsname}|getitem|{attr}")


def _check_concatenate(ctx, mod, clsname, stores):
    ix = ctx.index
    fi = ix.func(mod, f"{clsname}.concatenate")
    bs = fi.params[1]
    env = local_env(fi.node)
    rets = [n for n in body_walk(fi.node) if isinstance(n, ast.Return)]
    ctx.need(len(rets) == 1 and isinstance(rets[0].value, ast.Call) and u(rets[0].value.func) == "cls", f"{fi.where}: concatenate does not return cls(...)")
    args = _ctor_args(ix, mod, clsname, rets[0].value)
    offs = sym.canon(inline_locals(sym.parse_expr("offsets"), env))
    want_offs = sym.canon(sym.parse_expr(f"np.insert(np.cumsum(np.array([b._data.size for b in {bs}])), 0, 0)"))
    ctx.ob(fi.where, f"{clsname}.concatenate: operand k is shifted by the total data size of the operands before it", offs == want_offs, offs, key=f"C04-R2|{clsname}|concatenate|offsets")
    for p, (attr, kind) in stores.items():
        got = sym.canon(inline_locals(args[p], {k: v for k, v in env.items() if k != "offsets"})) if p in args else "missing"
        if kind == "data":
            want = f"np.concatenate([b.{attr} for b in {bs}])"
            what = "data buffers are concatenated in operand order"
        elif kind == "offset":
            want = f"np.concatenate([b.{attr} + offset for b, offset in zip({bs}, offsets)])"
            what = f"offset-typed store `{attr}` is shifted by its operand's offset"
        elif kind == "length":
            want = f"np.concatenate([b.{attr} for b in {bs}])"
            what = f"length-typed store `{attr}` is concatenated unshifted"
        elif kind == "const":
            want = f"{bs}[0].{attr}"
            what = f"`{attr}` is taken from the first operand"
        else:
            want = f"all(b.{attr} for b in {bs})"
            what = "the result is contiguous only if every operand is (a non-contiguous operand still carries unselected records)"
        ctx.ob(fi.where, f"{clsname}.concatenate: {what}", got == sym.canon(sym.parse_expr(want)), got[:160], key=f"C04-R2|{clsname}|concatenate|{attr}")


def r2_aligned_stores(ctx):
    ix = ctx.index
    n = 0
    for (mod, clsname), stores in STORES.items():
        cls = ix.cls(mod, clsname)
        # the table itself is anchored: every listed attribute is assigned in the class's __init__ chain
        assigned = set()
        for c in ix.mro(cls):
            init = c.methods.get("__init__")
            if init is not None:
                assigned |= {x.targets[0].attr for x in ast.walk(init.node) if isinstance(x, ast.Assign) and isinstance(x.targets[0], ast.Attribute) and u(x.targets[0].value) == "self"}
        missing = [a for a, k in stores.values() if a not in assigned]
        if missing:
            raise AnchorMissing(f"{clsname}: stores {missing} are no longer assigned in __init__")
        extra = sorted(a for a in assigned if a not in {x for x, _ in stores.values()} and a not in ("_n_fields",))
        ctx.ob(cls.where, f"{clsname}: every row-aligned store of the class is in the checker's store table (a new store must be classified before it can be trusted)", not extra,
               f"unclassified: {extra}", key=f"C04-R2|{clsname}|store-table")
        if "__getitem__" in cls.methods:
            _check_getitem(ctx, mod, clsname, stores)
            n += 1
        if "concatenate" in cls.methods:
            _check_concatenate(ctx, mod, clsname, stores)
            n += 1
    ctx.floor("extractor derivations checked", n, 6)
    # compaction of the throughput extractor
    mc = ix.func(FB, "TextThroughputExtractor._make_contigous")
    st = symbolic_state_after(mc.node)
    ctx.need(st is not None, "_make_contigous is not straight-line")
    attrs, _ = st
    lens = "INIT._entry_ends - INIT._entry_starts"
    ns = f"np.insert(np.cumsum({lens}), 0, 0)"
    want = {
        "self._data": f"EncodedRaggedArray(INIT._data, RaggedView2(INIT._entry_starts, {lens})).ravel()",
        "self._entry_starts": f"{ns}[:-1]",
        "self._entry_ends": f"{ns}[1:]",
        "self._field_starts": f"INIT._field_starts - (INIT._entry_starts - {ns}[:-1])[:, None]",
        "self._is_contiguous": "True",
    }
    for k, w in want.items():
        got = sym.canon(attrs[k]) if k in attrs else "not assigned"
        ctx.ob(mc.where, {"self._data": "compaction: data = the selected records' byte ranges in selection order",
                          "self._entry_starts": "compaction: record k starts at the total length of the records before it",
                          "self._entry_ends": "compaction: record k ends at the total length of the records up to it",
                          "self._field_starts": "compaction: every field start moves by the same amount as its record start (old start - new start)",
                          "self._is_contiguous": "compaction: the extractor is marked contiguous"}[k],
               got == sym.canon(sym.parse_expr(w)), got[:200], key=f"C04-R2|TextThroughputExtractor|compaction|{k}")
    others = sorted(k for k in attrs if k not in want)
    ctx.ob(mc.where, "compaction leaves every other store (field lengths) unchanged", not others, str(others), key="C04-R2|TextThroughputExtractor|compaction|others")
    dp = ix.func(FB, "TextThroughputExtractor.data")
    g = CFG(dp.node)
    calls = [n for n in g.nodes if n.kind == "stmt" and any(isinstance(c, ast.Call) and u(c.func) == "self._make_contigous" for c in walk_local(n.ast))]
    ok = len(calls) == 1
    if ok:
        facts = set()
        for t, lab in g.guards(calls[0]):
            facts |= edge_facts(t, lab)
        ok = ("self._is_contiguous", False) in facts
    rets = g.stmt_nodes(ast.Return)
    ok = ok and all(u(r.ast.value) == "self._data" for r in rets) and g.path([g.entry], [g.exit], blocked=lambda x: x in calls,
                                                                                blocked_edge=lambda a, l, b: a.kind == "test" and ("self._is_contiguous", True) in edge_facts(a, l)) is None
    ctx.ob(dp.where, "the bytes of a selection are produced by compacting first (never the uncompacted buffer)", ok, "", key="C04-R2|TextThroughputExtractor|data")
    # buffer-level derivations
    for mod, qn, want in (("bionumpy.io.delimited_buffers", "DelimitedBuffer.__getitem__", "self.__class__(self._buffer_extractor[{i}], self._header_data)"),
                          ("bionumpy.io.one_line_buffer", "OneLineBuffer.__getitem__", "self.__class__(self._buffer_extractor[{i}])"),
                          ("bionumpy.io.vcf_buffers", "InfoBuffer.__getitem__", "self.__class__(self._buffer_extractor[{i}], self._dataclass)"),
                          ("bionumpy.io.bam", "BamBuffer.__getitem__", "self.__class__(self._buffer_extractor[{i}], self._header_data)"),
                          (LZ, "ItemGetter.__getitem__", "self.__class__(self._buffer[{i}], self._dataclass)")):
        fi = ix.func(mod, qn)
        e = single_return_expr(fi.node)
        ok = e is not None and sym.canon(e) == sym.canon(sym.parse_expr(want.format(i=fi.params[1])))
        ctx.ob(fi.where, f"{qn}: selecting rows of a buffer selects the same rows of its extractor and keeps header / entry type", ok, u(e) if e is not None else "", key=f"C04-R2|{qn}")
    dc = ix.func("bionumpy.io.delimited_buffers", "DelimitedBuffer.concatenate")
    e = single_return_expr(dc.node)
    ok = e is not None and sym.same(e, f"self.__class__(self._buffer_extractor.concatenate([b._buffer_extractor for b in {dc.params[1]}]), header_data=self._header_data)")
    ctx.ob(dc.where, "concatenating buffers concatenates their extractors in operand order", ok, "", key="C04-R2|DelimitedBuffer.concatenate")
    ic = ix.func(LZ, "ItemGetter.concatenate")
    e = single_return_expr(ic.node)
    p = ic.params[1]
    ok = e is not None and sym.same(e, f"self.__class__(self._buffer.concatenate([i._buffer for i in {p}]), {p}[0]._dataclass, {p}[0]._start_line)")
    ctx.ob(ic.where, "concatenating item getters concatenates their buffers in operand order", ok, "", key="C04-R2|ItemGetter.concatenate")


def r3_memo_coherence(ctx):
    ix = ctx.index
    n = 0
    for mod, clsname in list(STORES) + [(FB, "FileBuffer"), (LZ, "ItemGetter"), ("bionumpy.io.buffers.sam", "SAMBufferExctractor")]:
        cls = ix.cls(mod, clsname)
        memos = {}
        for c in ix.mro(cls):
            for name, fi in c.methods.items():
                if any("lru_cache" in d or "cached_property" in d for d in fi.decorators):
                    memos.setdefault(name, fi)
        rebinders = {}
        for c in ix.mro(cls):
            for name, fi in c.methods.items():
                if name == "__init__":
                    continue
                for x in body_walk(fi.node):
                    if isinstance(x, ast.Assign):
                        for t in x.targets:
                            if isinstance(t, ast.Attribute) and u(t.value) == "self":
                                rebinders.setdefault(t.attr, set()).add(name)
        n += 1
        for mname, mfi in memos.items():
            # attributes the memo reads, transitively through self calls / properties of the class
            deps, todo, seen = set(), [mfi], set()
            while todo:
                f = todo.pop()
                if f.qualname in seen:
                    continue
                seen.add(f.qualname)
                for x in body_walk(f.node):
                    if isinstance(x, ast.Attribute) and u(x.value) == "self":
                        m = ix.lookup_method(cls, x.attr)
                        if m is not None:
                            todo.append(m)
                        else:
                            deps.add(x.attr)
            # through the extractor: data of a buffer depends on the extractor's stores
            stale = sorted((d, sorted(rebinders[d])) for d in deps if d in rebinders)
            ctx.ob(mfi.where, f"{clsname}.{mname} is memoised per object; nothing it reads ({sorted(deps)}) is rebound by a later method of the object", not stale,
                   f"rebound by {stale}", key=f"C04-R3|{clsname}|{mname}", definite=True)
    ctx.floor("classes examined for stale memos", n, 5)
    # FileBuffer.size is memoised on self and reads self.data: data of a selection must not change size after first use
    sz = ix.func(FB, "FileBuffer.size")
    ok = sym.same(single_return_expr(sz.node), "self.data.size")
    ctx.ob(sz.where, "the memoised buffer size is the size of the (already compacted) data", ok, "", key="C04-R3|FileBuffer.size")


def r4_rest_of_line(ctx):
    ix = ctx.index
    vb = ix.func("bionumpy.io.vcf_buffers", "VCFBuffer.get_column_range_as_text")
    n_fields = len(schema.fields_of(ix, ix.cls("bionumpy.datatypes", "VCFEntry")))
    g = CFG(vb.node)
    consts = set()
    rest = None
    for r in g.stmt_nodes(ast.Return):
        if "get_fields_by_range" in u(r.ast.value):
            rest = r.ast.value
    for t in g.nodes:
        if t.kind == "test":
            for x in ast.walk(t.ast):
                if isinstance(x, ast.Constant) and isinstance(x.value, int):
                    consts.add(x.value)
    ok = consts == {n_fields} and rest is not None and sym.canon(rest) == sym.canon(sym.parse_expr(f"self._buffer_extractor.get_fields_by_range(from_nr={n_fields}, to_nr=None, keep_sep={vb.params[3]})"))
    ctx.ob(vb.where, f"VCF: everything after the {n_fields} entry columns (FORMAT and genotypes) is fetched verbatim as the rest of the line", ok, f"{consts} / {u(rest) if rest is not None else None}",
           key="C04-R4|vcf-rest")
    fr = ix.func(FB, "TextThroughputExtractor.get_fields_by_range")
    # path-wise: the length handed to _extract_data is (record end - start of column k) with the separator kept, and one less without it -- however the steps are spelled
    ksep = fr.params[3]

    class _Pick(ast.NodeTransformer):
        def __init__(self, keep):
            self.keep = keep

        def visit_IfExp(self, n):
            self.generic_visit(n)
            if u(n.test) in (ksep, f"not {ksep}"):
                return n.body if (u(n.test) == ksep) == self.keep else n.orelse
            return n

    def _walk(stmts, env, keep):
        import copy
        stmts = [_Pick(keep).visit(copy.deepcopy(st)) for st in stmts]
        for st in stmts:
            if isinstance(st, ast.Assign) and isinstance(st.targets[0], ast.Name):
                env[st.targets[0].id] = inline_locals(st.value, env)
            elif isinstance(st, ast.AugAssign) and isinstance(st.target, ast.Name) and st.target.id in env:
                env[st.target.id] = ast.BinOp(left=env[st.target.id], op=st.op, right=inline_locals(st.value, env))
            elif isinstance(st, ast.If) and u(st.test) in (ksep, f"not {ksep}"):
                r = _walk(st.body if (u(st.test) == ksep) == keep else st.orelse, env, keep)
                if r is not None:
                    return r
            elif isinstance(st, ast.Return):
                return inline_locals(st.value, env)
            elif isinstance(st, (ast.Assert, ast.Expr)):
                continue
            else:
                raise Unrecognised(f"{fr.where}: statement form not followed: {u(st)[:60]}")
        return None
    ok = ok2 = True
    for keep in (True, False):
        r = _walk(linear_body(fr.node), {}, keep)
        good = isinstance(r, ast.Call) and u(r.func) == "self._extract_data" and len(r.args) == 2
        if good:
            want_start = f"self._field_starts[:, {fr.params[1]}]"
            good = sym.same(r.args[1], want_start) and sym.poly(r.args[0]) == sym.poly(sym.parse_expr(f"self._entry_ends - {want_start}" + ("" if keep else " - 1")))
        ok = ok and good
    ctx.ob(fr.where, "rest of line = from the start of column k to the end of the record, minus the terminator unless the separator is wanted", ok and ok2, "", key="C04-R4|range")


def r5_record_ranges(ctx):
    ix = ctx.index
    n = 0
    for mod, qn in (("bionumpy.io.delimited_buffers", "DelimitedBuffer._get_buffer_extractor"), ("bionumpy.io.buffers.sam", "SAMBuffer._get_buffer_extractor")):
        fi = ix.func(mod, qn)
        # sequential symbolic run: what is entry_ends computed from?
        env = {}
        for s in linear_body(fi.node):
            if isinstance(s, ast.Assign):
                t = s.targets[0]
                if isinstance(t, ast.Name):
                    env[t.id] = inline_locals(s.value, env)
                elif isinstance(t, ast.Tuple) and isinstance(s.value, ast.GeneratorExp):
                    for e in t.elts:
                        env[e.id] = ast.Name(id=f"<{e.id}>", ctx=ast.Load())
        ctx.need("entry_ends" in env and "entry_starts" in env, f"{fi.where}: entry_starts / entry_ends not found")
        n += 1
        c = sym.canon(env["entry_ends"])
        ok = "_modify_for_carriage_return" not in c
        ctx.ob(fi.where, "a record ends one past its raw line end (the carriage-return adjustment of field ends must not shorten the record: a selected CRLF record keeps its newline)",
               ok, c[:160], key=f"C04-R5|{qn}|entry-ends")
        ok = c in (sym.canon(sym.parse_expr(f"{fi.params[2]}[1:].reshape(-1, {fi.params[3]})[:, -1] + 1")), sym.canon(sym.parse_expr(f"RaggedArray({fi.params[2]}[1:], {fi.params[3]})[:, -1] + 1")))
        if not ok:
            from ..affine import same_map, R as _R
            _N = sym.Poly.atom(fi.params[3])
            ok = same_map(env["entry_ends"], fi.params[2], fi.params[3], _R * _N + _N, 1, 1, {})
        ctx.ob(fi.where, "record end = position of the line's last boundary + 1", ok, c[:160], key=f"C04-R5|{qn}|entry-ends-form")
    ctx.floor("record-range builders", n, 2)
    gx = ix.func("bionumpy.io.one_line_buffer", "OneLineBuffer._get_buffer_extractor")
    env = local_env(gx.node)
    ok = "_modify_for_carriage_return" not in sym.canon(env["entry_ends"], env) and "_modify_for_carriage_return" not in sym.canon(env["entry_starts"], env)
    ctx.ob(gx.where, "line-group formats: record ranges come from the raw line ends", ok, "", key="C04-R5|oneline")


def r6_lazy_derivations(ctx):
    """Deriving a new lazy table (selection / replace) builds new overlay dicts; the source table's assigned-values overlay is never shared or updated."""
    ix = ctx.index
    gi = ix.func(LZ, f"{LAZY}.__getitem__")
    idx = gi.params[1]
    env = local_env(gi.node)
    rets = [n for n in linear_body(gi.node) if isinstance(n, ast.Return)]
    ctx.need(rets, "lazy __getitem__: no return")
    e = inline_locals(rets[-1].value, env)
    want = f"self.__class__(self._itemgetter[{idx}], {{key: value[{idx}] for key, value in self._set_values.items()}}, {{key: value[{idx}] for key, value in self._computed_values.items()}})"
    ctx.ob(gi.where, "selecting rows of a lazy table applies the same index to the file buffer, the assigned-values overlay and the field cache (new dicts)",
           sym.canon(e) == sym.canon(sym.parse_expr(want)), u(e)[:200], key="C04-R6|getitem")
    rp = ix.func(LZ, f"{LAZY}.__replace__")
    env = local_env(rp.node)
    nd = [x for x in body_walk(rp.node) if isinstance(x, ast.Assign) and isinstance(x.targets[0], ast.Name)]
    ctx.need(len(nd) == 1, "lazy __replace__: overlay construction not found")
    v = nd[0].value
    fresh = isinstance(v, (ast.DictComp, ast.Dict)) or (isinstance(v, ast.Call) and u(v.func) in ("dict",) ) or (isinstance(v, ast.Call) and u(v.func).endswith(".copy"))
    ctx.ob(rp.where, "replace() starts from a *copy* of the assigned-values overlay (updating the source table's own dict would modify the source)", fresh, u(v), key="C04-R6|replace-copy")
    name = nd[0].targets[0].id
    ups = [c for c in func_calls(rp.node) if u(c.func) == f"{name}.update"]
    ok = len(ups) == 1 and len(ups[0].args) == 1 and u(ups[0].args[0]) == rp.node.args.kwarg.arg if rp.node.args.kwarg else False
    order_ok = ok and nd[0].lineno < ups[0].lineno and "self._set_values" in u(v)
    ctx.ob(rp.where, "replace(): the new values override the previously assigned ones (old overlay first, then the replacement)", order_ok, u(v), key="C04-R6|replace-precedence")
    e = single_return_expr(rp.node)
    rets = [n for n in linear_body(rp.node) if isinstance(n, ast.Return)]
    ok = bool(rets) and sym.canon(rets[-1].value) == f"self.__class__(self._itemgetter, {name})"
    ctx.ob(rp.where, "replace() keeps the same file buffer and passes the merged overlay (the field cache of replaced fields is not carried over)", ok, u(rets[-1].value) if rets else "",
           key="C04-R6|replace-result")
    from ..prov import Analyzer
    an = Analyzer(ix).run()
    bad = []
    for key, sites in an.sites.items():
        if key[0] == LZ and key[1].startswith(LAZY) and key[1].split(".")[-1] not in ("__setattr__", "__getattr__", "__init__"):
            for ws in sites:
                if ws.target[0] == "S" and ws.kind in ("store", "augassign", "container-mutation-via-alias", "inplace-call"):
                    bad.append(f"{key[1].split('.')[-1]}: {ws.stmt}")
    ctx.ob(f"{ix.module(LZ).relpath} {LAZY}", "no method of the lazy table other than attribute assignment / the field cache writes into the table's own overlay or cache", not bad,
           "; ".join(bad), key="C04-R6|no-shared-overlay-writes")


# clauses shared with sibling properties: the written bytes of a selection / a modified table are cut with the same tables
from .c16 import r4_selection_compaction as _bam_selection      # BAM: bytes of a selection are gathered record by record, in selection order
from .c02 import r3_fixed_layouts as _line_layouts              # record and field extents of SAM / FASTQ / FASTA (trailing '\r', record ends)
def _field_table(ctx):
    from .c02 import r6_field_table             # the start / length / record tables modified writes cut text with (not the digit / padded matrices of the parsers)
    with ctx.only("DelimitedBuffer.from_raw_buffer", "_get_n_fields", "_get_buffer_extractor", "TextBufferExtractor.get_field_by_number", "TextBufferExtractor.__init__"):
        r6_field_table(ctx)
from .c03 import r6_streams_and_text_ranges as _text_ranges     # untouched columns are supplied as file text

from ..through_time import make_rule as _mk_tt, make_t2 as _mk_t2
_through_time = _mk_tt("C04")
_small_edits = _mk_t2("C04")

def _lazy_concatenate(ctx):
    from .c05 import r1_aligned_views
    r1_aligned_views(ctx)    # overlay / cache / buffer of concatenated lazy tables reach the constructor in their own slots
def _shared_tables_not_written(ctx):
    from .c20 import r3_self_array_writes, IO_TABLE_MODULES
    r3_self_array_writes(ctx, IO_TABLE_MODULES)   # index tables are shared between a table and its selections: never written in place

def _late_bound_constants(ctx):
    from .c05 import r7_late_bound_constants
    r7_late_bound_constants(ctx)   # format constants are read through cls / self so that subclass formats keep their own

def _index_forwarding(ctx):
    from .c05 import r6_index_forwarding
    with ctx.only("__getitem__"):          # a selection that is written back must select what NumPy would select
        r6_index_forwarding(ctx)

def _mutable_defaults(ctx):
    from .c20 import r9_mutable_defaults
    r9_mutable_defaults(ctx, ("bionumpy.bnpdataclass.lazybnpdataclass", "bionumpy.io.file_buffers", "bionumpy.io.delimited_buffers", "bionumpy.io.one_line_buffer"))   # the overlay of assigned fields is per table


RULES = [
    ("C04-R6", r6_lazy_derivations),
    ("C04-R1", r1_pass_through),
    ("C04-R2", r2_aligned_stores),
    ("C04-R3", r3_memo_coherence),
    ("C04-R4", r4_rest_of_line),
    ("C04-R5", r5_record_ranges),
    ("C04-R7", _bam_selection),
    ("C04-R8", _line_layouts),
    ("C04-R9", _field_table),
    ("C04-R10", _text_ranges),
    ("C04-T1", _through_time),
    ("C04-T2", _small_edits),
    ("C04-R11", _lazy_concatenate),
    ("C04-R12", _shared_tables_not_written),
    ("C04-R13", _late_bound_constants),
    ("C04-R14", _index_forwarding),
    ("C04-R15", _mutable_defaults),
]
