"""C17 - indexed FASTA random access agrees with the file.

The .fai format (samtools faidx) has five columns with fixed roles:
   NAME, LENGTH (bases), OFFSET (byte of first base), LINEBASES (bases per line), LINEWIDTH (bytes per line).
 R1 column roles: reader keys, FastaIdx field order, constructor argument order, the index builder and every consumer agree with those roles;
    contig lengths are read from the LENGTH role;
 R2 byte arithmetic of whole-contig and interval reads, as symbolic normal forms over the role symbols, equals the layout the roles define
    (base i of a record is at OFFSET + (i // LINEBASES) * LINEWIDTH + i % LINEBASES);
 R3 index creation: offsets of later chunks are shifted by the cumulative chunk byte sizes (only the OFFSET column), the index is written
    tab-delimited in field order when missing, by both entry points.
"""
from __future__ import annotations
import ast

from ..index import AnchorMissing, Unrecognised
from ..astutil import linear_body, u, body_walk, local_env, func_calls, walk_local, straightline_return, inline_locals, single_return_expr
from .. import sym

EXPLANATION = ("Static role analysis of the FASTA index code: the five .fai columns have fixed roles; the reader's keys, the FastaIdx field order, every "
               "constructor call and every consumer are mapped to roles by position/dataflow and compared; the byte arithmetic of contig and interval "
               "reads and of the index builder is reduced to symbolic normal forms over the role symbols and compared with the layout formula the "
               "format defines. Holds for every FASTA, line width and interval at once (LF line ends); CRLF is not decided.")

IF = "bionumpy.io.indexed_fasta"
ML = "bionumpy.io.multiline_buffer"
ROLES = ["NAME", "LENGTH", "OFFSET", "LINEBASES", "LINEWIDTH"]


def _reader_key_roles(ctx):
    """{'rlen': 'LENGTH', ...} from read_index: key -> role of the column its value is parsed from."""
    f = ctx.index.func(IF, "read_index")
    comps = [n for n in body_walk(f.node) if isinstance(n, ast.DictComp)]
    loops = [n for n in body_walk(f.node) if isinstance(n, ast.For)]
    env = local_env(f.node)
    if len(comps) == 1:
        dc = comps[0]
        gen = dc.generators[0]
        ctx.need(isinstance(gen.target, ast.Tuple) and len(gen.target.elts) == 5, "read_index does not unpack five columns")
        cols = [e.id for e in gen.target.elts]
        src = sym.canon(gen.iter, env)
        ok = src.replace('"', "'") == "(line.split('\\t') for line in open(%s))" % f.params[0]
        ctx.ob(f.where, "index lines are split on tabs into the five .fai columns", ok, src)
        key_expr, val_expr = dc.key, dc.value
    elif len(loops) == 1:
        # the same reader written as a loop: `for line in <file>: a, b, c, d, e = line...split('\t'); index[KEY] = {...}`
        lp = loops[0]
        unpack = [x for x in lp.body if isinstance(x, ast.Assign) and isinstance(x.targets[0], ast.Tuple) and len(x.targets[0].elts) == 5]
        store = [x for x in lp.body if isinstance(x, ast.Assign) and isinstance(x.targets[0], ast.Subscript) and isinstance(x.value, ast.Dict)]
        ctx.need(len(unpack) == 1 and len(store) == 1, "read_index (loop form): five-column unpack / dict store not found")
        cols = [e.id for e in unpack[0].targets[0].elts]
        src = u(unpack[0].value)
        line_var = u(lp.target)
        ok = any(isinstance(c, ast.Call) and isinstance(c.func, ast.Attribute) and c.func.attr == "split" and c.args and getattr(c.args[0], "value", None) == "\t"
                 for c in ast.walk(unpack[0].value)) and line_var in {n.id for n in ast.walk(unpack[0].value) if isinstance(n, ast.Name)}
        ctx.ob(f.where, "index lines are split on tabs into the five .fai columns", ok, src)
        key_expr, val_expr = store[0].targets[0].slice, store[0].value
    else:
        raise Unrecognised("read_index: neither a dict comprehension nor a single loop over the lines")

    class _DC:
        pass
    dc = _DC()
    dc.key, dc.value = key_expr, val_expr
    ctx.need(isinstance(dc.value, ast.Dict), "read_index: value is not a dict literal")
    roles = {}
    for k, v in zip(dc.value.keys, dc.value.values):
        ctx.need(isinstance(k, ast.Constant) and isinstance(v, ast.Call) and u(v.func) == "int" and isinstance(v.args[0], ast.Name) and v.args[0].id in cols,
                 f"read_index: entry {u(k)}: {u(v)} is not int(<column>)")
        roles[k.value] = ROLES[cols.index(v.args[0].id)]
    key_ok = sym.canon(dc.key) == f"{cols[0]}.split()[0]"
    ctx.ob(f.where, "records are keyed by the first word of the NAME column", key_ok, u(dc.key))
    ctx.ob(f.where, "the reader keeps LENGTH, OFFSET, LINEBASES and LINEWIDTH, each from its own column", sorted(roles.values()) == sorted(ROLES[1:]), str(roles),
           key="C17-R1|reader-roles")
    return roles


def _fastaidx_fields(ctx):
    c = ctx.index.cls(ML, "FastaIdx")
    return [s.target.id for s in c.node.body if isinstance(s, ast.AnnAssign)]


def r1_roles(ctx):
    ix = ctx.index
    kr = _reader_key_roles(ctx)
    fields = _fastaidx_fields(ctx)
    ctx.need(len(fields) == 5, f"FastaIdx no longer has five fields: {fields}")
    # typed consumers
    gl = ix.func(IF, "IndexedFasta.get_contig_lengths")
    e = single_return_expr(gl.node)
    ctx.need(isinstance(e, ast.DictComp) and isinstance(e.value, ast.Subscript) and isinstance(e.value.slice, ast.Constant), "get_contig_lengths: unexpected form")
    key = e.value.slice.value
    ctx.ob(gl.where, "contig lengths are the LENGTH column of the index (true sequence length)", kr.get(key) == "LENGTH", f"reads key {key!r} = {kr.get(key)}",
           key="C17-R1|contig-lengths")
    # every source of the record dict an IndexedFasta works with keys the records the same way (first word of NAME) and has the same value roles
    init0 = ix.func(IF, "IndexedFasta.__init__")
    srcs = [x.value for x in body_walk(init0.node) if isinstance(x, ast.Assign) and u(x.targets[0]) == "self._index"]
    ctx.floor("sources of IndexedFasta._index", len(srcs), 1)
    for v in srcs:
        if isinstance(v, ast.Call) and u(v.func) == "read_index":
            ok, detail = True, u(v)[:80]
        elif isinstance(v, ast.DictComp):
            k = v.key
            first_word = isinstance(k, ast.Subscript) and isinstance(k.slice, ast.Constant) and k.slice.value == 0 and isinstance(k.value, ast.Call) and \
                isinstance(k.value.func, ast.Attribute) and k.value.func.attr == "split" and not k.value.args
            roles2 = {}
            if isinstance(v.value, ast.Dict):
                for kk, vv in zip(v.value.keys, v.value.values):
                    attrs = [a.attr for a in ast.walk(vv) if isinstance(a, ast.Attribute)]
                    fld = [a for a in attrs if a in fields]
                    roles2[getattr(kk, "value", None)] = ROLES[fields.index(fld[0])] if len(fld) == 1 else "?"
            if not isinstance(v.value, ast.Dict):
                raise Unrecognised(f"{init0.where}: record dict built as `{u(v)[:80]}`")
            ok = first_word and roles2 == kr
            detail = f"key `{u(k)}`, roles {roles2}"
        else:
            raise Unrecognised(f"{init0.where}: record dict comes from `{u(v)[:80]}`")
        ctx.ob(init0.where, "every source of the record dict keys records by the first word of the header and fills the same roles as the .fai reader (an object built "
               "from a fresh in-memory index must behave like one built from the .fai file)", ok, detail, key=f"C17-R1|index-source|{u(v)[:30]}", definite=True)
    # tuple constructors: (name, var[k1], ..) in FastaIdx field order == role order
    n = 0
    for qn in ("IndexedFasta.__init__", "IndexedFasta._get_interval_sequences_fast"):
        f = ix.func(IF, qn)
        for c in func_calls(f.node):
            if u(c.func) == "FastaIdx.from_entry_tuples" and c.args and isinstance(c.args[0], ast.ListComp) and isinstance(c.args[0].elt, ast.Tuple):
                n += 1
                elts = c.args[0].elt.elts
                got = []
                for el in elts[1:]:
                    if isinstance(el, ast.Subscript) and isinstance(el.slice, ast.Constant):
                        got.append(kr.get(el.slice.value, "?"))
                    else:
                        got.append("?")
                ctx.ob(f.where, "index table rows are built as (NAME, LENGTH, OFFSET, LINEBASES, LINEWIDTH) = FastaIdx field order", got == ROLES[1:] and len(elts) == 5,
                       f"{got}", key=f"C17-R1|table|{qn}")
    ctx.floor("FastaIdx.from_entry_tuples sites", n, 1)
    # fast path: table indexed by label codes must be in label order
    f = ix.func(IF, "IndexedFasta._get_interval_sequences_fast")
    env = local_env(f.node)
    iv = f.params[1]
    ind = [x for x in body_walk(f.node) if isinstance(x, (ast.Assign, ast.AnnAssign)) and u(x.targets[0] if isinstance(x, ast.Assign) else x.target) == "indices"]
    ctx.need(len(ind) == 1, "fast path: `indices` row lookup not found")
    init = ix.func(IF, "IndexedFasta.__init__")
    attr_env = {u(x.targets[0]): x.value for x in body_walk(init.node) if isinstance(x, ast.Assign) and u(x.targets[0]).startswith("self._index_table")}
    c = sym.canon(inline_locals(ind[0].value, {k: v for k, v in env.items() if k != "indices"}), attr_env)
    ok = f"{iv}.chromosome.encoding.get_labels()" in c and c.endswith(f"[{iv}.chromosome.raw()]")
    ctx.ob(f.where, "rows looked up by chromosome code come from a table built in the order of the chromosome encoding's labels", ok, c[:200], key="C17-R1|label-order")
    # IndexBuffer writes FastaIdx tab-delimited
    ib = ix.cls("bionumpy.io.indexed_files", "IndexBuffer")
    ok = u(ib.attrs.get("dataclass")) == "FastaIdx" and "DelimitedBuffer" in ib.base_exprs
    delim = ix.lookup_attr(ib, "DELIMITER")
    ctx.ob(ib.where, "the .fai is written from FastaIdx rows, tab-delimited, one record per line", ok and delim is not None and getattr(delim, "value", None) == "\t", "")
    # builder -> FastaIdx: positional arguments by role
    ci = ix.func(IF, "create_index")
    cons = [c for c in func_calls(ci.node) if u(c.func) == "FastaIdx"]
    ctx.need(len(cons) == 1 and len(cons[0].args) == 5, "create_index: FastaIdx(...) with five positional arguments not found")
    comp_var = None
    cloops = [x for x in body_walk(ci.node) if isinstance(x, ast.For) and any(y is cons[0] for y in ast.walk(x))]
    if cloops:
        # loop form: a running byte offset must ACCUMULATE the sizes of the chunks seen so far
        lp = cloops[0]
        comp_var = u(lp.target)
        offs = [a for a in cons[0].args if isinstance(a, ast.BinOp) and isinstance(a.op, ast.Add)]
        ctx.need(len(offs) == 1 and isinstance(offs[0].right, ast.Name), "create_index (loop form): shifted OFFSET argument not found")
        off_var = offs[0].right.id
        ups = [x for x in lp.body if (isinstance(x, ast.AugAssign) and u(x.target) == off_var) or (isinstance(x, ast.Assign) and u(x.targets[0]) == off_var)]
        ok = len(ups) == 1 and isinstance(ups[0], ast.AugAssign) and isinstance(ups[0].op, ast.Add) and sym.canon(ups[0].value) == f"{comp_var}.byte_size[0]"
        ctx.ob(ci.where, "records of later chunks are shifted by the CUMULATIVE byte size of all earlier chunks (the running offset accumulates, it is not overwritten)", ok,
               "; ".join(u(x) for x in ups), key="C17-R3|create_index|offset-accumulates")
        for i, (a, fld) in enumerate(zip(cons[0].args, fields)):
            want = f"{comp_var}.{fld}" + (f" + {off_var}" if ROLES[i] == "OFFSET" else "")
            ctx.ob(ci.where, f"index column {ROLES[i]} is the builder's {fld}" + (" shifted by the chunk's file offset" if ROLES[i] == "OFFSET" else " (unshifted)"),
                   sym.same(a, want), u(a), key=f"C17-R3|create_index|{ROLES[i]}")
        return kr, fields
    for x in body_walk(ci.node):
        if isinstance(x, ast.ListComp) and any(y is cons[0] for y in ast.walk(x)):
            t = x.generators[0].target
            ctx.need(isinstance(t, ast.Tuple) and len(t.elts) == 2, "create_index: (idx, offset) loop not found")
            comp_var, off_var = t.elts[0].id, t.elts[1].id
            zipped = sym.canon(x.generators[0].iter, local_env(ci.node))
    ctx.need(comp_var is not None, "create_index: comprehension not found")
    for i, (a, fld) in enumerate(zip(cons[0].args, fields)):
        want = f"{comp_var}.{fld}" + (f" + {off_var}" if ROLES[i] == "OFFSET" else "")
        ctx.ob(ci.where, f"index column {ROLES[i]} is the builder's {fld}" + (" shifted by the chunk's file offset" if ROLES[i] == "OFFSET" else " (unshifted)"),
               sym.same(a, want), u(a), key=f"C17-R3|create_index|{ROLES[i]}")
    return kr, fields


def _subst_roles(expr, mapping):
    """canon of expr with code names replaced by role symbols."""
    env = {k: sym.parse_expr(v) for k, v in mapping.items()}
    return sym.canon(expr, env)


def r2_byte_arithmetic(ctx):
    ix = ctx.index
    kr = _reader_key_roles(ctx)
    fields = _fastaidx_fields(ctx)
    # ---- whole contig
    f = ix.func(IF, "IndexedFasta.__getitem__")
    # local names bound from idx["key"]
    m = {}
    for x in body_walk(f.node):
        if isinstance(x, ast.Assign) and isinstance(x.targets[0], ast.Tuple) and isinstance(x.value, ast.Tuple):
            for t, v in zip(x.targets[0].elts, x.value.elts):
                if isinstance(v, ast.Subscript) and isinstance(v.slice, ast.Constant) and u(v.value) == "idx":
                    m[t.id] = kr.get(v.slice.value, "?")
    ctx.need(set(m.values()) >= {"LENGTH", "LINEBASES", "LINEWIDTH"}, f"__getitem__: role variables not found: {m}")
    env = local_env(f.node)
    env = {k: v for k, v in env.items() if k not in m}

    def role_canon(e):
        e2 = inline_locals(e, env)
        return _subst_roles(e2, m)
    asg = {}
    for x in linear_body(f.node):
        if isinstance(x, ast.Assign) and isinstance(x.targets[0], ast.Name):
            asg.setdefault(x.targets[0].id, []).append(x.value)
    def first(name):
        ctx.need(name in asg, f"__getitem__: `{name}` not assigned")
        return asg[name][0]
    ok = role_canon(first("n_rows")) == sym.canon(sym.parse_expr("(LENGTH + LINEBASES - 1) // LINEBASES"))
    ctx.ob(f.where, "number of lines of a record = ceil(LENGTH / LINEBASES)", ok, role_canon(first("n_rows")), key="C17-R2|contig|n_rows")
    btr = sym.poly(inline_locals(first("bytes_to_read"), {k: v for k, v in env.items() if k != "n_rows"}), {k: sym.parse_expr(v) for k, v in m.items()})
    want = sym.poly(sym.parse_expr("(n_rows - 1) * LINEWIDTH + (LENGTH - (n_rows - 1) * LINEBASES)"))
    ctx.ob(f.where, "bytes to read = full lines * LINEWIDTH + bases of the last line", btr == want, str(btr), key="C17-R2|contig|bytes")
    seeks = [c for c in func_calls(f.node) if u(c.func) == "self._f_obj.seek"]
    ok = len(seeks) == 1 and isinstance(seeks[0].args[0], ast.Subscript) and kr.get(getattr(seeks[0].args[0].slice, "value", None)) == "OFFSET"
    ctx.ob(f.where, "the read starts at the record's OFFSET", ok, u(seeks[0]) if seeks else "", key="C17-R2|contig|seek")
    resh = [v for v in asg.get("data", []) if isinstance(v, ast.Call) and u(v.func) == "data.reshape"]
    ok = len(resh) == 1 and [_subst_roles(a, m) for a in resh[0].args] == ["n_rows", "LINEWIDTH"]
    ctx.ob(f.where, "bytes are viewed as n_rows lines of LINEWIDTH bytes", ok, u(resh[0]) if resh else "", key="C17-R2|contig|reshape")
    ret = _subst_roles(first("ret"), m)
    ctx.ob(f.where, "the sequence is the first LINEBASES bytes of every line, truncated to LENGTH", ret == "data[(:, :LINEBASES)].ravel()[:LENGTH]", ret, key="C17-R2|contig|cols")
    rets = [n for n in linear_body(f.node) if isinstance(n, ast.Return)]
    ok = bool(rets) and sym.same(rets[0].value, "EncodedArray(ret, BaseEncoding)")
    ctx.ob(f.where, "the contig is returned as ASCII text, unchanged", ok, u(rets[0].value) if rets else "")
    # ---- interval reads, generic path
    g = ix.func(IF, "IndexedFasta.get_interval_sequences")
    loop = [x for x in linear_body(g.node) if isinstance(x, ast.For)]
    ctx.need(len(loop) == 1, "generic interval path: per-interval loop not found")
    # results are appended in iteration order: the loop walks the intervals in the order they were given (not grouped by contig, not sorted)
    giv = g.params[1]
    ok_order = u(loop[0].iter) in (giv, f"iter({giv})") and not any(isinstance(x, ast.For) for st in loop[0].body for x in ast.walk(st) if isinstance(x, ast.For) and giv in u(x.iter))
    inner = [x for st in loop[0].body for x in ast.walk(st) if isinstance(x, ast.For) and giv in u(x.iter)]
    ctx.ob(g.where, "generic path: row i of the result is the sequence of interval i (the intervals are read in the order given; grouping them by contig would reorder the rows)",
           ok_order and not inner, f"outer loop over {u(loop[0].iter)[:60]}" + (f"; inner loop over {u(inner[0].iter)[:60]}" if inner else ""), key="C17-R2|generic|order")
    if inner:
        return
    lb = loop[0].body
    it = u(loop[0].target)
    m2 = {}
    las = {}
    for x in lb:
        if isinstance(x, ast.Assign):
            if isinstance(x.targets[0], ast.Tuple) and isinstance(x.value, ast.Tuple):
                for t, v in zip(x.targets[0].elts, x.value.elts):
                    if isinstance(v, ast.Subscript) and isinstance(v.slice, ast.Constant) and u(v.value) == "idx":
                        m2[t.id] = kr.get(v.slice.value, "?")
            elif isinstance(x.targets[0], ast.Name):
                las.setdefault(x.targets[0].id, []).append(x.value)
    m2[f"{it}.start"] = "A"
    m2[f"{it}.stop"] = "B"
    envl = {k: v[0] for k, v in las.items() if len(v) == 1}

    def rc(e, keep=()):
        e2 = inline_locals(e, {k: v for k, v in envl.items() if k not in keep})
        return sym.canon(e2, {k: sym.parse_expr(v) for k, v in m2.items()})
    layout = lambda p: f"({p} // LINEBASES) * LINEWIDTH + {p} % LINEBASES"
    ctx.need("start_offset" in envl and "stop_offset" in envl, "generic path: start_offset/stop_offset not found")
    ctx.ob(g.where, "byte offset of interval start within the record = (A // LINEBASES) * LINEWIDTH + A % LINEBASES",
           rc(envl["start_offset"]) == sym.canon(sym.parse_expr(layout("A"))), rc(envl["start_offset"]), key="C17-R2|generic|start")
    ctx.ob(g.where, "byte offset of interval stop within the record = (B // LINEBASES) * LINEWIDTH + B % LINEBASES",
           rc(envl["stop_offset"]) == sym.canon(sym.parse_expr(layout("B"))), rc(envl["stop_offset"]), key="C17-R2|generic|stop")
    seeks = [c for x in lb for c in ast.walk(x) if isinstance(c, ast.Call) and u(c.func) == "self._f_obj.seek"]
    ok = len(seeks) == 1 and isinstance(seeks[0].args[0], ast.BinOp)
    if ok:
        l, r = seeks[0].args[0].left, seeks[0].args[0].right
        ok = isinstance(l, ast.Subscript) and kr.get(getattr(l.slice, "value", None)) == "OFFSET" and rc(r) == sym.canon(sym.parse_expr(layout("A")))
    ctx.ob(g.where, "the read starts at OFFSET + start offset", ok, u(seeks[0]) if seeks else "", key="C17-R2|generic|seek")
    reads = [c for x in lb for c in ast.walk(x) if isinstance(c, ast.Call) and u(c.func) == "self._f_obj.read"]
    ok = len(reads) == 1 and sym.poly(inline_locals(reads[0].args[0], envl), {k: sym.parse_expr(v) for k, v in m2.items()}) == \
        sym.poly(sym.parse_expr(f"({layout('B')}) - ({layout('A')})"))
    ctx.ob(g.where, "bytes read = stop offset - start offset", ok, u(reads[0]) if reads else "", key="C17-R2|generic|read")
    dels = [c for x in lb for c in ast.walk(x) if isinstance(c, ast.Call) and u(c.func) == "np.delete"]
    ctx.need(len(dels) == 1 and isinstance(dels[0].args[1], ast.ListComp), "generic path: newline deletion not found")
    lc = dels[0].args[1]
    j = u(lc.generators[0].target)
    elt = rc(lc.elt)
    want_elt = sym.canon(sym.parse_expr(f"LINEWIDTH * ({j} + 1) - 1 - A % LINEBASES"))
    rng = rc(lc.generators[0].iter)
    want_rng = sym.canon(sym.parse_expr("range(B // LINEBASES - A // LINEBASES)"))
    ctx.ob(g.where, "the deleted bytes are the line terminators: one per crossed line break, at LINEWIDTH*(j+1) - 1 - (A % LINEBASES)", elt == want_elt and rng == want_rng,
           f"{elt} for {j} in {rng}", key="C17-R2|generic|newlines")
    # ---- fast path
    h = ix.func(IF, "IndexedFasta._get_interval_sequences_fast")
    iv = h.params[1]
    m3 = {f"{iv}.start": "A", f"{iv}.stop": "B"}
    for i, fld in enumerate(fields):
        m3[f"indices.{fld}"] = ROLES[i]
    envh = {k: v for k, v in local_env(h.node).items() if k != "indices"}

    def rch(e):
        return sym.canon(inline_locals(e, envh), {k: sym.parse_expr(v) for k, v in m3.items()})
    ctx.need(all(k in envh for k in ("read_starts", "read_lengths", "n_rows", "start_mods", "lengths")), "fast path: expected locals not found")
    ctx.ob(h.where, "fast path: read start = OFFSET + (A // LINEBASES) * LINEWIDTH + A % LINEBASES",
           rch(envh["read_starts"]) == sym.canon(sym.parse_expr(f"OFFSET + {layout('A')}")), rch(envh["read_starts"]), key="C17-R2|fast|start")
    ctx.ob(h.where, "fast path: bytes read = stop offset - start offset",
           sym.poly(inline_locals(envh["read_lengths"], envh), {k: sym.parse_expr(v) for k, v in m3.items()}) == sym.poly(sym.parse_expr(f"({layout('B')}) - ({layout('A')})")),
           rch(envh["read_lengths"]), key="C17-R2|fast|read")
    ctx.ob(h.where, "fast path: crossed line breaks = B // LINEBASES - A // LINEBASES", rch(envh["n_rows"]) == sym.canon(sym.parse_expr("B // LINEBASES - A // LINEBASES")),
           rch(envh["n_rows"]), key="C17-R2|fast|rows")
    ctx.ob(h.where, "fast path: row lengths = B - A", rch(envh["lengths"]) == sym.canon(sym.parse_expr("B - A")), rch(envh["lengths"]), key="C17-R2|fast|lengths")
    loops = [x for x in linear_body(h.node) if isinstance(x, ast.For)]
    ctx.need(len(loops) == 1 and isinstance(loops[0].target, ast.Tuple) and isinstance(loops[0].iter, ast.Call) and u(loops[0].iter.func) == "zip", "fast path: zip loop not found")
    tv = [e.id for e in loops[0].target.elts]
    za = [rch(a) for a in loops[0].iter.args]
    roles_loop = dict(zip(tv, za))
    dels = [c for c in ast.walk(loops[0]) if isinstance(c, ast.Call) and u(c.func) == "np.delete"]
    ctx.need(len(dels) == 1 and isinstance(dels[0].args[1], ast.ListComp), "fast path: newline deletion not found")
    lc = dels[0].args[1]
    j = u(lc.generators[0].target)
    sub = {k: sym.parse_expr(v) for k, v in roles_loop.items() if v}
    try:
        elt = sym.canon(lc.elt, sub)
        rng = sym.canon(lc.generators[0].iter, sub)
    except Exception:
        raise Unrecognised("fast path: loop variables cannot be mapped to roles")
    ctx.ob(h.where, "fast path: deleted bytes are the line terminators at LINEWIDTH*(j+1) - 1 - (A % LINEBASES), one per crossed line break",
           elt == sym.canon(sym.parse_expr(f"LINEWIDTH * ({j} + 1) - 1 - A % LINEBASES")) and rng == sym.canon(sym.parse_expr("range(B // LINEBASES - A // LINEBASES)")),
           f"{elt} for {j} in {rng}", key="C17-R2|fast|newlines")
    sk = [c for c in ast.walk(loops[0]) if isinstance(c, ast.Call) and u(c.func) == "self._f_obj.seek"]
    rd = [c for c in ast.walk(loops[0]) if isinstance(c, ast.Call) and u(c.func) == "self._f_obj.read"]
    ok = len(sk) == 1 and len(rd) == 1 and sym.canon(sk[0].args[0], sub) == sym.canon(sym.parse_expr(f"OFFSET + {layout('A')}")) and \
        sym.poly(rd[0].args[0], sub) == sym.poly(sym.parse_expr(f"({layout('B')}) - ({layout('A')})"))
    ctx.ob(h.where, "fast path: each interval seeks to its read start and reads its byte count", ok, "", key="C17-R2|fast|seek-read")
    st = [x for x in ast.walk(loops[0]) if isinstance(x, ast.Assign) and isinstance(x.targets[0], ast.Subscript) and u(x.targets[0].value) == "pre_alloc"]
    ok = len(st) == 1 and isinstance(st[0].targets[0].slice, ast.Slice) and st[0].targets[0].slice.lower is not None and st[0].targets[0].slice.upper is not None and \
        sym.canon(st[0].targets[0].slice.lower, sub) == sym.canon(sym.parse_expr("np.insert(np.cumsum(B - A), 0, 0)")) and \
        sym.canon(st[0].targets[0].slice.upper, sub) == sym.canon(sym.parse_expr("np.insert(np.cumsum(B - A), 0, 0) + sequence.size")) and u(st[0].value) == "sequence"
    ctx.ob(h.where, "fast path: interval k is stored at the cumulative length of the intervals before it", ok, u(st[0].targets[0]) if st else "", key="C17-R2|fast|store")


def r3_index_builder(ctx):
    ix = ctx.index
    f = ix.func(ML, "FastaIdxBuffer.get_data")
    e = straightline_return(f.node)
    ctx.need(isinstance(e, ast.Call) and u(e.func) == "FastaIdxBuilder" and len(e.args) == 6, "FastaIdxBuffer.get_data is not a straight-line FastaIdxBuilder(...) construction")
    NL, D = "self._new_lines", "self._data"
    line_starts = f"np.insert({NL} + 1, 0, 0)"
    raw_ends = f"np.append({NL}, {D}.size - 1)"
    line_ends = f"self._modify_ends_for_carriage_returns({raw_ends}, {D})"
    new_entries = "np.insert(self._new_entries + 1, 0, 0)"
    seq_starts = f"{line_starts}[{new_entries} + 1]"
    spec = {
        "OFFSET": seq_starts,
        "LINEBASES": f"{line_ends}[{new_entries} + 1] - {seq_starts}",
        "LINEWIDTH": f"{raw_ends}[{new_entries} + 1] - {seq_starts} + 1",
    }
    args = dict(zip(ROLES + ["BYTE_SIZE"], e.args))
    for role, want in spec.items():
        got = sym.canon(args[role])
        ctx.ob(f.where, {"OFFSET": "OFFSET = start of the line after each header line",
                         "LINEBASES": "LINEBASES = (CR-adjusted) end of the first sequence line - its start",
                         "LINEWIDTH": "LINEWIDTH = raw end of the first sequence line - its start + 1 (terminator included)"}[role],
               got == sym.canon(sym.parse_expr(want)), got[:200], key=f"C17-R3|builder|{role}")
    got = sym.canon(args["BYTE_SIZE"])
    ctx.ob(f.where, "chunk byte size = size of the chunk's data (all bytes delivered by this chunk)", (got.startswith(f"[{D}.size]*len(") or got.startswith(f"repeat([{D}.size], len(")), got[:120], key="C17-R3|builder|byte_size")
    gl = sym.canon(args["LENGTH"])
    ctx.ob(f.where, "LENGTH = number of bases of the record (lengths of the joined sequence lines)", gl.endswith(".lengths") and gl.startswith("RaggedArray("), gl[:160],
           key="C17-R3|builder|LENGTH")
    # create_index offsets
    ci = ix.func(IF, "create_index")
    env = local_env(ci.node)
    ctx.need("offsets" in env and "indice_builders" in env, "create_index: offsets / builders not found")
    ok = sym.same(env["offsets"], "np.cumsum([0] + [idx.byte_size[0] for idx in indice_builders])")
    ctx.ob(ci.where, "file offset of chunk k = sum of the byte sizes of the chunks before it", ok, u(env["offsets"]), key="C17-R3|create_index|offsets")
    ok = sym.same(env["indice_builders"], "list(reader.read_chunks())") and sym.same(env["reader"], f"bnp_open({ci.params[0]}, buffer_type=FastaIdxBuffer)")
    ctx.ob(ci.where, "the index is built from the file's chunks in order with the index-building buffer", ok, "")
    for x in body_walk(ci.node):
        if isinstance(x, ast.ListComp) and isinstance(x.elt, ast.Call) and u(x.elt.func) == "FastaIdx":
            ok = sym.canon(x.generators[0].iter) == "zip(indice_builders, offsets)"
            ctx.ob(ci.where, "chunk k is paired with offset k", ok, u(x.generators[0].iter), key="C17-R3|create_index|zip")
    # both entry points write the index iff missing
    sites = []
    for mod, qn in (("bionumpy.io.indexed_files", "open_indexed"), ("bionumpy.genomic_data.genome", "Genome.from_file")):
        fn = ix.func(mod, qn)
        from ..cfg import CFG as _CFG
        from ..pend import edge_facts as _ef
        g = _CFG(fn.node)
        ws = []
        for n in g.nodes:
            if n.kind != "stmt":
                continue
            for c in walk_local(n.ast):
                if isinstance(c, ast.Call) and isinstance(c.func, ast.Attribute) and c.func.attr == "write" and len(c.args) == 1:
                    rc = c.func.value
                    if isinstance(rc, ast.Name):
                        defs = [x.value for x in body_walk(fn.node) if isinstance(x, ast.Assign) and u(x.targets[0]) == rc.id]
                        defs += [it.context_expr for w in body_walk(fn.node) if isinstance(w, ast.With) for it in w.items if it.optional_vars is not None and u(it.optional_vars) == rc.id]
                        rc = defs[0] if len(defs) == 1 else rc
                    if isinstance(rc, ast.Call) and u(rc.func) in ("bnp_open", "bnp.open") and any(k.arg == "buffer_type" and u(k.value) == "IndexBuffer" for k in rc.keywords):
                        ws.append((n, c, rc))
        ctx.need(len(ws) == 1, f"{qn}: the write of the missing .fai was not found")
        n, c, rc = ws[0]
        facts = set()
        for t, lab in g.guards(n):
            facts |= _ef(t, lab)
        ok = ("os.path.isfile(index_file_name)", False) in facts and u(rc.args[0]) == "index_file_name" and len(rc.args) >= 2 and getattr(rc.args[1], "value", None) == "w"
        nm = [x.value for x in body_walk(fn.node) if isinstance(x, ast.Assign) and u(x.targets[0]) == "index_file_name"]
        ok = ok and len(nm) == 1 and sym.canon(nm[0]) == sym.canon(sym.parse_expr("path.with_suffix(path.suffix + '.fai')"))
        ctx.ob(fn.where, "a missing .fai (and only a missing one) is created with IndexBuffer next to the FASTA", ok, u(c)[:100], key=f"C17-R3|write|{qn}")
        arg = c.args[0]
        vals = [arg]
        if isinstance(arg, ast.Name):
            vals = [x.value for x in body_walk(fn.node) if isinstance(x, ast.Assign) and u(x.targets[0]) == arg.id]
        whole = bool(vals) and all(sym.canon(v) == "create_index(path)" for v in vals)
        if not whole:
            cut = [v for v in vals if isinstance(v, ast.Subscript) or (isinstance(v, ast.Call) and u(v.func) in ("filter",))]
            if not cut:
                raise Unrecognised(f"{fn.where}: the .fai is written from `{'; '.join(u(v)[:60] for v in vals)}`")
        ctx.ob(fn.where, "the .fai that is written is the COMPLETE index of the FASTA (create_index(path) as it is): the file is shared by every later opener, whatever "
               "contigs this caller ignores", whole, "; ".join(u(v)[:80] for v in vals), key=f"C17-R3|write-complete|{qn}", definite=True)


# single-slot memos that take a parameter, confirmed by reading: (module, function, attribute) -> why the argument cannot vary
SLOT_MEMO_OK = {
    ("bionumpy.io.npdataclassreader", "NpDataclassReader._get_lazy_class", "__lazy_class"):
        "both arguments come from the reader's own buffer type (chunk.dataclass, chunk.header_data), fixed when the reader is created",
}


def slot_memo_sites(ix, modules):
    """`if self.A is None: self.A = E` (or `not self.A` / `not hasattr(self, 'A')`) in a method other than __init__ where E reads a parameter of the method"""
    out, scanned = [], 0
    for mod in modules:
        if mod not in ix.modules:
            continue
        for fi in ix.module(mod).functions.values():
            if isinstance(fi.node, ast.Lambda) or fi.qualname.split(".")[-1] == "__init__":
                continue
            scanned += 1
            params = set(fi.params) - {"self", "cls"}
            if not params:
                continue
            for t in [x for x in body_walk(fi.node) if isinstance(x, ast.If)]:
                tt = u(t.test)
                for st in t.body:
                    if isinstance(st, ast.Assign) and isinstance(st.targets[0], ast.Attribute) and u(st.targets[0].value) == "self":
                        a = u(st.targets[0])
                        named = a in tt or f"'{st.targets[0].attr}'" in tt or f'"{st.targets[0].attr}"' in tt
                        if named and (" is None" in tt or tt.startswith("not ") or "hasattr" in tt):
                            used = sorted({x.id for x in ast.walk(st.value) if isinstance(x, ast.Name)} & params)
                            if used:
                                out.append((fi, st.targets[0].attr, used, st))
    return out, scanned


def r4_fresh_results_and_slot_memos(ctx):
    """(a) every fetch from an indexed FASTA returns memory of its own (provenance analysis shared with C20): a result that aliases a buffer kept on the
    reader is overwritten by the next fetch; (b) a value remembered in a single attribute slot on first use may not depend on an argument of the
    call: the second call with another argument (another FASTA file) would get the first call's value."""
    from .c20 import _analysis
    an = _analysis(ctx)
    n = 0
    for mod, qn in (("bionumpy.io.indexed_fasta", "IndexedFasta.__getitem__"), ("bionumpy.io.indexed_fasta", "IndexedFasta.get_interval_sequences"),
                    ("bionumpy.io.indexed_fasta", "IndexedFasta._get_interval_sequences_fast"), ("bionumpy.io.indexed_fasta", "IndexedFasta._get_interval_sequences"),
                    ("bionumpy.genomic_data.genomic_sequence", "GenomicSequenceIndexedFasta._extract_intervals"),
                    ("bionumpy.genomic_data.genomic_sequence", "GenomicSequenceIndexedFasta.extract_chromosome")):
        if (mod, qn) not in an.summaries:
            continue
        n += 1
        fi = an.funcs[(mod, qn)]
        ret = an.summaries[(mod, qn)].returns
        shared = sorted(str(t) for t in ret if isinstance(t, tuple) and t[0] in ("S",) or (isinstance(t, tuple) and t[0] == "P" and t[1] == 0))
        ctx.ob(fi.where, f"{qn} returns memory of its own, never a view of a buffer kept on the reader (a later fetch must not change an earlier result)", not shared,
               f"return provenance {sorted(map(str, ret))}", key=f"C17-R4|fresh-result|{qn}")
    ctx.floor("indexed FASTA fetch functions with a return summary", n, 4)
    ix = ctx.index
    mods = [m for m in ix.modules if m.startswith("bionumpy.genomic_data") or m.startswith("bionumpy.io")]
    sites, scanned = slot_memo_sites(ix, mods)
    ctx.floor("methods scanned for single-slot memos", scanned, 300)
    for fi, attr, used, st in sites:
        ok = (fi.module.name, fi.qualname, attr) in SLOT_MEMO_OK
        ctx.ob(fi.where, f"`self.{attr}` is filled on first use and returned ever after: its value may not depend on the call's argument(s) {used} "
               "(a later call with another argument would silently get the first value)", ok, u(st)[:120], key=f"C17-R4|slot-memo|{fi.module.name}|{fi.qualname}|{attr}")
    ctx.count("single-slot memos reading a parameter", len(sites))


from ..through_time import make_rule as _mk_tt, make_t2 as _mk_t2
_through_time = _mk_tt("C17")
_small_edits = _mk_t2("C17")

def _interval_order_restored(ctx):
    from .c14 import r4_caches_and_permutations
    with ctx.only("permute", "permuted", "scanned"):
        r4_caches_and_permutations(ctx)    # sequences fetched in a sorted order are put back with the inverse permutation

def _index_reads_every_record_once(ctx):
    """The index is built from the chunks delivered by the chunk reader: the reader's end-of-file handling (terminating a last record without a line end) must
    queue the missing terminator only -- not the pending bytes a second time (the last record would be indexed twice / with a wrong length)."""
    from .c01 import r8_request_and_terminator
    with ctx.only("NumpyFileReader.read_chunk"):
        r8_request_and_terminator(ctx)


def _no_shared_results(ctx):
    from .c20 import r6_memoised_results
    r6_memoised_results(ctx, ("bionumpy.io.indexed_fasta", "bionumpy.io.indexed_files", "bionumpy.genomic_data.genomic_sequence"))   # what the indexed file reports is not a shared, writable object



def _round7_code_tables(ctx):
    from .round7 import code_lookup_tables
    n = code_lookup_tables(ctx, ["bionumpy.genomic_data.genomic_sequence", "bionumpy.io.indexed_fasta", "bionumpy.genomic_data.genome"], "C17-R8")

RULES = [
    ("C17-R1", r1_roles),
    ("C17-R2", r2_byte_arithmetic),
    ("C17-R3", r3_index_builder),
    ("C17-R4", r4_fresh_results_and_slot_memos),
    ("C17-T1", _through_time),
    ("C17-T2", _small_edits),
    ("C17-R5", _interval_order_restored),
    ("C17-R6", _index_reads_every_record_once),
    ("C17-R7", _no_shared_results),
    ("C17-R8", _round7_code_tables),
]
