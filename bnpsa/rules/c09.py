"""C09 - genomic arrays are exact, lossless views of dense per-base arrays.

 R1 symbolic lengths (F-SYMLEN): on every branch combination of GenomicRunLengthArray.from_bedgraph the run-length invariant
    len(values) == len(events) - 1 holds at the constructor call, and events / values are extended together; from_intervals cuts the values
    to len(events) - 1 before construction;
 R2 dense expansion: float values are reinterpreted as the unsigned integer of the *same width* and viewed back as the original dtype;
    the xor-difference / accumulate statements have the form the expansion needs;
 R3 forwarding: ufuncs and array functions on a genome-wide array unwrap every genomic operand *in operand order* and re-wrap with the
    same genome context; per-chromosome views slice [offset, offset + size) in the genome's name order; bedGraph construction uses the
    genome's total size and bounds-checked global coordinates.
"""
from __future__ import annotations
import ast
from fractions import Fraction

from ..index import AnchorMissing, Unrecognised
from ..astutil import linear_body, u, body_walk, local_env, func_calls, walk_local, single_return_expr, inline_locals
from .. import sym

EXPLANATION = ("Static analysis of the genomic-array layer: array lengths in the run-length constructors are tracked as linear forms over symbolic input sizes "
               "through append / insert / slicing on every branch combination and the run-length invariant is checked at the constructor call; the "
               "float-to-unsigned reinterpretation table and the xor-accumulate statements of the dense expansion are compared as constants / normal forms; "
               "the ufunc and array-function forwarding is checked to preserve operand order and the genome context; per-chromosome slicing is compared with "
               "[offset, offset + size). The dense expansion's values and arithmetic results are not decided.")

IV = "bionumpy.arithmetics.intervals"
GT = "bionumpy.genomic_data.genomic_track"


class _Len:
    """symbolic length evaluator for the local arrays of one function: linear forms over symbols (strings)."""

    def __init__(self, known):
        self.known = dict(known)   # expr text -> Poly

    def length(self, n, env):
        t = u(n)
        if t in env:
            return env[t]
        if t in self.known:
            return self.known[t]
        if isinstance(n, ast.Call):
            fn = u(n.func)
            if fn in ("np.append",) and len(n.args) == 2:
                a = self.length(n.args[0], env)
                b = n.args[1]
                if isinstance(b, (ast.List, ast.Tuple)):
                    add = sym.Poly.const(len(b.elts))
                elif isinstance(b, (ast.Constant,)) or (isinstance(b, ast.Subscript) and isinstance(b.slice, (ast.Constant, ast.UnaryOp))) or isinstance(b, ast.Name) and u(b) not in env and u(b) not in self.known:
                    add = sym.Poly.const(1)
                else:
                    add = self.length(b, env)
                return a + add
            if fn == "np.insert" and len(n.args) == 3:
                a = self.length(n.args[0], env)
                idx = n.args[1]
                if isinstance(idx, ast.Constant):
                    return a + sym.Poly.const(1)
                return a + self.length(idx, env)
            if fn == "np.array" and n.args and isinstance(n.args[0], (ast.List, ast.Tuple)):
                return sym.Poly.const(len(n.args[0].elts))
        if isinstance(n, ast.BinOp) and isinstance(n.op, (ast.Add, ast.Sub)) and isinstance(n.right, ast.Constant):
            return self.length(n.left, env)  # elementwise shift keeps the length
        if isinstance(n, ast.Subscript):
            base = self.length(n.value, env)
            sl = n.slice
            if isinstance(sl, ast.Slice) and sl.step is None:
                lo = 0 if sl.lower is None else (sl.lower.value if isinstance(sl.lower, ast.Constant) else None)
                hi = 0 if sl.upper is None else (-sl.upper.operand.value if isinstance(sl.upper, ast.UnaryOp) and isinstance(sl.upper.op, ast.USub) and isinstance(sl.upper.operand, ast.Constant) else None)
                if lo is not None and lo >= 0 and hi is not None:
                    return base - sym.Poly.const(lo) - sym.Poly.const(hi)
            if isinstance(sl, (ast.Name, ast.Attribute, ast.BinOp)):
                return self.length(sl, env)  # fancy index: one element per index
        raise Unrecognised(f"length of `{t[:80]}` cannot be expressed as a linear form")


def r1_symbolic_lengths(ctx):
    ix = ctx.index
    f = ix.func(IV, "GenomicRunLengthArray.from_bedgraph")
    bg = f.params[1]
    N, M = sym.Poly.atom("n_records"), sym.Poly.atom("n_gaps")
    known = {f"{bg}.start": N, f"{bg}.stop": N, f"{bg}.value": N, "missing_idx": M, f"{bg}.stop[missing_idx]": M}
    L = _Len(known)
    paths = []

    def run(stmts, env, trace):
        """enumerate paths; returns list of (env, trace) that fall through, records returns in `paths`"""
        cur = [(dict(env), list(trace))]
        for s in stmts:
            nxt = []
            for e, tr in cur:
                if isinstance(s, ast.If):
                    nxt += run(s.body, e, tr + [f"[{u(s.test)[:50]}]"])
                    nxt += run(s.orelse, e, tr + [f"[not {u(s.test)[:50]}]"]) if s.orelse else [(dict(e), tr + [f"[not {u(s.test)[:50]}]"])]
                elif isinstance(s, ast.Return):
                    paths.append((s, e, tr))
                elif isinstance(s, ast.Assign):
                    t = s.targets[0]
                    if isinstance(t, ast.Tuple) and isinstance(s.value, ast.Tuple):
                        e2 = dict(e)
                        for tt, vv in zip(t.elts, s.value.elts):
                            e2[u(tt)] = L.length(vv, e)
                        nxt.append((e2, tr))
                    elif isinstance(t, ast.Name):
                        e2 = dict(e)
                        try:
                            e2[t.id] = L.length(s.value, e)
                        except Unrecognised:
                            if t.id in ("events", "values", "start", "value"):
                                raise
                            e2.pop(t.id, None)
                        nxt.append((e2, tr))
                    else:
                        nxt.append((e, tr))
                elif isinstance(s, (ast.Assert, ast.Expr, ast.Pass)):
                    nxt.append((e, tr))
                else:
                    raise Unrecognised(f"{f.where}: statement kind {type(s).__name__} in from_bedgraph")
            cur = nxt
        return cur
    run(linear_body(f.node), {}, [])
    ctx.floor("return paths of from_bedgraph", len(paths), 9)
    n_checked = 0
    for ret, env, tr in paths:
        v = ret.value
        ctx.need(isinstance(v, ast.Call) and u(v.func) == "cls" and len(v.args) >= 2, f"{f.where}: return is not cls(events, values)")
        try:
            le, lv = L.length(v.args[0], env), L.length(v.args[1], env)
        except Unrecognised as ex:
            raise Unrecognised(f"{f.where}: {ex} on path {' '.join(tr)}")
        n_checked += 1
        ok = le - lv == sym.Poly.const(1)
        ctx.ob(f.where, "run-length invariant at the constructor call: one value per run, len(values) == len(events) - 1", ok,
               f"path {' '.join(tr)}: len(events) = {le}, len(values) = {lv}", key=f"C09-R1|from_bedgraph|{'|'.join(tr)}")
    ctx.count("paths_checked", n_checked)
    # gap insertion inserts the gap start and a zero value at the same positions
    env = {}
    for s in ast.walk(f.node):
        if isinstance(s, ast.Assign) and isinstance(s.targets[0], ast.Name):
            env.setdefault(s.targets[0].id, []).append(s.value)
    ok = sym.same(env["missing_idx"][0], f"np.flatnonzero({bg}.start[1:] != {bg}.stop[:-1])") and sym.same(env["start"][0], f"np.insert({bg}.start, missing_idx + 1, {bg}.stop[missing_idx])") and \
        sym.same(env["value"][0], f"np.insert({bg}.value, missing_idx + 1, 0)")
    ctx.ob(f.where, "a gap between record i and i+1 becomes a run starting at record i's stop with value 0 (same insertion positions for starts and values)", ok, "", key="C09-R1|gaps")
    ins = [c for c in func_calls(f.node) if u(c.func) == "np.insert" and u(c.args[0]) in ("events", "values")]
    ok = sorted(sym.canon(c) for c in ins) == sorted(["np.insert(events, 0, 0)", "np.insert(values, 0, 0)"])
    ctx.ob(f.where, "a bedGraph that starts after position 0 gets a leading zero run (events and values extended together)", ok, "", key="C09-R1|leading-run")
    fi = ix.func(IV, "GenomicRunLengthArray.from_intervals")
    sts = [s for s in linear_body(fi.node) if isinstance(s, ast.Assign) and u(s.targets[0]) == "values"]
    ok = bool(sts) and sym.canon(sts[-1].value) == sym.canon(sym.parse_expr("values[:len(events) - 1]"))
    rets = [s for s in linear_body(fi.node) if isinstance(s, ast.Return)]
    ok = ok and bool(rets) and sym.canon(rets[-1].value) == "cls(events, values, do_clean=True)" and sts[-1].lineno < rets[-1].lineno
    ctx.ob(fi.where, "from_intervals cuts the interleaved values to len(events) - 1 immediately before construction", ok, "", key="C09-R1|from_intervals-cut")
    ev = [s for s in linear_body(fi.node) if isinstance(s, ast.Assign) and u(s.targets[0]) == "events"]
    ok = bool(ev) and sym.canon(ev[0].value) == sym.canon(sym.parse_expr(f"np.empty(len(prefix) + len(postfix) + {fi.params[1]}.size + {fi.params[2]}.size, dtype=int)"))
    ctx.ob(fi.where, "events = optional 0 + interleaved starts/ends + optional size", ok, "", key="C09-R1|from_intervals-events")


def r2_dense_expansion(ctx):
    ix = ctx.index
    f = ix.func(IV, "GenomicRunLengthArray.to_array")
    table = {}
    chain = [s for s in linear_body(f.node) if isinstance(s, ast.If) and "dtype" in u(s.test) and "float" in u(s.test)]
    if len(chain) == 1:
        n = chain[0]
        while True:
            t = n.test
            if isinstance(t, ast.Compare) and u(t.left) == "values.dtype" and len(n.body) == 1 and isinstance(n.body[0], ast.Assign) and isinstance(n.body[0].value, ast.Call) \
                    and u(n.body[0].value.func) == "values.view":
                table[u(t.comparators[0])] = u(n.body[0].value.args[0])
            if len(n.orelse) == 1 and isinstance(n.orelse[0], ast.If):
                n = n.orelse[0]
            else:
                break
    want = {"np.float64": "np.uint64", "np.float32": "np.uint32", "np.float16": "np.uint16"}
    rets = [s for s in linear_body(f.node) if isinstance(s, ast.Return)]
    back = sym.canon(rets[-1].value) if rets else ""
    if table:
        bad = {k: v for k, v in table.items() if want.get(k) != v}
        ctx.ob(f.where, "each float width is reinterpreted as the unsigned integer of the same width (64/32/16)", not bad and set(table) == set(want), str(table), key="C09-R2|width-table")
    else:
        txt = u(f.node)
        if ".astype(np.float64)" in txt or ".astype(float)" in txt:
            ctx.ob(f.where, "floats are reinterpreted at their own width (widening to 64 bits and viewing the result back as the original dtype changes the element count)", False,
                   "values are cast to float64 before the unsigned view but the result is viewed back as the original dtype", key="C09-R2|width-table")
        else:
            raise Unrecognised(f"{f.where}: float reinterpretation has an unknown form")
    ctx.ob(f.where, "the dense array is viewed back as the values' own dtype", back == "array.view(self._values.dtype)", back, key="C09-R2|view-back")
    seq = {}
    for s in linear_body(f.node):
        if isinstance(s, ast.Assign):
            seq[sym.canon(s.targets[0])] = sym.canon(s.value)
    ok = seq.get("diffs") == "op(values[:-1], values[1:])" and seq.get("array[self._starts[1:]]") == "diffs" and seq.get("array[self._starts[0]]") == "values[0]" and \
        seq.get("op") == sym.canon(sym.parse_expr("np.logical_xor if array.dtype == bool else np.bitwise_xor")) and seq.get("array") == "np.zeros_like(values, shape=len(self))"
    acc = [c for c in func_calls(f.node) if u(c.func) == "op.accumulate"]
    ok = ok and len(acc) == 1 and sym.canon(acc[0]) == "op.accumulate(array, out=array)"
    ctx.ob(f.where, "dense expansion: value changes are written at run starts (xor of neighbours), the first value at the first start, then xor-accumulated over a zero array of the full length",
           ok, "", key="C09-R2|xor-accumulate")


def r3_forwarding(ctx):
    ix = ctx.index
    au = ix.func(GT, "GenomicArrayGlobal.__array_ufunc__")
    env = {}
    for s in linear_body(au.node):
        if isinstance(s, ast.Assign) and isinstance(s.targets[0], ast.Name):
            env.setdefault(s.targets[0].id, []).append(s.value)
    calls = [c for c in func_calls(au.node) if u(c.func) == "self._global_track.__array_ufunc__"]
    ctx.need(len(calls) == 1, "ufunc forwarding call not found")
    starred = [a for a in calls[0].args if isinstance(a, ast.Starred)]
    one_list = len(starred) == 1 and u(starred[0].value) == "inputs" and len(env.get("inputs", [])) == 1 and \
        sym.canon(env["inputs"][0]) == sym.canon(sym.parse_expr("[i._global_track if isinstance(i, GenomicArrayGlobal) else i for i in inputs]"))
    ctx.ob(au.where, "ufuncs are forwarded with every operand in its original position, genomic operands replaced by their global run-length arrays (s - track is not track - s)",
           one_list, u(calls[0]), key="C09-R3|ufunc-order")
    ok = [u(a) for a in calls[0].args[:2]] == ["ufunc", "method"] and any(k.arg is None and u(k.value) == "kwargs" for k in calls[0].keywords)
    ctx.ob(au.where, "the same ufunc, method and keyword arguments are forwarded", ok, "", key="C09-R3|ufunc-args")
    rets = [s for s in linear_body(au.node) if isinstance(s, ast.Return)]
    ok = bool(rets) and sym.canon(rets[-1].value) == "self.__class__(r, self._genome_context)"
    ctx.ob(au.where, "the result is re-wrapped with the same genome context", ok, "", key="C09-R3|ufunc-rewrap")
    af = ix.func(GT, "GenomicArrayGlobal.__array_function__")
    txt = u(af.node)
    ok = "args = [i._global_track if isinstance(i, GenomicArrayGlobal) else i for i in args]" in txt and "if func == np.histogram:\n        return np.histogram(*args, **kwargs)" in txt and \
        "if func == np.sum:\n        return self.sum(*args[1:], **kwargs)" in txt
    ctx.ob(af.where, "np.histogram / np.sum are computed on the global run-length array (operands unwrapped in order)", ok, "", key="C09-R3|array-function")
    # reductions: the genome-wide array's sum IS the run-length array's own sum (numpy's default accumulator); a hand-made reduction is accepted only without an
    # accumulator tied to the (possibly compact) dtype of the run values
    sm = ix.func(GT, "GenomicArrayGlobal.sum")
    envs = local_env(sm.node)
    e = single_return_expr(sm.node)
    ctx.need(e is not None, "GenomicArrayGlobal.sum: single return not found")
    ei = inline_locals(e, envs)
    deleg = sym.canon(ei) in (sym.canon(sym.parse_expr("self._global_track.sum(axis=None)")), sym.canon(sym.parse_expr("self._global_track.sum()")),
                              sym.canon(sym.parse_expr("np.sum(self._global_track)")))
    if not deleg:
        narrow = [k for c in ast.walk(ei) if isinstance(c, ast.Call) for k in c.keywords if k.arg == "dtype" and isinstance(k.value, ast.Attribute) and k.value.attr == "dtype"]
        if not narrow:
            raise Unrecognised(f"{sm.where}: the sum of a genome-wide array is computed as `{u(ei)[:100]}`")
    ctx.ob(sm.where, "the sum of a genome-wide array is the run-length array's own sum, accumulated in numpy's default accumulator (not in the dtype of the run values, "
           "which may be as small as uint8)", deleg, u(ei)[:100], key="C09-R3|sum-delegates", definite=True)
    td = ix.func(GT, "GenomicArrayGlobal.to_dict")
    env = local_env(td.node)
    e = single_return_expr(td.node)
    ok = e is not None and sym.canon(e) == sym.canon(sym.parse_expr(
        "{name: self._global_track[offset:offset + size].to_array() for name, offset, size in zip(self._genome_context.global_offset.names(), "
        "self._genome_context.global_offset.get_offset(self._genome_context.global_offset.names()), self._genome_context.global_offset.get_size(self._genome_context.global_offset.names()))}"))
    ctx.ob(td.where, "per-chromosome dense arrays are the slices [offset, offset + size) of the global array, in the genome's name order", ok, u(e)[:120] if e is not None else "", key="C09-R3|to_dict")
    gd = ix.func(GT, "GenomicArrayGlobal.get_data")
    env = local_env(gd.node)
    ok = sym.same(env.get("starts"), "go.get_offset(names)", {}) and sym.same(env.get("stops"), "starts + go.get_size(names)", {}) and sym.same(env.get("names"), "go.names()", {}) and \
        "data = self._global_track[start:stop]" in u(gd.node) and "for name, start, stop in zip(names, starts, stops):" in u(gd.node)
    rets = [s for s in linear_body(gd.node) if isinstance(s, ast.Return)]
    ok = ok and bool(rets) and sym.canon(rets[-1].value) == "np.concatenate(intervals_list)"
    ctx.ob(gd.where, "back-conversion walks the chromosomes in genome order, slicing [offset, offset + size) and concatenating the per-chromosome records", ok, "", key="C09-R3|get_data")
    gi = ix.func(GT, "GenomicArray._get_intervals_from_data")
    txt = u(gi.node)
    nm, d = gi.params[1], gi.params[2]
    ok = f"if {d}.dtype == bool:" in txt and f"return Interval([{nm}] * len({d}.starts), {d}.starts, {d}.ends)[{d}.values]" in txt and \
        f"return BedGraph([{nm}] * len({d}.starts), {d}.starts, {d}.ends, {d}.values)" in txt
    ctx.ob(gi.where, "a boolean array converts to the intervals of its True runs, any other array to a bedGraph of all runs", ok, "", key="C09-R3|back-conversion")
    fb = ix.func(GT, "GenomicArray.from_bedgraph")
    txt = u(fb.node)
    bg, gc = fb.params[1], fb.params[2]
    ok = f"go = {gc}.global_offset" in txt and f"gi = go.from_local_interval({bg})" in txt and "rle = GenomicRunLengthArray.from_bedgraph(gi, go.total_size())" in txt
    ctx.ob(fb.where, "an in-memory bedGraph is placed at bounds-checked global coordinates and padded to the genome's total size", ok, "", key="C09-R3|from_bedgraph")
    ok = f"filled = {gc}.iter_chromosomes({bg}, BedGraph)" in txt and f"StreamNode(iter({gc}.chrom_sizes.values()))" in txt and "ComputationNode(GenomicRunLengthArray.from_bedgraph, [interval_stream" in txt
    ctx.ob(fb.where, "a streamed bedGraph is built per chromosome in genome order, each padded to its own chromosome's size", ok, "", key="C09-R3|from_bedgraph-stream")
    init = ix.func(GT, "GenomicArrayGlobal.__init__")
    ok = "assert isinstance(global_track, GenomicRunLengthArray)" in u(init.node)
    ctx.ob(init.where, "a genome-wide array holds one run-length array over the concatenated chromosomes", ok, "", key="C09-R3|init")


C09_MODS = ["bionumpy.genomic_data.genomic_track", "bionumpy.genomic_data.genomic_data", "bionumpy.genomic_data.genome", "bionumpy.genomic_data.global_offset",
            "bionumpy.genomic_data.genome_context", "bionumpy.genomic_data.genome_context_base", "bionumpy.arithmetics.intervals", "bionumpy.genomic_data.geometry"]


def r4_caches_and_bedgraph(ctx):
    """(a) a dict that caches derived values across calls (class- or module-level) is keyed by everything the value is computed from: a slice of the
    global track cached per chromosome NAME is reused for another genome with the same name; (b) bedGraph -> run lengths: both branches build the events
    and values from the gap-filled starts / values, never from the file's own columns (which have no runs for the gaps)."""
    from .. import memo
    mods = [m for m in C09_MODS if m in ctx.index.modules]
    n = memo.check_dict_caches(ctx, mods, rule_prefix="C09-R4")
    ctx.count("dict-cache stores examined", n)
    # class-level mutable containers in the genomic array classes (shared by every instance): none may be filled by a method
    ix = ctx.index
    shared = 0
    for mod in mods:
        for ci in ix.module(mod).classes.values():
            for nm, v in ci.attrs.items():
                if isinstance(v, (ast.Dict, ast.List, ast.Set)) or (isinstance(v, ast.Call) and u(v.func) in ("dict", "list", "set", "defaultdict")):
                    shared += 1
                    writers = []
                    for fi in ci.methods.values():
                        for x in body_walk(fi.node):
                            if isinstance(x, ast.Assign) and isinstance(x.targets[0], ast.Subscript) and u(x.targets[0].value) in (f"self.{nm}", f"cls.{nm}", f"self.__class__.{nm}", f"{ci.name}.{nm}"):
                                writers.append((fi, x))
                    for fi, x in writers:
                        reads_self = sorted({a.attr for a in ast.walk(inline_locals(x.value, local_env(fi.node))) if isinstance(a, ast.Attribute) and u(a.value) == "self" and a.attr != nm})
                        key_reads = sorted({a.attr for a in ast.walk(x.targets[0].slice) if isinstance(a, ast.Attribute) and u(a.value) == "self"})
                        ok = not [r for r in reads_self if r not in key_reads]
                        ctx.ob(fi.where, f"`{ci.name}.{nm}` is shared by every instance: a value stored in it may depend on instance state only if that state is part of the key",
                               ok, f"{u(x)[:120]} reads self.{reads_self}, key names self.{key_reads}", key=f"C09-R4|class-level-cache|{ci.name}|{nm}")
    ctx.count("class-level mutable containers", shared)
    f = ix.func("bionumpy.arithmetics.intervals", "GenomicRunLengthArray.from_bedgraph")
    bg = f.params[1]
    ev = [n_ for n_ in body_walk(f.node) if isinstance(n_, ast.Assign) and u(n_.targets[0]) in ("events", "values")]
    ctx.floor("event / value constructions in from_bedgraph", len(ev), 4)
    for a in ev:
        cols = {x.attr for x in ast.walk(a.value) if isinstance(x, ast.Attribute) and u(x.value) == bg and x.attr in ("start", "value")}
        ctx.ob(f.where, f"`{u(a.targets[0])}` of the run-length array is built from the gap-filled starts / values (the bedGraph's own columns have no zero runs for the gaps "
               "between records)", not cols, u(a), key=f"C09-R4|gap-filled|{u(a.targets[0])}|{sym.canon(a.value)[:60]}")


def r6_sorted_sizes_and_fresh_dense(ctx):
    """(a) `sort_names=True` re-orders the chromosome table: every name keeps ITS size (keys and values are permuted together); (b) the dense array of a
    chromosome is new memory (a view of the run-length values would let a caller's in-place edit change the track)."""
    ix = ctx.index
    g = ix.func("bionumpy.genomic_data.genome", "Genome.__init__")
    cs = g.params[1]
    asg = [x for x in body_walk(g.node) if isinstance(x, ast.Assign) and u(x.targets[0]) == cs]
    ctx.floor("re-orderings of the chromosome size table in Genome.__init__", len(asg), 1)
    for a in asg:
        v = a.value
        if isinstance(v, ast.DictComp) and len(v.generators) == 1 and isinstance(v.generators[0].target, ast.Name):
            k = v.generators[0].target.id
            ok = u(v.key) == k and sym.canon(v.value) == f"{cs}[{k}]" and sym.canon(v.generators[0].iter) in (f"sorted({cs}.keys())", f"sorted({cs})")
        elif isinstance(v, ast.Call) and u(v.func) == "dict" and len(v.args) == 1 and sym.canon(v.args[0]) in (f"sorted({cs}.items())",):
            ok = True
        elif isinstance(v, ast.Call) and u(v.func) == "dict" and len(v.args) == 1 and isinstance(v.args[0], ast.Call) and u(v.args[0].func) == "zip":
            z = v.args[0].args
            ok = len(z) == 2 and ("sorted" in u(z[0])) == ("sorted" in u(z[1])) and "sorted" not in u(z[0])      # sorting one side only mis-pairs names and sizes
        else:
            raise Unrecognised(f"{g.where}: the chromosome table is re-ordered in an unknown form: {u(a)}")
        ctx.ob(g.where, "sorting the chromosome names keeps every name paired with its own size", ok, u(a), key="C09-R6|sorted-sizes")
    from .c20 import _analysis
    an = _analysis(ctx)
    key = ("bionumpy.arithmetics.intervals", "GenomicRunLengthArray.to_array")
    ctx.need(key in an.summaries, "GenomicRunLengthArray.to_array has no summary")
    ret = an.summaries[key].returns
    shared = sorted(str(t) for t in ret if isinstance(t, tuple))
    ctx.ob(an.funcs[key].where, "the dense array of a run-length array is new memory (never the array of run values itself)", not shared, f"return provenance {sorted(map(str, ret))}",
           key="C09-R6|dense-fresh", definite=True)


from ..through_time import make_rule as _mk_tt, make_t2 as _mk_t2
_through_time = _mk_tt("C09")
_small_edits = _mk_t2("C09")

def _genome_size_and_bins(ctx):
    from .c10 import r8_bins_size_strand
    r8_bins_size_strand(ctx)   # genome-wide arrays are sized with GenomeContext.size

def _context_and_merge(ctx):
    from .c12 import r4_context_immutable
    from .c08 import r1_merge
    r4_context_immutable(ctx)              # the set of ignored contigs decides the layout of every genome-wide array
    r1_merge(ctx)                          # boolean masks are built from merged intervals


def _round7_shortcuts(ctx):
    from ..idioms import check_endpoint_samples
    from .round7 import code_lookup_tables
    mods = [m for m in ctx.index.modules if m.startswith("bionumpy.genomic_data") or m.startswith("bionumpy.arithmetics") or m.startswith("bionumpy.streams") or m == "bionumpy.io.indexed_fasta"]
    check_endpoint_samples(ctx, mods, "C09-R8")
    code_lookup_tables(ctx, mods, "C09-R8")

RULES = [
    ("C09-R1", r1_symbolic_lengths),
    ("C09-R2", r2_dense_expansion),
    ("C09-R3", r3_forwarding),
    ("C09-R4", r4_caches_and_bedgraph),
    ("C09-T1", _through_time),
    ("C09-T2", _small_edits),
    ("C09-R5", _genome_size_and_bins),
    ("C09-R6", r6_sorted_sizes_and_fresh_dense),
    ("C09-R7", _context_and_merge),
    ("C09-R8", _round7_shortcuts),
]
