"""C15 - malformed input is reported, with the right line number, not mis-parsed.

 R1 the chunk's line offset is added exactly once on every propagation path of a format error (exception-flow analysis):
    abstract value per function = set of counts {0,1,2} of offset additions a FormatException leaving the function has received;
    raise sites give 0 (or 1 when the line number is already global), `except FormatException as e: e.line_number += X; raise e` maps n -> n+1,
    pass-through handlers map n -> n, converting handlers end the path; calls fan out over the buffer class family by method name.
    Entry points: NpDataclassReader.read_chunk and ItemGetter.__call__ must see exactly {1}; whole-file read must see {0}.
    The offset X is the line count *before* this chunk; the lazy offset is data, so its sources are checked too;
 R2 validation is on the construction path; n_lines counts lines (entries x lines per entry for line-group formats);
 R3 the EncodingError -> FormatException conversion re-raises on every path and computes the row from the error offset;
 R4 characters outside a column's alphabet are errors (= C06-R1).
"""
from __future__ import annotations
import ast

from ..index import AnchorMissing, Unrecognised, ClassInfo
from ..cfg import CFG
from ..astutil import linear_body, u, body_walk, local_env, func_calls, walk_local, single_return_expr, always_terminates
from ..pend import edge_facts
from .. import sym

EXPLANATION = ("Static exception-flow analysis of the line-number bookkeeping: for every function the set of possible numbers of offset additions carried by a "
               "format error leaving it is computed to a fixpoint over a call graph that fans attribute calls out over the buffer-class family; the reader "
               "entry points must see exactly one addition (zero for whole-file reads), the added quantity must be the line count before the chunk, and the "
               "lazy route's start line must be passed wherever a chunk's item getter is built. Validation calls and the encoding-error conversion are "
               "checked structurally. The in-chunk row number itself is value-level except for the conversion formula.")

FE = "FormatException"
FAMILY_ROOTS = [("bionumpy.io.file_buffers", "FileBuffer"), ("bionumpy.io.file_buffers", "TextBufferExtractor"), ("bionumpy.bnpdataclass.lazybnpdataclass", "ItemGetter")]


def _family(ix):
    out = []
    for mod, qn in FAMILY_ROOTS:
        root = ix.cls(mod, qn)
        out += [c for c in ix.subclasses(root) if "_legacy" not in c.module.name]
    # the lazy table class
    for c in ix.all_classes():
        if c.qualname.endswith("create_lazy_class.<locals>.NewClass"):
            out.append(c)
    return out


class Flow:
    def __init__(self, ctx):
        self.ix = ctx.index
        self.family = _family(self.ix)
        self.by_method = {}
        for c in self.family:
            for name, fi in c.methods.items():
                self.by_method.setdefault(name, []).append(fi)
        self.funcs = {}
        for mi in self.ix.modules.values():
            if "_legacy" in mi.name or not (mi.name.startswith(("bionumpy.io", "bionumpy.bnpdataclass", "bionumpy.encodings")) or mi.name in ("bionumpy.encoded_array", "bionumpy.string_array")):
                continue
            for qn, fi in mi.functions.items():
                if not isinstance(fi.node, ast.Lambda):
                    self.funcs[(mi.name, qn)] = fi
        self._callee_cache = {}
        self.counts = {k: frozenset() for k in self.funcs}
        self.adds = []  # (function, handler node, added expression)
        self.fixpoint()

    def callees(self, fi, call):
        k = id(call)
        if k not in self._callee_cache:
            self._callee_cache[k] = self._callees(fi, call)
        return self._callee_cache[k]

    def _callees(self, fi, call):
        f = call.func
        out = []
        if isinstance(f, ast.Name):
            r = self.ix.resolve_name(fi.module, f.id)
            from ..index import FuncInfo
            if isinstance(r, FuncInfo):
                out.append(r)
            elif isinstance(r, ClassInfo) and "__init__" in r.methods:
                out.append(r.methods["__init__"])
            return out
        if isinstance(f, ast.Attribute):
            name = f.attr
            if isinstance(f.value, ast.Name) and f.value.id in ("self", "cls") and fi.cls is not None:
                # the method in this class's family: own MRO and overriding subclasses
                cands = [c.methods[name] for c in self.ix.subclasses(fi.cls) if name in c.methods]
                m = self.ix.lookup_method(fi.cls, name)
                if m is not None:
                    cands.append(m)
                return list({id(x): x for x in cands}.values())
            if isinstance(f.value, ast.Call) and u(f.value.func) == "super" and fi.cls is not None:
                for c in self.ix.mro(fi.cls)[1:]:
                    if name in c.methods:
                        return [c.methods[name]]
                return []
            if name in self.by_method and name not in ("append", "get", "items", "copy", "read", "write", "close", "seek", "ravel"):
                return self.by_method[name]
        if isinstance(f, ast.Call):
            return []
        return out

    def analyse(self, fi):
        """counts of a FormatException escaping fi"""
        res = set()

        def stmts(body, handlers):
            # handlers: list of ('add'|'pass'|'stop') transformations that enclose this code, innermost last
            for s in body:
                visit(s, handlers)

        def apply(cs, handlers):
            out = set(cs)
            for h in reversed(handlers):
                if h == "stop":
                    return set()
                if h == "add":
                    out = {min(c + 1, 2) for c in out}
            return out

        def expr_calls(node, handlers):
            for c in walk_local(node):
                if isinstance(c, ast.Call):
                    for g in self.callees(fi, c):
                        key = (g.module.name, g.qualname)
                        if key in self.counts:
                            res.update(apply(self.counts[key], handlers))

        def classify_handler(h):
            """-> 'add' | 'pass' | 'stop' | None (does not catch FormatException)"""
            t = u(h.type) if h.type is not None else "Exception"
            names = {x.strip() for x in t.strip("()").split(",")}
            catches = bool(names & {FE, "Exception", "BaseException", "ParsingException"})
            if not catches:
                return None
            body_txt = [u(x) for x in h.body]
            adds = [x for x in ast.walk(h) if isinstance(x, ast.AugAssign) and isinstance(x.op, ast.Add) and u(x.target).endswith(".line_number")]
            reraises = any(isinstance(x, ast.Raise) and (x.exc is None or u(x.exc) == h.name) for x in ast.walk(h))
            if FE in names:
                if adds and reraises:
                    for a in adds:
                        self.adds.append((fi, h, a.value))
                    return "add"
                if reraises:
                    return "pass"
                return "stop"
            # generic handler: passes FormatException through if it re-raises it
            if any(isinstance(x, ast.If) and "isinstance" in u(x.test) and FE in u(x.test) and any(isinstance(y, ast.Raise) for y in x.body) for x in ast.walk(h)):
                return "pass"
            if reraises and not any(isinstance(x, ast.Raise) and x.exc is not None and u(x.exc) != h.name for x in h.body):
                return "pass"
            return "stop"

        def visit(s, handlers):
            if isinstance(s, (ast.FunctionDef, ast.AsyncFunctionDef, ast.ClassDef)):
                return
            if isinstance(s, ast.Try):
                kinds = [classify_handler(h) for h in s.handlers]
                k = [x for x in kinds if x is not None]
                inner = handlers + ([k[0]] if k else [])
                stmts(s.body, inner)
                for h in s.handlers:
                    stmts(h.body, handlers)
                stmts(s.orelse, handlers)
                stmts(s.finalbody, handlers)
                return
            if isinstance(s, ast.Raise):
                if s.exc is not None and isinstance(s.exc, ast.Call) and u(s.exc.func).split(".")[-1] == FE:
                    ln = [k.value for k in s.exc.keywords if k.arg == "line_number"]
                    base = 1 if (ln and "n_lines_read" in u(ln[0])) else 0
                    res.update(apply({base}, handlers))
                    for a in s.exc.args:
                        expr_calls(a, handlers)
                return
            for fld in ("body", "orelse", "finalbody"):
                sub = getattr(s, fld, None)
                if isinstance(sub, list) and sub and isinstance(sub[0], ast.stmt):
                    stmts(sub, handlers)
            for fld, val in ast.iter_fields(s):
                if isinstance(val, ast.expr):
                    expr_calls(val, handlers)
                elif isinstance(val, list):
                    for v in val:
                        if isinstance(v, ast.expr):
                            expr_calls(v, handlers)
                        elif isinstance(v, ast.withitem):
                            expr_calls(v.context_expr, handlers)
        stmts(linear_body(fi.node), [])
        return frozenset(res)

    def fixpoint(self):
        for _ in range(12):
            changed = False
            self.adds = []
            for key, fi in self.funcs.items():
                new = self.analyse(fi)
                if new != self.counts[key]:
                    self.counts[key] = new
                    changed = True
            if not changed:
                break


def r1_offset_exactly_once(ctx):
    ix = ctx.index
    fl = Flow(ctx)
    n_raise = sum(1 for k, fi in fl.funcs.items() for x in body_walk(fi.node) if isinstance(x, ast.Raise) and x.exc is not None and isinstance(x.exc, ast.Call)
                  and u(x.exc.func).split(".")[-1] == FE)
    ctx.count("format_exception_raise_sites", n_raise)
    ctx.floor("FormatException raise sites in the package", n_raise, 6)
    ctx.count("functions_that_can_leak_a_format_error", sum(1 for v in fl.counts.values() if v))
    RD = "bionumpy.io.npdataclassreader"
    LZ = "bionumpy.bnpdataclass.lazybnpdataclass"
    entries = [((RD, "NpDataclassReader.read_chunk"), {1}, "chunked read (construction-time validation and eager parsing)"),
               ((LZ, "ItemGetter.__call__"), {1}, "lazy field access"),
               (("bionumpy.io.parser", "NumpyFileReader.read_chunk"), {1}, "raw chunk reader (validation while cutting the chunk)")]
    for key, want, what in entries:
        fi = ix.func(*key)
        got = set(fl.counts[key])
        ctx.ob(fi.where, f"{what}: every format error leaving {key[1]} has had the chunk's line offset added exactly once", got == want,
               f"possible numbers of offset additions: {sorted(got)} (0 = chunk-relative line number escapes, 2 = offset added twice)", key=f"C15-R1|{key[1]}|count", definite=True)
    whole = (RD, "NpDataclassReader.read")
    got = set(fl.counts[whole])
    ctx.ob(ix.func(*whole).where, "whole-file read: line numbers are already global, no offset is added", got <= {0}, str(sorted(got)), key="C15-R1|read|count")
    # what is added
    want_x = {("bionumpy.io.parser", "NumpyFileReader.read_chunk"): "self.n_lines_read", (RD, "NpDataclassReader.read_chunk"): "n_lines_read",
              (LZ, "ItemGetter.__call__"): "self._start_line"}
    seen = {}
    for fi, h, x in fl.adds:
        seen.setdefault((fi.module.name, fi.qualname), []).append(u(x))
    for key, w in want_x.items():
        ok = bool(seen.get(key)) and all(v == w for v in seen[key])
        ctx.ob(ix.func(*key).where, f"the added offset is the number of lines delivered before this chunk (`{w}`)", ok, str(seen.get(key)), key=f"C15-R1|{key[1]}|offset")
    extra = sorted(k for k in seen if k not in want_x)
    ctx.ob("bionumpy", "no other function adds a line offset to format errors", not extra, str(extra), key="C15-R1|no-other-adders")
    # the reader's counter is advanced only after the chunk was cut (the handlers read it before)
    rc = ix.func("bionumpy.io.parser", "NumpyFileReader.read_chunk")
    g = CFG(rc.node)
    inc = [n for n in g.stmt_nodes(ast.AugAssign) if u(n.ast.target) == "self.n_lines_read"]
    tries = [n for n in g.nodes if n.kind == "handler"]
    ok = len(inc) == 1 and sym.canon(inc[0].ast.value) == "buff.n_lines" and all(g.path([inc[0]], [t]) is None for t in tries)
    ctx.ob(rc.where, "the delivered-lines counter advances by the chunk's own line count, after every place that may report an error for this chunk", ok, "", key="C15-R1|counter-order")
    # who writes the counter: it starts at 0 (lines are counted from the start of the DATA; the whole-file path, which adds nothing, counts the same way) and is
    # written nowhere but at the one increment above
    stores = []
    for mn, mi in ix.modules.items():
        if not mn.startswith("bionumpy.io"):
            continue
        for qn, fi in mi.functions.items():
            if isinstance(fi.node, ast.Lambda):
                continue
            for x in walk_local(fi.node):
                tg = []
                if isinstance(x, ast.Assign):
                    tg = x.targets
                elif isinstance(x, (ast.AugAssign, ast.AnnAssign)):
                    tg = [x.target]
                for t in tg:
                    for tt in (t.elts if isinstance(t, ast.Tuple) else [t]):
                        if isinstance(tt, ast.Attribute) and tt.attr == "n_lines_read":
                            stores.append((fi, x))
    ctx.floor("stores to the delivered-lines counter", len(stores), 2)
    for fi, x in stores:
        if fi.qualname == "NumpyFileReader.__init__":
            ok = isinstance(x, ast.Assign) and isinstance(x.value, ast.Constant) and x.value.value == 0 and type(x.value.value) is int
            what = "the delivered-lines counter starts at 0: lines are counted from the start of the data, header lines excluded, exactly as the whole-file path counts them"
        elif fi.qualname == "NumpyFileReader.read_chunk":
            ok = isinstance(x, ast.AugAssign) and isinstance(x.op, ast.Add)
            what = "the counter is only ever advanced (+=) in read_chunk"
        else:
            ok = False
            what = "no other function writes the delivered-lines counter"
        ctx.ob(f"{fi.module.relpath}:{x.lineno} {fi.qualname}", what, ok, u(x), key=f"C15-R1|counter-store|{fi.qualname}", definite=True)
    # snapshot before the reader call, reader call outside the try
    dr = ix.func(RD, "NpDataclassReader.read_chunk")
    g = CFG(dr.node)
    snap = [n for n in g.stmt_nodes(ast.Assign) if u(n.ast.targets[0]) == "n_lines_read"]
    call = [n for n in g.stmt_nodes(ast.Assign) if isinstance(n.ast.value, ast.Call) and u(n.ast.value.func) == "self._reader.read_chunk"]
    ok = len(snap) == 1 and len(call) == 1 and u(snap[0].ast.value) == "self._reader.n_lines_read" and g.dominates(snap[0], call[0]) and g.path([call[0]], [snap[0]]) is None
    ctx.ob(dr.where, "the line count is snapshotted before the chunk is read (it is the count *before* this chunk)", ok, "", key="C15-R1|snapshot-first")
    in_try = any(x is call[0].ast for t in ast.walk(dr.node) if isinstance(t, ast.Try) for b in t.body for x in ast.walk(b)) if call else True
    ctx.ob(dr.where, "the raw chunk read (which adds the offset itself) is outside this function's handler", not in_try, "", key="C15-R1|reader-outside-try", definite=True)
    # lazy offset sources
    sites = []
    for key, fi in fl.funcs.items():
        for c in func_calls(fi.node):
            if u(c.func) == "ItemGetter" and len(c.args) >= 2:
                sites.append((fi, c))
    ctx.floor("ItemGetter construction sites", len(sites), 3)
    for fi, c in sites:
        has = len(c.args) >= 3 or any(k.arg == "start_line" for k in c.keywords)
        where = f"{fi.module.relpath}:{c.lineno} {fi.qualname}"
        if fi.qualname == "NpDataclassReader.read_chunk":
            ok = has and u(c.args[2]) == "n_lines_read"
            ctx.ob(where, "chunked lazy read passes the lines-before-this-chunk snapshot as the item getter's start line", ok, u(c), key="C15-R1|start-line|read_chunk")
        elif fi.qualname == "NpDataclassReader.read":
            ctx.ob(where, "whole-file lazy read needs no start line", True, u(c))
        else:
            ctx.ob(where, "an item getter built over (part of) a chunk carries the chunk's start line (otherwise its format errors are chunk-relative)", has, u(c),
                   key=f"C15-R1|start-line|{fi.qualname}")
    cc = ix.func(LZ, "ItemGetter.concatenate")
    e = single_return_expr(cc.node)
    ok = e is not None and isinstance(e, ast.Call) and len(e.args) == 3 and u(e.args[2]) == f"{cc.params[1]}[0]._start_line"
    ctx.ob(cc.where, "concatenated item getters keep the first operand's start line", ok, "", key="C15-R1|start-line|concatenate")


def r2_validation_on_construction(ctx):
    ix = ctx.index
    fr = ix.func("bionumpy.io.one_line_buffer", "OneLineBuffer.from_raw_buffer")
    g = CFG(fr.node)
    val = [n for n in g.nodes if n.kind == "stmt" and any(isinstance(c, ast.Call) and u(c.func) == "cls._validate" for c in walk_local(n.ast))]
    rets = g.stmt_nodes(ast.Return)
    ok = len(val) == 1 and all(g.dominates(val[0], r) for r in rets) and sym.canon(val[0].ast.value) == "cls._validate(data, new_lines)"
    ctx.ob(fr.where, "line-group formats are validated (record markers) before a buffer is constructed", ok, "", key="C15-R2|validate-dominates")
    fq = ix.func("bionumpy.io.fastq_buffer", "FastQBuffer._validate")
    first = [s for s in linear_body(fq.node) if not (isinstance(s, ast.Expr) and isinstance(s.value, ast.Constant))][0]
    ok = isinstance(first, ast.Expr) and sym.canon(first.value) == f"super()._validate({fq.params[1]}, {fq.params[2]})"
    ctx.ob(fq.where, "FASTQ validation first runs the marker check of the base class, then the '+' line check", ok, u(first), key="C15-R2|fastq-super")
    env = local_env(fq.node)
    d, nl = fq.params[1], fq.params[2]
    tests = [n for n in linear_body(fq.node) if isinstance(n, ast.If)]
    ok = len(tests) == 1 and sym.canon(tests[0].test, env) == sym.canon(sym.parse_expr(f"np.any({d}[{nl}[1::cls.n_lines_per_entry] + 1] != '+')"))
    ctx.ob(fq.where, "FASTQ: the third line of every record must start with '+'", ok, u(tests[0].test) if tests else "", key="C15-R2|fastq-plus-test")
    ln = [x for x in body_walk(fq.node) if isinstance(x, ast.Assign) and u(x.targets[0]) == "line_number"]
    ok = len(ln) == 1 and sym.poly(ln[0].value, {k: v for k, v in env.items() if k == "n_lines_per_entry"}) == sym.poly(sym.parse_expr("2 + entry_number * cls.n_lines_per_entry"))
    ctx.ob(fq.where, "FASTQ: reported line = 2 + record index * lines per record", ok, u(ln[0].value) if ln else "", key="C15-R2|fastq-line")
    ov = ix.func("bionumpy.io.one_line_buffer", "OneLineBuffer._validate")
    env = local_env(ov.node)
    ln = [x for x in body_walk(ov.node) if isinstance(x, ast.Assign) and u(x.targets[0]) == "line_number"]
    forms = sorted(sym.canon(x.value, {k: v for k, v in env.items() if k in ("header_idxs",)}) for x in ln)
    d, nl = ov.params[1], ov.params[2]
    ok = len(ln) == 2 and "0" in forms
    other = [x for x in ln if sym.canon(x.value) != "0"]
    ok = ok and len(other) == 1 and sym.poly(other[0].value) == sym.poly(sym.parse_expr(f"(np.flatnonzero({d}[header_idxs] != header)[0] + 1) * n_lines_per_entry"))
    ctx.ob(ov.where, "marker check: reported line = 0 for the first record, else (index of the offending record) * lines per record", ok, str(forms), key="C15-R2|marker-line")
    hi = env.get("header_idxs")
    ok = hi is not None and sym.canon(hi, {k: v for k, v in env.items() if k == "n_lines_per_entry"}) == sym.canon(sym.parse_expr(f"{nl}[cls.n_lines_per_entry - 1:-1:cls.n_lines_per_entry] + 1"))
    ctx.ob(ov.where, "marker check looks at the first byte after every record's last line", ok, u(hi) if hi is not None else "", key="C15-R2|marker-positions")
    # n_lines in lines
    for mod, qn, want in (("bionumpy.io.one_line_buffer", "OneLineBuffer.n_lines", "len(self._buffer_extractor) * self.n_lines_per_entry"),
                          ("bionumpy.io.delimited_buffers", "DelimitedBuffer.n_lines", "len(self._buffer_extractor)"),
                          ("bionumpy.io.multiline_buffer", "MultiLineFastaBuffer.n_lines", "len(self._new_lines)"),
                          ("bionumpy.io.bam", "BamBuffer.n_lines", "len(self._buffer_extractor)")):
        f = ix.func(mod, qn)
        ctx.ob(f.where, f"{qn} counts lines (records x lines per record), the unit of the reader's line counter", sym.same(single_return_expr(f.node), want), "", key=f"C15-R2|n_lines|{qn}")


def r3_encoding_error_conversion(ctx):
    ix = ctx.index
    f = ix.func("bionumpy.io.delimited_buffers", "DelimitedBuffer._get_field_by_number")
    hs = [h for t in ast.walk(f.node) if isinstance(t, ast.Try) for h in t.handlers if h.type is not None and u(h.type) == "EncodingError"]
    ctx.floor("EncodingError handlers in the column parser", len(hs), 1)
    for h in hs:
        ctx.ob(f.where, "an encoding error in a column always becomes a format error (the handler raises on every path)", always_terminates(h.body) and
               all(u(x.exc.func).split(".")[-1] == FE for x in ast.walk(h) if isinstance(x, ast.Raise) and isinstance(x.exc, ast.Call)), "", key="C15-R3|always-raises")
        rows = [x for x in ast.walk(h) if isinstance(x, ast.Assign) and u(x.targets[0]) == "row_number"]
        forms = sorted(sym.canon(x.value) for x in rows)
        want = sorted([sym.canon(sym.parse_expr(f"{h.name}.offset // text.shape[1]")), sym.canon(sym.parse_expr(f"np.searchsorted(np.cumsum(text.lengths), {h.name}.offset, side='right')"))])
        ctx.ob(f.where, "offending row = offset // row width (matrix text) or the first row whose cumulative end exceeds the offset (ragged text; side='right')", forms == want, str(forms),
               key="C15-R3|row-formula")
        rs = [x for x in ast.walk(h) if isinstance(x, ast.Raise) and isinstance(x.exc, ast.Call)]
        ok = len(rs) == 1 and any(k.arg == "line_number" and u(k.value) == "row_number" for k in rs[0].exc.keywords)
        ctx.ob(f.where, "the format error carries that row as its line number", ok, "", key="C15-R3|line-number-kw")
        # which formula applies is decided by the SHAPE of the text that was parsed (a digit matrix has .shape[1]; ragged text has .lengths), not by the
        # declared type: an int column with a signed value is parsed as ragged text
        sel = [t for t in ast.walk(h) if isinstance(t, ast.If) and any(isinstance(x, ast.Assign) and u(x.targets[0]) == "row_number" for x in ast.walk(t))]
        for t in sel:
            matrix_in_body = any(isinstance(x, ast.Assign) and u(x.targets[0]) == "row_number" and ".shape[1]" in u(x.value) for b in t.body for x in ast.walk(b))
            tc = sym.canon(t.test)
            want_t = "isinstance(text, EncodedArray)" if matrix_in_body else "isinstance(text, EncodedRaggedArray)"
            alt_t = "not(isinstance(text, EncodedRaggedArray))" if matrix_in_body else "not(isinstance(text, EncodedArray))"
            if tc in (want_t, alt_t):
                okt = True
            elif "text" not in {x.id for x in ast.walk(t.test) if isinstance(x, ast.Name)}:
                okt = False          # decided by something other than the parsed text (e.g. the declared type)
            else:
                raise Unrecognised(f"{f.where}: the row formula is selected by an unknown test on the text: {u(t.test)}")
            ctx.ob(f.where, "the row formula (matrix / ragged) is selected by the shape of the parsed text itself", okt, u(t.test), key="C15-R3|formula-selector")
    enc = ix.func("bionumpy.encodings.alphabet_encoding", "AlphabetEncoding._encode")
    env = local_env(enc.node)
    ok = "offset" in env and sym.canon(env["offset"]) == "np.flatnonzero((255)==(ret.ravel()))[0]"
    rs = [x for x in body_walk(enc.node) if isinstance(x, ast.Raise) and isinstance(x.exc, ast.Call)]
    ok = ok and len(rs) == 1 and len(rs[0].exc.args) == 2 and u(rs[0].exc.args[1]) == "offset"
    ctx.ob(enc.where, "the encoding error reports the flat offset of the first invalid character", ok, "", key="C15-R3|error-offset")


def r7_start_lines_and_plain_reports(ctx):
    """(a) the line offset handed to a lazily read table is the number of lines read BEFORE its chunk: a value captured before the read call, never the live
    counter read afterwards (which already includes the chunk's own lines once the reader updates it); (b) reporting a marker violation does not decode file
    bytes as text: a byte >= 128 in the offending line would raise UnicodeDecodeError instead of the format error with its line number."""
    ix = ctx.index
    R = "bionumpy.io.npdataclassreader"
    n = 0
    for qn in ("NpDataclassReader.read", "NpDataclassReader.read_chunk"):
        f = ix.func(R, qn)
        g = CFG(f.node)
        reads = [x for x in g.nodes if x.kind == "stmt" and any(isinstance(c, ast.Call) and u(c.func) in ("self._reader.read", "self._reader.read_chunk") for c in walk_local(x.ast))]
        ctx.need(len(reads) >= 1, f"{qn}: raw read call not found")
        for c in func_calls(f.node):
            if u(c.func) != "ItemGetter":
                continue
            n += 1
            third = c.args[2] if len(c.args) > 2 else next((k.value for k in c.keywords if k.arg in ("start_line", "_start_line")), None)
            if third is None:
                ok, detail = True, "no offset (0)"
            elif isinstance(third, ast.Name):
                defs = [x for x in g.nodes if x.kind == "stmt" and isinstance(x.ast, ast.Assign) and u(x.ast.targets[0]) == third.id]
                ok = len(defs) == 1 and all(g.dominates(defs[0], r) and defs[0] is not r for r in reads) and sym.canon(defs[0].ast.value) == "self._reader.n_lines_read"
                detail = u(defs[0].ast) if defs else "undefined"
            elif "n_lines_read" in u(third):
                ok, detail = False, f"live counter {u(third)} read after the chunk was read"
            else:
                raise Unrecognised(f"{f.where}: start line of the lazy table has an unknown form: {u(third)}")
            ctx.ob(f.where, f"{qn}: the lazy table's line offset is the line count captured before its chunk was read", ok, detail, key=f"C15-R7|start-line|{qn}")
    ctx.floor("lazy tables built by the reader", n, 2)
    m = 0
    for mod in ("bionumpy.io.one_line_buffer", "bionumpy.io.fastq_buffer", "bionumpy.io.delimited_buffers", "bionumpy.io.multiline_buffer"):
        for qn, fi in ix.module(mod).functions.items():
            if not qn.endswith("._validate"):
                continue
            m += 1
            dec = [c for c in func_calls(fi.node) if isinstance(c.func, ast.Attribute) and c.func.attr in ("to_string", "decode", "tostring") or u(c.func) in ("str", "bytes.decode")
                   and c.args and "data" in u(c.args[0])]
            dec = [c for c in dec if "data" in u(c)]
            ctx.ob(fi.where, "a violation is reported without decoding bytes of the file as text (non-ASCII bytes in the offending line must still give the format error)", not dec,
                   "; ".join(u(c)[:80] for c in dec), key=f"C15-R7|plain-report|{qn}")
    ctx.floor("format validators examined", m, 3)


def r4_alphabet(ctx):
    from .c06 import r1_accepted_bytes, r1b_encode_structure
    r1_accepted_bytes(ctx)
    r1b_encode_structure(ctx)


def _column_count(ctx):
    from .c02 import r6_field_table             # a line with another column count makes the start/end table ragged: reshape(-1, n) raises; invalid digits surface in the digit matrix
    with ctx.only("DelimitedBuffer.from_raw_buffer", "_get_n_fields", "_get_buffer_extractor", "move_intervals_to_digit_array", "str_to_int"):
        r6_field_table(ctx)
from .c18 import r5_missing_shortcut as _missing_shortcut   # a junk value in an optional numeric column reaches the parser

from ..through_time import make_rule as _mk_tt, make_t2 as _mk_t2
_through_time = _mk_tt("C15")
_small_edits = _mk_t2("C15")


def _round7_signs(ctx):
    from .round7 import sign_only_in_first_column
    sign_only_in_first_column(ctx, "C15-R8")

RULES = [
    ("C15-R1", r1_offset_exactly_once),
    ("C15-R2", r2_validation_on_construction),
    ("C15-R3", r3_encoding_error_conversion),
    ("C15-R4", r4_alphabet),
    ("C15-R5", _column_count),
    ("C15-R6", _missing_shortcut),
    ("C15-R7", r7_start_lines_and_plain_reports),
    ("C15-T1", _through_time),
    ("C15-T2", _small_edits),
    ("C15-R8", _round7_signs),
]
