"""C03 - write then read returns the same table; writing is canonical and composable.

 R1 exhaustiveness: every field type of every dataclass that is written through the column writer has a formatter (writer table, Encoding
    fallback, or the text alternative of a Union); the BNPDataClass alternative of VCF INFO has none (known finding);
 R2 header at most once: on the CFG of NpBufferedWriter.write the header write is dominated by `not self._header_written` and the not-append
    test, the flag is set after every header write, and stream cases recurse into the same writer;
 R3 VCF POS+1 on both write paths (eager from_data and the lazy field-wise path), on a new array;
 R4 line terminator order in join_columns and the line-group formats; FASTA wrapping arithmetic as linear forms;
 R5 mode / suffix table; gzip and BAM writer selection.
"""
from __future__ import annotations
import ast

from ..index import AnchorMissing, Unrecognised
from ..cfg import CFG
from ..astutil import linear_body, u, body_walk, local_env, func_calls, walk_local, single_return_expr, inline_locals
from ..pend import edge_facts
from .. import sym, schema

EXPLANATION = ("Static analysis of the writers: the field types of all dataclasses written through the column writer are enumerated and compared with the "
               "type->formatter table read from the code; the writer's header logic is checked on its CFG (dominating guard, flag set on every path, "
               "recursion into the same object); the VCF POS+1 sites are located on both write paths; the order of separator / terminator stores and "
               "the FASTA wrapping formulas are compared as normal forms; the mode and suffix tables are read as constants. "
               "Read-back equality of values and float precision are not decided.")

P = "bionumpy.io.parser"


def r1_writer_exhaustive(ctx):
    ix = ctx.index
    table = set(schema.writer_table_types(ix))
    ctx.floor("entries of the type -> formatter table", len(table), 8)
    gc = ix.func("bionumpy.io.dump_csv", "get_column.<locals>.get_func_for_datatype")
    txt = u(gc.node)
    enc = "if is_subclass_or_instance(datatype, Encoding):" in txt and "encoding.decode(" in txt
    ctx.ob(gc.where, "fields annotated with an encoding are written by decoding with that encoding", enc, "", key="C03-R1|encoding-fallback")
    union_str = "getattr(datatype, '__origin__', None) is Union and str in datatype.__args__" in txt and "return str_func" in txt
    fall = "return funcs[datatype]" in txt
    ctx.ob(gc.where, "any other type must be a key of the formatter table (a missing key raises instead of writing something else)", fall, "", key="C03-R1|lookup")
    n = 0
    for b, dc in schema.buffer_bindings(ix):
        mro = [k.qualname for k in ix.mro(b)]
        if "DelimitedBuffer" not in mro and "OneLineBuffer" not in mro:
            continue
        if b.qualname in ("FastaIdxBuffer",):
            continue
        for i, (name, ty, node) in enumerate(schema.fields_of(ix, dc)):
            alts = schema.union_alternatives(node)
            if alts is not None:
                for a in alts:
                    n += 1
                    if a == "str":
                        ok = union_str
                        why = "text alternative handled by the Union branch"
                    else:
                        ok = a in table or schema.is_encoding_type(ix, dc.module, a)
                        why = f"alternative {a} of {ty} has no formatter (eagerly parsed nested tables cannot be written back)"
                    ctx.ob(f"{b.module.relpath} {b.qualname}", f"{b.qualname}: field `{name}` alternative `{a}` of {ty} can be formatted for writing", ok, "" if ok else why,
                           key=f"C03-R1|{ty}|{a}")
                continue
            n += 1
            ok = ty in table or schema.is_encoding_type(ix, dc.module, ty)
            ctx.ob(f"{b.module.relpath} {b.qualname}", f"{b.qualname}: field `{name}: {ty}` of {dc.qualname} has a text formatter", ok,
                   "" if ok else f"type {ty} is not a key of the formatter table {sorted(table)} and is not an encoding", key=f"C03-R1|{b.qualname}|{name}|{ty}")
    ctx.floor("(written buffer class, field) pairs", n, 90)
    # from_data of delimited buffers builds (type, value) pairs in field order
    fd = ix.func("bionumpy.io.delimited_buffers", "DelimitedBuffer.from_data")
    env = local_env(fd.node)
    d = fd.params[1]
    ok = "data_dict" in env and sym.canon(env["data_dict"]) == sym.canon(sym.parse_expr(f"[(field.type, getattr({d}, field.name)) for field in dataclasses.fields({d})]"))
    rets = [n_ for n_ in linear_body(fd.node) if isinstance(n_, ast.Return)]
    ok = ok and bool(rets) and sym.canon(rets[-1].value) == "dump_csv(data_dict, cls.DELIMITER)"
    ctx.ob(fd.where, "columns are written in the dataclass field order, each with its declared type, separated by the class delimiter", ok, "", key="C03-R1|from_data")
    dc_ = ix.func("bionumpy.io.dump_csv", "dump_csv")
    env = local_env(dc_.node)
    ok = sym.canon(env.get("columns")) == sym.canon(sym.parse_expr(f"[get_column(value, key) for key, value in {dc_.params[0]}]")) and \
        sym.same(env.get("lines"), f"join_columns(columns, {dc_.params[1]})", {})
    ctx.ob(dc_.where, "each (type, values) pair is formatted by its type and the columns are joined in order", ok, "", key="C03-R1|dump_csv")


def r2_header_once(ctx):
    ix = ctx.index
    f = ix.func(P, "NpBufferedWriter.write")
    g = CFG(f.node)
    d = f.params[1]
    hw = [n for n in g.nodes if n.kind == "stmt" and any(isinstance(c, ast.Call) and u(c.func) == "self._file_obj.write" and c.args and
                                                      any("make_header" in u(x) for x in ast.walk(_def_of(f, c.args[0]))) for c in walk_local(n.ast))]
    ctx.floor("header write sites", len(hw), 1)
    sets = [n for n in g.stmt_nodes(ast.Assign) if u(n.ast.targets[0]) == "self._header_written" and getattr(n.ast.value, "value", None) is True]
    for h in hw:
        facts = set()
        for t, lab in g.guards(h):
            facts |= edge_facts(t, lab)
        ok = ("self._header_written", False) in facts
        ctx.ob(f.where, "the header is written only while `_header_written` is still false", ok, str(sorted(facts)), key="C03-R2|guard")
        # Append mode must be recognisable for every kind of file object the opener table of _get_buffered_file can hand to the writer:
        #   builtin open(name, 'ab')  -> obj.mode == 'ab'
        #   gzip.open(name, 'ab')     -> obj.mode is an INTEGER (gzip.WRITE); the 'ab' is on obj.fileobj.mode
        gb = ix.func("bionumpy.io.files", "_get_buffered_file")
        openers = set()
        for a in body_walk(gb.node):
            if isinstance(a, ast.Assign) and u(a.targets[0]) == "open_func":
                for x in ast.walk(a.value):
                    if isinstance(x, (ast.Name, ast.Attribute)) and u(x) in ("open", "gzip.open", "bz2.open", "lzma.open", "io.open"):
                        openers.add(u(x))
        ctx.need(openers, "_get_buffered_file: opener table (`open_func = ...`) not found")
        unknown = openers - {"open", "gzip.open", "io.open"}
        if unknown:
            raise Unrecognised(f"{gb.where}: openers {sorted(unknown)}: how they report append mode is not in the checker's table")
        need = set()
        if openers & {"open", "io.open"}:
            need.add("self._file_obj.mode")
        if "gzip.open" in openers:
            need.add("self._file_obj.fileobj.mode")
        # expressions compared with / searched for 'ab' in the guard of the header write (helper predicates of the class inlined one level)
        seen = set()

        def modes_in(expr, depth=0):
            for x in ast.walk(expr):
                if isinstance(x, ast.Attribute) and x.attr == "mode":
                    seen.add(u(x))
                if isinstance(x, ast.Call) and u(x.func) == "getattr" and len(x.args) >= 2 and getattr(x.args[1], "value", None) == "mode":
                    inner = x.args[0]
                    if isinstance(inner, ast.Call) and u(inner.func) == "getattr" and len(inner.args) >= 2 and isinstance(inner.args[1], ast.Constant):
                        seen.add(f"{u(inner.args[0])}.{inner.args[1].value}.mode")
                    else:
                        seen.add(f"{u(inner)}.mode")
                if depth < 2 and isinstance(x, ast.Call) and isinstance(x.func, ast.Attribute) and u(x.func.value) == "self":
                    m = ix.lookup_method(f.cls, x.func.attr) if f.cls is not None else None
                    if m is not None and "'ab'" in u(m.node):
                        modes_in(m.node, depth + 1)
        guard_tests = [t.ast for t, lab in g.guards(h) if t.kind == "test"]
        for t in guard_tests:
            modes_in(t)
        mentions_ab = any("'ab'" in u(t) for t in guard_tests) or any(isinstance(x, ast.Call) and isinstance(x.func, ast.Attribute) and u(x.func.value) == "self" and f.cls is not None and
                                                                     ix.lookup_method(f.cls, x.func.attr) is not None and "'ab'" in u(ix.lookup_method(f.cls, x.func.attr).node)
                                                                     for t in guard_tests for x in ast.walk(t))
        app = mentions_ab and need <= seen
        ctx.ob(f.where, f"no header is written when appending, whichever opener of _get_buffered_file ({sorted(openers)}) made the file object: the guard looks for 'ab' in "
               f"{sorted(need)} (a gzip file object reports an integer mode; the 'ab' is on the file it wraps)", app, f"guard consults {sorted(seen)}", key="C03-R2|append")
        bad = g.path([h], [g.exit], blocked=lambda n: n in sets or (n.kind == "stmt" and isinstance(n.ast, ast.Raise)))
        ctx.ob(f.where, "after a header write the flag is set on every path (a second write cannot repeat the header)", bad is None, CFG.show(bad) if bad else "", key="C03-R2|flag-set")
    # flag is never reset, and is False initially
    resets = [u(n.ast) for n in g.stmt_nodes(ast.Assign) if u(n.ast.targets[0]) == "self._header_written" and getattr(n.ast.value, "value", None) is not True]
    ctx.ob(f.where, "the flag is never cleared while writing", not resets, "; ".join(resets), key="C03-R2|no-reset")
    init = ix.func(P, "NpBufferedWriter.__init__")
    ok = any(isinstance(n, ast.Assign) and u(n.targets[0]) == "self._header_written" and getattr(n.value, "value", None) is False for n in body_walk(init.node))
    ctx.ob(init.where, "a new writer has not written a header yet", ok, "", key="C03-R2|initial")
    # the flag is set only after a header write (otherwise a first empty/headerless piece would suppress the header of later pieces incorrectly or vice versa)
    for s in sets:
        pre = g.path([g.entry], [s], blocked=lambda n: n in hw)
        ctx.ob(f.where, "the flag is set only on paths that wrote the header", pre is None, CFG.show(pre) if pre else "", key="C03-R2|flag-only-after-write")
    # header bytes are written unconditionally once computed (no data-dependent skipping)
    for h in hw:
        gs = [t for t, lab in g.guards(h)]
        dep = [u(t.ast) for t in gs if "header_array" in u(t.ast) or "len(header" in u(t.ast)]
        ctx.ob(f.where, "whether the header is written does not depend on the header's content (an empty first header still marks it written)", not dep, "; ".join(dep),
               key="C03-R2|unconditional")
    # an empty table still gets its header: the early return for empty data comes after the header decision
    empties = [n for n in g.nodes if n.kind == "stmt" and isinstance(n.ast, ast.Return) and any(sym.canon(t.ast) in (f"(0)==(len({d}))", f"not(len({d}))") and lab in ("T", True)
                                                                                                 for t, lab in g.guards(n) if t.kind == "test")]
    hdr_tests = [t for h in hw for t, lab in g.guards(h) if t.kind == "test" and "make_header" in u(t.ast)]
    for e in empties:
        ok = bool(hdr_tests) and all(g.dominates(t, e) for t in hdr_tests)
        ctx.ob(f.where, "writing an empty table still writes the header first (a file that received only empty tables is a valid, header-only file): the early return for "
               "empty data is placed after the header decision", ok, f"line {e.ast.lineno}", key="C03-R2|empty-after-header", definite=True)
    ctx.count("early returns for empty data", len(empties))
    # stream cases recurse into the same writer and return
    loops = [n for n in g.nodes if n.kind == "for"]
    rec = [c for c in func_calls(f.node) if u(c.func) == "self.write"]
    ctx.ob(f.where, "streams and grouped streams are written piece by piece through the same writer object", len(rec) == 2 and len(loops) == 2 and
           not any(u(c.func) in ("NpBufferedWriter", "self.__class__") for c in func_calls(f.node)), "", key="C03-R2|recursion")
    # data is written after the header, bytes unchanged
    dw = [n for n in g.nodes if n.kind == "stmt" and any(isinstance(c, ast.Call) and u(c.func) == "self._file_obj.write" and c.args and u(c.args[0]) == "bytes(bytes_array)"
                                                      for c in walk_local(n.ast))]
    ok = len(dw) == 1 and all(g.path([dw[0]], [h]) is None for h in hw)
    ctx.ob(f.where, "record bytes are written after the header, never before", ok, "", key="C03-R2|order")
    env = {}
    for n in g.stmt_nodes(ast.Assign):
        if isinstance(n.ast.targets[0], ast.Name):
            env.setdefault(n.ast.targets[0].id, []).append(n)
    forms = sorted(sym.canon(n.ast.value) for n in env.get("bytes_array", []))
    want = sorted([f"{d}.get_buffer(buffer_class=self._buffer_type)", f"self._buffer_type.from_data({d})", "bytes_array.raw()"])
    ctx.ob(f.where, "record bytes come from the lazy table's own buffer or from the buffer type's from_data", forms == want, str(forms), key="C03-R2|bytes-source")


def _def_of(f, node):
    """Defining expression of a Name argument inside function f (single assignment), else the node itself."""
    if isinstance(node, ast.Name):
        env = local_env(f.node)
        return env.get(node.id, node)
    return node


def r3_vcf_pos_plus_one(ctx):
    ix = ctx.index
    n = 0
    for qn in ("VCFBuffer.from_data", "VCFBuffer2.from_data"):
        f = ix.func("bionumpy.io.vcf_buffers", qn)
        d = f.params[1]
        reps = [c for c in func_calls(f.node) if u(c.func) == "dataclasses.replace"]
        ok = False
        for c in reps:
            kws = {k.arg: k.value for k in c.keywords}
            if "position" in kws and u(c.args[0]) == d:
                ok = sym.poly(kws["position"]) == sym.poly(sym.parse_expr(f"{d}.position + 1"))
        n += 1
        ctx.ob(f.where, f"{qn}: POS is written 1-based (position + 1) on a replaced copy of the table", ok, "; ".join(u(c) for c in reps), key=f"C03-R3|{qn}")
    pf = ix.func("bionumpy.io.vcf_buffers", "VCFBuffer.process_field_for_write")
    g = CFG(pf.node)
    ok = False
    for r in g.stmt_nodes(ast.Return):
        facts = set()
        for t, lab in g.guards(r):
            facts |= edge_facts(t, lab)
        if any(("'position'" in c and p) for c, p in facts):
            ok = sym.poly(r.ast.value) == sym.poly(sym.parse_expr(f"{pf.params[2]} + 1"))
    n += 1
    ctx.ob(pf.where, "lazy (field-wise) write path: the position column is written + 1, every other column unchanged", ok, "", key="C03-R3|process_field_for_write")
    base = ix.func("bionumpy.io.file_buffers", "FileBuffer.process_field_for_write")
    ctx.ob(base.where, "default field hook writes values unchanged", sym.same(single_return_expr(base.node), base.params[2]), "", key="C03-R3|default-hook")
    ctx.floor("VCF POS+1 sites", n, 3)
    # the shift on read is the inverse (shared with C02-R2): -1
    vb = ix.func("bionumpy.io.vcf_buffers", "VCFBuffer._get_field_by_number")
    sub = [x for x in body_walk(vb.node) if isinstance(x, ast.AugAssign)]
    ok = len(sub) == 1 and isinstance(sub[0].op, ast.Sub) and sym.poly(sub[0].value) == sym.Poly.const(1)
    ctx.ob(vb.where, "read shift (-1) and write shift (+1) are inverse", ok, "", key="C03-R3|inverse")


def r4_terminators_and_wrapping(ctx):
    ix = ctx.index
    jc = ix.func("bionumpy.io.dump_csv", "join_columns")
    g = CFG(jc.node)
    stores = [n for n in g.stmt_nodes(ast.Assign) if isinstance(n.ast.targets[0], ast.Subscript) and u(n.ast.targets[0].value) == "lines"]
    sep_store = [n for n in stores if sym.canon(n.ast.targets[0].slice) == sym.canon(sym.parse_expr("x[:, -1]").slice) and u(n.ast.value) == jc.params[1]]
    nl_store = [n for n in stores if getattr(n.ast.value, "value", None) == "\n"]
    ctx.need(len(sep_store) == 1 and len(nl_store) == 1, "join_columns: separator / newline stores not found")
    ok = g.path([nl_store[0]], [sep_store[0]]) is None and g.path([sep_store[0]], [nl_store[0]]) is not None
    ctx.ob(jc.where, "every cell ends with the separator first, then the last cell of each record is overwritten with the newline (not the other way round)", ok, "", key="C03-R4|order")
    sl = nl_store[0].ast.targets[0].slice
    ok = sym.canon(sl) == sym.canon(sym.parse_expr("x[(n_columns - 1)::n_columns, -1]").slice)
    ctx.ob(jc.where, "the newline goes to every n_columns-th cell starting at the last column (one record per line)", ok, u(sl), key="C03-R4|stride")
    col_store = [n for n in stores if n not in sep_store and n not in nl_store]
    ok = len(col_store) == 1 and sym.canon(col_store[0].ast.targets[0].slice) == sym.canon(sym.parse_expr("x[i::n_columns, :-1]").slice)
    ctx.ob(jc.where, "column i fills cells i, i+n, i+2n, ... (all but the terminator byte)", ok, "", key="C03-R4|cells")
    env = local_env(jc.node)
    ok = sym.same(env.get("n_columns"), f"len({jc.params[0]})")
    ctx.ob(jc.where, "n_columns is the number of columns", ok, "")
    # one-line formats
    jf = ix.func("bionumpy.io.one_line_buffer", "OneLineBuffer.join_fields")
    g = CFG(jf.node)
    stores = [n for n in g.stmt_nodes(ast.Assign) if isinstance(n.ast.targets[0], ast.Subscript) and u(n.ast.targets[0].value) == "lines"]
    hdr = [n for n in stores if u(n.ast.value) == "cls.HEADER"]
    nl = [n for n in stores if getattr(n.ast.value, "value", None) == "\n"]
    fld = [n for n in stores if n not in hdr and n not in nl]
    ok = len(hdr) == 1 and len(nl) == 1 and len(fld) == 1 and sym.canon(hdr[0].ast.targets[0].slice) == sym.canon(sym.parse_expr("x[0::step, 0]").slice) and \
        sym.canon(nl[0].ast.targets[0].slice) == sym.canon(sym.parse_expr("x[:, -1]").slice) and \
        sym.canon(fld[0].ast.targets[0].slice) == sym.canon(sym.parse_expr("x[i::step, cls._line_offsets[i]:-1]").slice)
    ctx.ob(jf.where, "line-group formats: field i fills line i of every record after the marker offset, the marker goes to column 0 of line 0, every line ends in a newline", ok, "",
           key="C03-R4|oneline-layout")
    env = local_env(jf.node)
    ok = sym.same(env.get("step"), "cls.n_lines_per_entry")
    ctx.ob(jf.where, "a record is n_lines_per_entry lines", ok, "")
    ll = [n for n in body_walk(jf.node) if isinstance(n, ast.AugAssign) and u(n.target) == "line_lengths[:, i]"]
    ok = len(ll) == 1 and sym.canon(ll[0].value) == "cls._line_offsets[i]" and sym.same(env.get("line_lengths"), "field_lengths + 1", {})
    ctx.ob(jf.where, "line length = field length + newline + marker offset", ok, "", key="C03-R4|oneline-lengths")
    fq = ix.func("bionumpy.io.fastq_buffer", "FastQBuffer.join_fields")
    e = single_return_expr(fq.node)
    ok = e is not None and sym.canon(e) == sym.canon(sym.parse_expr(f"super().join_fields({fq.params[1]}[:2] + [as_encoded_array(['+'] * len({fq.params[1]}[0]))] + {fq.params[1]}[2:])"))
    ctx.ob(fq.where, "FASTQ: records are name, sequence, a '+' line, quality", ok, u(e) if e is not None else "", key="C03-R4|fastq-plus")
    # FASTA wrapping
    mf = ix.func("bionumpy.io.multiline_buffer", "MultiLineFastaBuffer.from_data")
    env = local_env(mf.node)
    W = "cls.n_characters_per_line"
    checks = {
        "n_lines": f"(sequence_lengths - 1) // {W} + 1",
        "last_length": f"(sequence_lengths - 1) % {W} + 1",
        "line_lengths": f"np.full(np.sum(n_lines) + n_lines.size, {W} + 1, dtype=int)",
        "entry_starts": "np.insert(np.cumsum(n_lines + 1), 0, 0)",
    }
    bad = [k for k, w in checks.items() if not sym.same(env.get(k), w, {})]
    detail = str(bad)
    if bad and set(bad) <= {"n_lines", "last_length"} and env.get("n_lines") is not None and env.get("last_length") is not None:
        # a different but possibly equivalent formula: decide the defining identity over whole periods of W
        #   (n_lines - 1) * W + last_length == L   and   1 <= last_length <= W      for every L >= 1
        import numpy as np
        from ..absval import Evaluator, Obj
        cex = None
        try:
            for Wv in (1, 2, 3, 7, 80):
                L = np.arange(1, 4 * Wv + 2)
                e = Evaluator({"sequence_lengths": L, "cls": Obj(None, n_characters_per_line=Wv)})
                nl = np.asarray(e.ev(env["n_lines"]))
                ll = np.asarray(e.ev(env["last_length"]))
                okv = ((nl - 1) * Wv + ll == L) & (ll >= 1) & (ll <= Wv)
                if not okv.all():
                    i = int(np.flatnonzero(~okv)[0])
                    cex = f"W={Wv}, L={int(L[i])}: n_lines={int(nl[i])}, last_length={int(ll[i])}"
                    break
            if cex is None:
                bad = []
            else:
                detail = "full lines + last line do not add up to the sequence (or an empty last line is written): " + cex
        except Unrecognised:
            raise Unrecognised(f"{mf.where}: wrapping arithmetic has a form the checker can neither normalise nor evaluate")
    ctx.ob(mf.where, "wrapped FASTA: a sequence of length L takes ceil(L/W) lines, the last of length ((L-1) mod W)+1; a record is its header line plus those lines", not bad, detail,
           key="C03-R4|wrap-arithmetic")
    st = [n for n in body_walk(mf.node) if isinstance(n, ast.Assign) and isinstance(n.targets[0], ast.Subscript) and u(n.targets[0].value) == "line_lengths"]
    forms = sorted((sym.canon(n.targets[0].slice), sym.canon(n.value)) for n in st)
    want = sorted([(sym.canon(sym.parse_expr("x[entry_starts[:-1]]").slice), sym.canon(sym.parse_expr("name_lengths + 2"))),
                   (sym.canon(sym.parse_expr("x[entry_starts[1:] - 1]").slice), sym.canon(sym.parse_expr("last_length + 1")))])
    ctx.ob(mf.where, "wrapped FASTA: header line = '>' + name + newline; the last sequence line = remaining bases + newline", forms == want, str(forms), key="C03-R4|wrap-lines")
    ls = [n for n in body_walk(mf.node) if isinstance(n, ast.Assign) and isinstance(n.targets[0], ast.Subscript) and u(n.targets[0].value) == "lines"]
    forms = [(sym.canon(n.targets[0].slice), sym.canon(n.value)) for n in ls]
    ok = len(forms) == 4 and forms[-1] == (sym.canon(sym.parse_expr("x[:, -1]").slice), "'\\n'") and forms[1] == (sym.canon(sym.parse_expr("x[entry_starts[:-1], 0]").slice), "cls._new_entry_marker")
    ctx.ob(mf.where, "wrapped FASTA: marker at column 0 of each header line; every line ends in a newline (stored last)", ok, str(forms)[:200], key="C03-R4|wrap-stores")


def r5_mode_suffix_tables(ctx):
    ix = ctx.index
    F = "bionumpy.io.files"
    gb = ix.func(F, "_get_buffered_file")
    g = CFG(gb.node)
    rets = g.stmt_nodes(ast.Return)
    seen = {}
    for r in rets:
        facts = set()
        for t, lab in g.guards(r):
            facts |= edge_facts(t, lab)
        for c, p in facts:
            if p and c.startswith("(mode)in("):
                seen[c] = sym.canon(r.ast.value)
    want = {"(mode)in(('w', 'write', 'wb'))": "writer_class(open_func(filename, 'wb'), buffer_type)", "(mode)in(('a', 'append', 'ab'))": "writer_class(open_func(filename, 'ab'), buffer_type)"}
    ctx.ob(gb.where, "write modes open the file 'wb', append modes 'ab', both through the selected writer class with the buffer type", seen == want, str(seen), key="C03-R5|modes")
    env = local_env(gb.node)
    ok = sym.same(env.get("open_func"), "gzip.open if is_gzip else open")
    ctx.ob(gb.where, "gzip targets are opened with gzip.open", ok, "", key="C03-R5|gzip")
    txt = u(gb.node)
    ok = "writer_class = NpBufferedWriter" in txt and "if suffix == '.bam':\n        writer_class = NumpyBamWriter" in txt
    ctx.ob(gb.where, "BAM targets use the BAM writer, everything else the buffered writer", ok, "", key="C03-R5|writer-class")
    mi = ix.module(F)
    bt = mi.globals_.get("buffer_types")
    ctx.need(isinstance(bt, ast.Dict), "buffer_types table not found")
    binds = {b.qualname for b, _ in schema.buffer_bindings(ix)}
    bad = []
    for k, v in zip(bt.keys, bt.values):
        if u(v) not in binds:
            bad.append(f"{u(k)} -> {u(v)}")
    ctx.ob(f"{mi.relpath} buffer_types", "every file suffix maps to a buffer class that binds an entry type", not bad, "; ".join(bad), key="C03-R5|suffix-table")
    ctx.floor("file suffixes in the table", len(bt.keys), 18)
    bo = ix.func(F, "bnp_open")
    txt = u(bo.node)
    ok = "is_gzip = suffix in ('.gz', '.bam')" in txt and "if suffix == '.gz':" in txt
    ctx.ob(bo.where, "a .gz suffix is stripped once to find the format suffix; .gz and .bam are gzip containers", ok, "", key="C03-R5|gz-suffix")


def _optional_int_formatter(ctx):
    """Optional[int] columns: the formatter writes the missing marker for missing values only.  Integers have no missing value; a test on the numbers'
    truthiness (`not np.any(number)`, `number == 0`) would write a column of zeros as '.' - and differently for every piece of a table written in pieces."""
    f = ctx.index.func("bionumpy.io.dump_csv", "optional_ints_to_strings")
    num = f.params[0]
    n = 0
    for t in [x for x in body_walk(f.node) if isinstance(x, ast.If)]:
        branches = [(t.body, True), (t.orelse, False)]
        for body, pol in branches:
            if not any(isinstance(r, ast.Return) and "missing_string" in u(r.value) for r in body):
                continue
            n += 1
            test = t.test
            mentions_nan = any(isinstance(x, ast.Attribute) and x.attr in ("nan", "isnan") for x in ast.walk(test)) or any(isinstance(x, ast.Call) and u(x.func) in ("np.isnan", "math.isnan") for x in ast.walk(test))
            truthy = [x for x in ast.walk(test) if isinstance(x, ast.Call) and u(x.func) in ("np.any", "np.all", "any", "all") and x.args and u(x.args[0]) == num]
            cmp_zero = [x for x in ast.walk(test) if isinstance(x, ast.Compare) and any(isinstance(c, ast.Constant) and c.value == 0 for c in [x.left] + x.comparators)]
            ok = mentions_nan or not (truthy or cmp_zero)
            if not mentions_nan and not truthy and not cmp_zero:
                raise Unrecognised(f"{f.where}: the all-missing shortcut is guarded by an unknown test: {u(test)}")
            ctx.ob(f.where, "the missing marker is written only for values that are missing (NaN); the numeric value 0 is written as 0", ok, u(test), key="C03-R6|optional-int-missing")
    rets = [r for r in body_walk(f.node) if isinstance(r, ast.Return) and sym.same(r.value, f"ints_to_strings({num})")]
    ctx.ob(f.where, "present values are formatted with the exact integer formatter", bool(rets), "", key="C03-R6|optional-int-format")
    ctx.count("missing-marker shortcuts of the optional int formatter", n)


def r6_streams_and_text_ranges(ctx):
    """(a) every non-empty piece of a stream is written: the loops over a stream have no early exit; (b) the accessor that supplies untouched
    columns as text on the lazy write path returns file text (never the typed/decoded column); (c) stale-shape idiom (shared with C07)."""
    ix = ctx.index
    f = ix.func(P, "NpBufferedWriter.write")
    d = f.params[1]
    loops = [n for n in body_walk(f.node) if isinstance(n, ast.For) and u(n.iter) == d]
    ctx.floor("stream loops in NpBufferedWriter.write", len(loops), 1)
    g = CFG(f.node)
    kinds = set()
    import re as _re
    for lp in loops:
        ln = [n for n in g.nodes if n.ast is lp or (n.kind in ("test", "loop", "for") and n.ast is lp.iter)]
        for t, lab in (g.guards(ln[0]) if ln else []):
            if t.kind == "test" and lab in ("T", True) and isinstance(t.ast, ast.Call) and u(t.ast.func) == "isinstance" and u(t.ast.args[0]) == d:
                ty = t.ast.args[1]
                kinds |= {u(e) for e in (ty.elts if isinstance(ty, ast.Tuple) else [ty])}
    if not kinds:   # the loops' own enclosing `if isinstance(data, T)` statements
        for t in body_walk(f.node):
            if isinstance(t, ast.If) and isinstance(t.test, ast.Call) and u(t.test.func) == "isinstance" and u(t.test.args[0]) == d and any(lp in list(ast.walk(t)) for lp in loops):
                ty = t.test.args[1]
                kinds |= {u(e) for e in (ty.elts if isinstance(ty, ast.Tuple) else [ty])}
    ctx.ob(f.where, "both kinds of stream (plain and grouped) are written piece by piece", kinds >= {"BnpStream", "grouped_stream"}, str(sorted(kinds)), key="C03-R6|stream-kinds", definite=True)
    for lp in loops:
        piece = lp.target.elts[-1] if isinstance(lp.target, ast.Tuple) else lp.target
        pv = u(piece)
        exits = [n for st in lp.body for n in walk_local(st) if isinstance(n, (ast.Break, ast.Return))]
        ctx.ob(f.where, "a stream is written to its end: the loop over its pieces has no early exit (an empty piece in the middle does not end the stream)", not exits and not lp.orelse,
               "; ".join(f"line {n.lineno}: {type(n).__name__.lower()}" for n in exits), key=f"C03-R6|stream-loop|{u(lp.target)}", definite=True)
        ws = [n for n in g.nodes if n.kind == "stmt" and n.ast in list(ast.walk(lp)) and any(isinstance(c, ast.Call) and u(c.func) == "self.write" and c.args and u(c.args[0]) == pv
                                                                                           for c in walk_local(n.ast))]
        ok = len(ws) == 1
        detail = ""
        if ok:
            tests = [sym.canon(t.ast) + ("" if lab in ("T", True) else "!") for t, lab in g.guards(ws[0]) if t.kind == "test" and t.ast in list(ast.walk(lp))]
            allowed = {f"(0)<(len({pv}))", f"len({pv})", f"(0)!=(len({pv}))", f"(0)==(len({pv}))!", f"not(len({pv}))!", f"(1)<=(len({pv}))", f"(1)>(len({pv}))!"}
            extra = [t for t in tests if t not in allowed]
            detail = str(tests)
            skipping = []
            for t in list(extra):
                m = _re.fullmatch(r"\((\d+)\)(<=|<)\(len\(" + _re.escape(pv) + r"\)\)", t)
                if m and (int(m.group(1)) >= 2 or (m.group(2) == "<" and int(m.group(1)) >= 1)):
                    skipping.append(t)
                    extra.remove(t)
            if extra:
                raise Unrecognised(f"{f.where}: a stream piece is written under a condition the checker does not know: {extra}")
            if skipping:
                ok = False
        ctx.ob(f.where, "each piece is handed to the same writer; only empty pieces are skipped", ok, detail, key=f"C03-R6|stream-piece|{u(lp.target)}", definite=True)
    # (b)
    OL = "bionumpy.io.one_line_buffer"
    base = ix.cls(OL, "OneLineBuffer")
    n = 0
    for c in [base] + ix.subclasses(base, strict=True):
        m = ix.lookup_method(c, "get_field_range_as_text")
        if m is None:
            continue
        n += 1
        rets = [r.value for r in body_walk(m.node) if isinstance(r, ast.Return)]
        calls_ = [r for r in rets if isinstance(r, ast.Call)]
        if len(rets) != 1 or len(calls_) != 1:
            raise Unrecognised(f"{m.where}: text range accessor does not return a single call")
        fn = u(calls_[0].func)
        if fn == "self.get_text_field_by_number":
            ok = bool(calls_[0].args) and u(calls_[0].args[0]) == m.params[1]
        elif fn in ("self.get_field_by_number", "self._get_field_by_number"):
            ok = False
        elif fn == "self._buffer_extractor.get_field_by_number":
            # straight to the extractor: right only if no class of the family re-maps columns in its own text accessor
            over = [x.name for x in [base] + ix.subclasses(base, strict=True) if "get_text_field_by_number" in x.methods and x is not c and c in ix.mro(x)]
            own = ix.lookup_method(c, "get_text_field_by_number")
            own_e = single_return_expr(own.node) if own is not None else None
            ok = not over and (own is None or (own_e is not None and sym.canon(own_e) == sym.canon(calls_[0])))
            if ok:
                raise Unrecognised(f"{m.where}: text range accessor returns through `{fn}`")
        else:
            raise Unrecognised(f"{m.where}: text range accessor returns through `{fn}`")
        ctx.ob(m.where, f"{c.name}: untouched columns are supplied to the writer as the file's own text (the text accessor), not through the typed column accessor "
               "(which decodes e.g. FASTQ qualities to numbers)", ok, u(calls_[0]), key=f"C03-R6|text-range|{c.name}", definite=True)
        # every override of the typed accessor that converts a column must have a text override for the same column
        typed = ix.lookup_method(c, "get_field_by_number")
        text = ix.lookup_method(c, "get_text_field_by_number")
        conv = [t for t in body_walk(typed.node) if isinstance(t, ast.If) and any(isinstance(x, ast.Call) and u(x.func).endswith(".encode") for b in t.body for x in ast.walk(b))]
        for t in conv:
            tt = sym.canon(t.test)
            same = [x for x in body_walk(text.node) if isinstance(x, ast.If) and sym.canon(x.test) == tt]
            okc = bool(same) and all(isinstance(r, ast.Return) and isinstance(r.value, ast.Call) and u(r.value.func) == "self._buffer_extractor.get_field_by_number"
                                     for r in same[0].body if isinstance(r, ast.Return)) and any(isinstance(r, ast.Return) for r in same[0].body)
            ctx.ob(text.where, f"{c.name}: the column that the typed accessor converts ({tt}) is served by the text accessor straight from the file bytes", okc, "",
                   key=f"C03-R6|text-override|{c.name}|{tt}", definite=True)
    ctx.floor("line-group buffer classes with a text range accessor", n, 3)
    from .c07 import r5_stale_shape
    r5_stale_shape(ctx)
    _optional_int_formatter(ctx)


from ..through_time import make_rule as _mk_tt, make_t2 as _mk_t2
_through_time = _mk_tt("C03")
_small_edits = _mk_t2("C03")

def _selection_tables(ctx):
    from .c04 import r2_aligned_stores
    r2_aligned_stores(ctx)   # the bytes written for a selection / concatenation come from these tables
def _lazy_concatenate(ctx):
    from .c05 import r1_aligned_views
    r1_aligned_views(ctx)    # assigned columns survive np.concatenate of lazy tables (the writer serialises the merged table)
def _shared_tables_not_written(ctx):
    from .c20 import r3_self_array_writes, IO_TABLE_MODULES
    r3_self_array_writes(ctx, IO_TABLE_MODULES)   # index tables are shared between a table and its selections: never written in place

def _late_bound_constants(ctx):
    from .c05 import r7_late_bound_constants
    r7_late_bound_constants(ctx)   # format constants are read through cls / self so that subclass formats keep their own

def _integer_formatting(ctx):
    from .c18 import r1_formatting
    r1_formatting(ctx)       # every int column (and int list) is written through ints_to_strings: exact digit counts, no floating logarithm



def _round7_digit_matrix(ctx):
    from .c18 import r3_digit_matrix
    r3_digit_matrix(ctx)      # what was written is read back through the right-aligned digit matrix: a window that is not aligned to the END of its field misreads the number

RULES = [
    ("C03-R1", r1_writer_exhaustive),
    ("C03-R2", r2_header_once),
    ("C03-R3", r3_vcf_pos_plus_one),
    ("C03-R4", r4_terminators_and_wrapping),
    ("C03-R5", r5_mode_suffix_tables),
    ("C03-R6", r6_streams_and_text_ranges),
    ("C03-T1", _through_time),
    ("C03-T2", _small_edits),
    ("C03-R7", _selection_tables),
    ("C03-R8", _lazy_concatenate),
    ("C03-R9", _shared_tables_not_written),
    ("C03-R10", _late_bound_constants),
    ("C03-R11", _integer_formatting),
    ("C03-R12", _round7_digit_matrix),
]
