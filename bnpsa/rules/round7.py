"""Clauses added after the seventh round of independent changes (shared by several properties; each property's RULES table names the ones it uses).

Every clause here is a RECOGNISED WRONG FORM (definite=True): it fires on a construct that is wrong whatever the rest of the function looks like, and it is
silent on every other formulation, so a behaviour-preserving rewrite cannot trip it.  Expected count on a tree where the property holds: zero; the positive
examples are the mutants in bnpsa/mutants (r7-*) that the self-test applies on every thorough run."""
from __future__ import annotations
import ast

from ..astutil import u, body_walk, local_env, inline_locals, walk_local, single_return_expr

EA = "bionumpy.encoded_array"
GD = "bionumpy.genomic_data"


def _parents(root):
    par = {}
    for n in ast.walk(root):
        for c in ast.iter_child_nodes(n):
            par[c] = n
    return par


def _guards(node, par):
    """Texts of the If tests a node lies under, with the branch taken."""
    out = []
    c = node
    while c in par:
        p = par[c]
        if isinstance(p, ast.If):
            if c in p.body:
                out.append(("then", p.test))
            elif c in p.orelse:
                out.append(("else", p.test))
        c = p
    return out


# ----------------------------------------------------------------------------------------------------------------------------------------------------------------
def set_data_range_raw(ctx, prefix):
    """Item assignment into an encoded ragged array stores CODES.  Codes taken from the assigned value itself (`data.raw()`, `data.data`) are codes of the
    VALUE's encoding; they mean the same letters in the target only if the two encodings are equal.  Storing them on a path that does not compare the value's
    encoding with the array's own by-passes re-targeting (and its EncodingException): ACTG-coded "ACGT" written into an ACGT array reads back "ACTG"."""
    ix = ctx.index
    n = 0
    for q in ("EncodedRaggedArray._set_data_range", "EncodedArray.__setitem__", "EncodedRaggedArray.__setitem__"):
        try:
            f = ix.func(EA, q)
        except Exception:
            continue
        n += 1
        if len(f.params) < 3:
            continue
        val = f.params[2]
        par = _parents(f.node)
        bad = []
        for x in body_walk(f.node):
            own_codes = (isinstance(x, ast.Call) and isinstance(x.func, ast.Attribute) and x.func.attr == "raw" and u(x.func.value) == val) or \
                        (isinstance(x, ast.Attribute) and x.attr in ("data", "_data") and u(x.value) == val and isinstance(x.ctx, ast.Load))
            if not own_codes:
                continue
            # the value may have been re-bound to as_encoded_array(value, self.encoding) before: then its codes ARE in the array's encoding
            rebound = any(isinstance(a, ast.Assign) and u(a.targets[0]) == val and "as_encoded_array" in u(a.value) and ("self._encoding" in u(a.value) or "self.encoding" in u(a.value))
                          and a.lineno < x.lineno and not [g for g in _guards(a, par)] for a in body_walk(f.node))
            compared = any(isinstance(c, ast.Compare) and f"{val}.encoding" in u(c) and ("self._encoding" in u(c) or "self.encoding" in u(c))
                           for _, t in _guards(x, par) for c in ast.walk(t))
            if not (rebound or compared):
                bad.append(x)
        ctx.ob(f.where, f"codes stored by item assignment are codes of the ARRAY's encoding: the value's own codes (`{val}.raw()`) are used only after the value was re-targeted "
               "or where its encoding was compared with the array's", not bad, "; ".join(f"line {b.lineno}: {u(b)}" for b in bad), key=f"{prefix}|own-codes-stored|{q}", definite=True)
    ctx.floor("item-assignment methods of the encoded arrays", n, 2)


# ----------------------------------------------------------------------------------------------------------------------------------------------------------------
def retarget_by_membership(ctx, prefix):
    """Re-labelling an alphabet-encoded array with another alphabet encoding REUSES the codes; that is right only if the two alphabets have the same letter at
    every code in use (a positional comparison of the two alphabet prefixes).  A membership test ("every letter occurs in the target alphabet") accepts ACGT ->
    TCAG and silently turns every A into T."""
    f = ctx.index.func(EA, "as_encoded_array")
    s = f.params[0]
    par = _parents(f.node)
    bad, n = [], 0
    for r in [x for x in body_walk(f.node) if isinstance(x, ast.Return) and x.value is not None]:
        t = u(r.value)
        if not (f"{s}.raw()" in t or f"{s}.ravel().raw()" in t):
            continue
        n += 1
        gs = _guards(r, par)
        alphabet_tests = [tst for br, tst in gs if "alphabet" in u(tst).lower() and br == "then"]
        env = local_env(f.node)
        positional = False
        member = False
        for tst in alphabet_tests:
            tt = inline_locals(tst, {k: v for k, v in env.items() if k != s})
            for c in ast.walk(tt):
                if isinstance(c, ast.Compare) and isinstance(c.ops[0], ast.Eq) and u(c).count("get_alphabet()") >= 2:
                    positional = True
                if isinstance(c, ast.Compare) and isinstance(c.ops[0], (ast.In, ast.NotIn)) and "get_alphabet()" in u(c):
                    member = True
                if isinstance(c, ast.Call) and u(c.func) in ("set", "frozenset", "np.isin", "np.in1d") and "get_alphabet()" in u(c):
                    member = True
                if isinstance(c, ast.Call) and isinstance(c.func, ast.Attribute) and c.func.attr in ("issubset", "issuperset"):
                    member = True
        if member and not positional:
            bad.append(r)
    ctx.ob(f.where, "the codes of an alphabet-encoded array are re-used under another alphabet only where the two alphabets were compared POSITION BY POSITION "
           "(membership of the letters in the target says nothing about their codes)", not bad, "; ".join(f"line {b.lineno}: {u(b)[:80]}" for b in bad),
           key=f"{prefix}|retarget-by-membership", definite=True)
    ctx.count("returns of as_encoded_array that re-use the operand's codes", n)


# ----------------------------------------------------------------------------------------------------------------------------------------------------------------
def compatible_means_same_order(ctx, prefix):
    """Two genome contexts are interchangeable for the streamed (chunk-by-position) operations only if they list the same contigs IN THE SAME ORDER.  `dict ==
    dict` ignores order, so the compatibility test needs an order-sensitive comparison as well (the ordered name lists, the key lists, the item lists)."""
    f = ctx.index.func(f"{GD}.genome_context", "GenomeContext.is_compatible")
    o = f.params[1]
    env = local_env(f.node)
    cls_attrs = {}
    init = ctx.index.func(f"{GD}.genome_context", "GenomeContext.__init__")
    ienv = local_env(init.node)
    for a in body_walk(init.node):
        if isinstance(a, ast.Assign) and u(a.targets[0]).startswith("self."):
            cls_attrs[u(a.targets[0])[5:]] = inline_locals(a.value, ienv)      # `self._included = included` with `included = [...]` a few lines above
    ordered, n = False, 0
    for c in body_walk(f.node):
        if not (isinstance(c, ast.Compare) and len(c.ops) == 1 and isinstance(c.ops[0], (ast.Eq, ast.NotEq))):
            continue
        l, r = inline_locals(c.left, env), inline_locals(c.comparators[0], env)
        if not ({"self", o} <= {x.id for x in ast.walk(ast.Tuple(elts=[l, r], ctx=ast.Load())) if isinstance(x, ast.Name)}):
            continue
        n += 1
        for side in (l, r):
            t = u(side)
            if t.startswith(("list(", "tuple(")) or ".chromosome_order()" in t or "get_labels()" in t:
                ordered = True
            if isinstance(side, ast.Attribute) and side.attr in cls_attrs:
                v = cls_attrs[side.attr]
                if isinstance(v, (ast.List, ast.ListComp, ast.Tuple)) or (isinstance(v, ast.Call) and u(v.func) in ("list", "tuple", "sorted")):
                    ordered = True
    ctx.floor("comparisons between the two contexts in GenomeContext.is_compatible", n, 1)
    ctx.ob(f.where, "compatibility of two genome contexts includes an ORDER-sensitive comparison of their contigs (dict equality alone accepts the same contigs in another "
           "order, and streamed operations pair chromosome chunks by position)", ordered, u(f.node.body[-1])[:160], key=f"{prefix}|compatible-order", definite=True)


# ----------------------------------------------------------------------------------------------------------------------------------------------------------------
def ragged_changes_symmetric(ctx, prefix):
    """Group boundaries of a ragged key column: two neighbouring keys differ when their lengths differ IN EITHER DIRECTION or a character differs.  The character
    comparison only covers the first len(row) characters of the next row, so a key that is a strict prefix of the next one is separated by the length test alone:
    that test must be `!=` (a one-sided `<` / `>` fuses 'ACG' with the following 'ACGT' inside a chunk, but not across a chunk boundary)."""
    f = ctx.index.func("bionumpy.streams.groupby_func", "get_ragged_changes")
    env = local_env(f.node)
    cmps = []
    for c in body_walk(f.node):
        if isinstance(c, ast.Compare) and len(c.ops) == 1:
            l, r = u(inline_locals(c.left, env)), u(inline_locals(c.comparators[0], env))
            if "lengths[1:]" in (l, r) or "lengths[:-1]" in (l, r) or {l, r} == {"ragged_array.lengths[1:]", "ragged_array.lengths[:-1]"}:
                if "[1:]" in l + r and "[:-1]" in l + r:
                    cmps.append(c)
    ctx.floor("comparisons of neighbouring row lengths in get_ragged_changes", len(cmps), 1)
    one_sided = [c for c in cmps if isinstance(c.ops[0], (ast.Lt, ast.Gt, ast.LtE, ast.GtE))]
    sym_ok = any(isinstance(c.ops[0], ast.NotEq) for c in cmps) or (any(isinstance(c.ops[0], ast.Lt) for c in cmps) and any(isinstance(c.ops[0], ast.Gt) for c in cmps))
    ctx.ob(f.where, "neighbouring keys of different length are different keys whichever of the two is longer (the length test is `!=`, not one-sided)",
           sym_ok or not one_sided, "; ".join(u(c) for c in cmps), key=f"{prefix}|ragged-changes-symmetric", definite=True)


# ----------------------------------------------------------------------------------------------------------------------------------------------------------------
def sign_only_in_first_column(ctx, prefix):
    """Number text: a sign is legal in the first column only.  Neutralising it must therefore be a write at column 0 of the rows that have one; replacing EVERY '-'
    (or '+') of the text makes '2-5' parse as 205 instead of being reported as malformed."""
    ix = ctx.index
    n = 0
    for q in ("_decimal_str_to_float", "str_to_int", "_scientific_str_to_float", "str_to_float"):
        try:
            f = ix.func("bionumpy.io.strops", q)
        except Exception:
            continue
        n += 1
        txt = f.params[0]
        bad = []
        for c in body_walk(f.node):
            if isinstance(c, ast.Call) and u(c.func).endswith("replace_inplace") and len(c.args) >= 2 and isinstance(c.args[1], ast.Constant) and c.args[1].value in ("-", "+"):
                bad.append(c)
            if isinstance(c, ast.Assign) and isinstance(c.targets[0], ast.Subscript) and isinstance(c.targets[0].slice, ast.Compare):
                cc = c.targets[0].slice
                if isinstance(cc.comparators[0], ast.Constant) and cc.comparators[0].value in ("-", "+") and u(cc.left) == u(c.targets[0].value):
                    bad.append(c)
        ctx.ob(f.where, f"a sign character of `{txt}` is neutralised at column 0 only (a '-' anywhere else must stay an invalid digit and be reported)", not bad,
               "; ".join(u(b) for b in bad), key=f"{prefix}|sign-first-column|{q}", definite=True)
    ctx.floor("number-text parsers examined for sign handling", n, 2)


# ----------------------------------------------------------------------------------------------------------------------------------------------------------------
def code_lookup_tables(ctx, modules, prefix):
    """`T[x.raw()]`: the codes of a string-encoded chromosome column are positions in ITS ENCODING's label list (genome order).  A table T built from a dict's
    values / keys / items (FASTA index order, insertion order of some other mapping) is in that order only by accident: with an '_' contig in front of an ordinary
    one, or sort_names=True, every row gets another contig's entry."""
    ix = ctx.index
    n, bad = 0, []
    for mod in modules:
        if mod not in ix.modules:
            continue
        mi = ix.module(mod)
        for fi in mi.functions.values():
            if isinstance(fi.node, ast.Lambda):
                continue
            env = local_env(fi.node)
            for s in body_walk(fi.node):
                if not (isinstance(s, ast.Subscript) and isinstance(s.ctx, ast.Load) and u(s.slice).endswith(".raw()")):
                    continue
                n += 1
                base = inline_locals(s.value, env)
                txt = u(base)
                if isinstance(base, ast.Call) and isinstance(base.func, ast.Attribute) and u(base.func.value) == "self" and fi.cls is not None and base.func.attr in fi.cls.methods:
                    e = single_return_expr(fi.cls.methods[base.func.attr].node)
                    if e is not None:
                        txt = u(inline_locals(e, local_env(fi.cls.methods[base.func.attr].node)))
                dict_order = any(t in txt for t in (".values()", ".keys()", ".items()", "get_contig_lengths()"))
                label_order = any(t in txt for t in ("get_labels()", ".encoding", "chromosome_order", "_included"))
                if dict_order and not label_order:
                    bad.append((fi, s, txt))
    for fi, s, txt in bad:
        ctx.ob(fi.where, f"`{u(s)[:70]}`: a table indexed by chromosome CODES is laid out in the order of the column's encoding labels, not in the iteration order of a dict",
               False, txt[:140], key=f"{prefix}|code-lookup|{fi.module.name}|{fi.qualname}", definite=True)
    ctx.count("table lookups by chromosome code examined", n)
    return n
