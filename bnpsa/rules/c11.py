"""C11 - streamed evaluation equals in-memory evaluation for every chunking.

 R1 lock-step sources agree (contig order == contigs with sizes; shared with C10/C12);
 R2 graph lock-step: a computation node advances every Node input (positional and keyword) with the same buffer index, increments its own index
    exactly once per evaluated buffer, and serves a repeated request from its current buffer; a stream node pulls at most one chunk per step;
 R3 reducer pairing: every mapped function registered with a reduction is paired with the right combiner (sum -> add; histogram -> add counts
    with equal-edges check; mean -> (sum, n) pairs + final division), joint reductions post-process each member on its own;
    the stand-alone histogram reducer lacks the edge check (known finding); bincount pads to the longer operand;
 R4 re-chunking: everything appended to the pending list is emitted, blocks are cut with one and the same bound on both sides, the
    emit loop repeats while a full block is available, the final flush is guarded by non-emptiness;
 R5 group join: per-chunk groups are chained in order and re-grouped on the key, members concatenated in order;
 R6 the streamable decorator maps the function over the zipped stream arguments in order and applies the declared reduction to the mapped stream.
"""
from __future__ import annotations
import ast

from ..index import AnchorMissing, Unrecognised
from ..cfg import CFG
from ..astutil import linear_body, u, body_walk, local_env, func_calls, walk_local, single_return_expr, inline_locals
from ..pend import edge_facts
from .. import sym

EXPLANATION = ("Static analysis of the streaming machinery: the buffer-index discipline of the computation graph is checked on the CFG of the node methods "
               "(same index for all inputs, exactly one increment per evaluated buffer); reduction/combiner pairings are read from the registration tables "
               "and compared; the re-chunking generators are checked with the pending-data path rule and for using one bound on both sides of a cut; "
               "group joining and the streamable decorator are compared as normal forms. Numeric equality of reductions is not decided.")

CG = "bionumpy.computation_graph"


def r1_lockstep_sources(ctx):
    from .c12 import r5_order_equals_sizes, r2_every_contig_gets_a_buffer
    r5_order_equals_sizes(ctx)
    r2_every_contig_gets_a_buffer(ctx)


def r2_graph_lockstep(ctx):
    ix = ctx.index
    f = ix.func(CG, "ComputationNode._get_buffer")
    g = CFG(f.node)
    i = f.params[1]
    env = local_env(f.node)
    ok = sym.canon(env.get("args")) == sym.canon(sym.parse_expr(f"[a._get_buffer({i}) if isinstance(a, Node) else a for a in self._args]"))
    ctx.ob(f.where, "every positional Node input is asked for buffer i (the node's own requested index)", ok, u(env.get("args")) if "args" in env else "", key="C11-R2|args-index")
    ok = sym.canon(env.get("kwargs")) == sym.canon(sym.parse_expr(f"{{key: v._get_buffer({i}) if isinstance(v, Node) else v for key, v in self._kwargs.items()}}"))
    ctx.ob(f.where, "every keyword Node input is asked for the same buffer i", ok, u(env.get("kwargs")) if "kwargs" in env else "", key="C11-R2|kwargs-index")
    incs = [n for n in g.stmt_nodes(ast.AugAssign) if u(n.ast.target) == "self._buffer_index"]
    evals = [n for n in g.stmt_nodes(ast.Assign) if u(n.ast.targets[0]) == "self._current_buffer"]
    ok = len(incs) == 1 and isinstance(incs[0].ast.op, ast.Add) and sym.poly(incs[0].ast.value) == sym.Poly.const(1) and len(evals) == 1
    ctx.ob(f.where, "the node's buffer index advances by exactly one", ok, "", key="C11-R2|increment")
    if ok:
        bad = g.path(evals, [g.exit], blocked=lambda n: n in incs or (n.kind == "stmt" and isinstance(n.ast, ast.Raise)))
        ctx.ob(f.where, "every evaluated buffer is followed by the index increment before the method returns", bad is None, CFG.show(bad) if bad else "", key="C11-R2|increment-after-eval")
        back = g.path(incs, evals + incs)
        ctx.ob(f.where, "one call evaluates and increments at most once", back is None, CFG.show(back) if back else "", key="C11-R2|once")
        pre = g.path([g.entry], incs, blocked=lambda n: n in evals)
        ctx.ob(f.where, "the index never advances without a new buffer having been evaluated", pre is None, CFG.show(pre) if pre else "", key="C11-R2|no-skip")
    rets = g.stmt_nodes(ast.Return)
    cached = [r for r in rets if any(c == f"({i})<=(self._buffer_index)" and p for t, lab in g.guards(r) for c, p in edge_facts(t, lab))]
    ok = len(cached) == 1 and u(cached[0].ast.value) == "self._current_buffer"
    ctx.ob(f.where, "a repeated request for an already evaluated index is served from the current buffer (inputs are not advanced twice)", ok, "", key="C11-R2|cached", definite=True)
    asserts = [n for n in g.nodes if n.kind == "stmt" and isinstance(n.ast, ast.Assert)]
    ok = any(sym.canon(a.ast.test) == sym.canon(sym.parse_expr(f"self._buffer_index in ({i}, {i} - 1)")) for a in asserts)
    ctx.ob(f.where, "a request that would skip a buffer or go backwards by more than one fails", ok, "", key="C11-R2|assert")
    ok = sym.same(evals[0].ast.value, "self._func(*args, **kwargs)") if evals else False
    ctx.ob(f.where, "the buffer is the node's function applied to the inputs' buffers", ok, "", key="C11-R2|apply")
    s = ix.func(CG, "StreamNode._get_buffer")
    g = CFG(s.node)
    i = s.params[1]
    pulls = [n for n in g.stmt_nodes(ast.Assign) if sym.canon(n.ast.value) == "next(self._stream)"]
    incs = [n for n in g.stmt_nodes(ast.AugAssign) if u(n.ast.target) == "self._buffer_index"]
    ok = len(pulls) == 1 and len(incs) == 1 and sym.poly(incs[0].ast.value) == sym.Poly.const(1)
    if ok:
        facts = set()
        for t, lab in g.guards(pulls[0]):
            facts |= edge_facts(t, lab)
        ok = (f"(self._buffer_index)<({i})", True) in facts and g.path(pulls, [g.exit], blocked=lambda n: n in incs) is None and g.path(incs, pulls) is None
    ctx.ob(s.where, "a stream node pulls the next chunk only when asked for a newer index, once, and then advances its index", ok, "", key="C11-R2|stream-node")
    gi = ix.func(CG, "Node.get_iter")
    txt = u(gi.node)
    ok = "for i in count():" in txt and "yield self._get_buffer(i)" in txt and "except StopIteration:\n            break" in txt
    ctx.ob(gi.where, "iteration asks for buffers 0, 1, 2, ... until the stream is exhausted", ok, "", key="C11-R2|get-iter")


def r3_reducer_pairing(ctx):
    ix = ctx.index
    mi = ix.module(CG)
    rm = mi.globals_.get("reductions_map")
    ctx.need(isinstance(rm, ast.Dict), "reductions_map not found")
    got = {u(k): u(v) for k, v in zip(rm.keys, rm.values)}
    ctx.ob(f"{mi.relpath} reductions_map", "graph reductions: np.sum is combined with addition, np.histogram with the histogram adder", got == {"np.sum": "operator.add", "np.histogram": "_add_histograms"},
           str(got), key="C11-R3|map")
    ah = ix.func(CG, "_add_histograms")
    a, b = ah.params
    asserts = [n for n in body_walk(ah.node) if isinstance(n, ast.Assert)]
    ok = any(sym.canon(x.test) == sym.canon(sym.parse_expr(f"np.all({a}[1] == {b}[1])")) for x in asserts)
    ctx.ob(ah.where, "histograms are added only if their bin edges are equal", ok, "", key="C11-R3|hist-edges")
    ok = sym.same(single_return_expr(ah.node), f"({a}[0] + {b}[0], {a}[1])")
    ctx.ob(ah.where, "histogram combiner adds the counts and keeps the edges", ok, "", key="C11-R3|hist-add")
    af = ix.func(CG, "Node.__array_function__")
    txt = u(af.node)
    ok = "comp_node = ComputationNode(sum_and_n, args, kwargs, stack_trace=stack_trace)" in txt and "return ReductionNode(comp_node, mean_reduction, lambda sn: sn[0] / sn[1])" in txt
    ctx.ob(af.where, "np.mean is streamed as (sum, n) pairs combined componentwise and divided at the end", ok, "", key="C11-R3|mean-pairing")
    ok = "if func in reductions_map:\n        return ReductionNode(comp_node, reductions_map[func])" in txt
    ctx.ob(af.where, "a registered reduction wraps the mapped node with its registered combiner", ok, "", key="C11-R3|registered")
    mr = ix.func(CG, "mean_reduction")
    a, b = mr.params
    ok = sym.same(single_return_expr(mr.node), f"({a}[0] + {b}[0], {a}[1] + {b}[1])")
    ctx.ob(mr.where, "mean combiner adds sums and counts separately", ok, "", key="C11-R3|mean-combiner")
    rc = ix.func(CG, "ReductionNode.compute")
    txt = u(rc.node)
    ok = "r = reduce(self._binary_func, self._stream.get_iter())" in txt and "if self._post_process is not None:\n        r = self._post_process(r)" in txt and txt.rstrip().endswith("return r")
    ctx.ob(rc.where, "a reduction folds the per-chunk values with its combiner, then applies its own post-processing", ok, "", key="C11-R3|compute")
    jn = ix.func(CG, "ReductionNode.join")
    env = local_env(jn.node)
    rn = jn.params[1]
    if "post_process" in env and isinstance(env["post_process"], ast.Lambda):
        ok = sym.canon(env["post_process"].body) == sym.canon(sym.parse_expr(f"(e if node._post_process is None else node._post_process(e) for e, node in zip(t, {rn}))")) or \
            sym.canon(env["post_process"].body) == sym.canon(sym.parse_expr(f"tuple(e if node._post_process is None else node._post_process(e) for e, node in zip(t, {rn}))"))
        detail = u(env["post_process"])
    else:
        # several assignments: positively wrong if the members' post-processing is made conditional on *all/any* members having one
        gated = [u(t) for t in ast.walk(jn.node) if isinstance(t, ast.If) and "_post_process" in u(t.test) and ("all(" in u(t.test) or "any(" in u(t.test))]
        if not gated:
            raise Unrecognised(f"{jn.where}: joint post-processing has a form the checker cannot read")
        ok = False
        detail = "post-processing of one member depends on the other members: " + gated[0].split("\n")[0]
    ctx.ob(jn.where, "joint reductions: each member's post-processing is applied to its own component, independently of the others", ok, detail, key="C11-R3|join-post", definite=True)
    ok = "binary_func" in env and isinstance(env["binary_func"], ast.Lambda) and sym.canon(env["binary_func"].body) == sym.canon(sym.parse_expr(
        f"tuple(node._binary_func(e1, e2) for node, e1, e2 in zip({rn}, t1, t2))"))
    ctx.ob(jn.where, "joint reductions: component k is combined with member k's combiner", ok, "", key="C11-R3|join-binary")
    ok = "node" in env and sym.canon(env["node"]) == sym.canon(sym.parse_expr(f"ComputationNode(lambda *args: tuple(args), [node._stream for node in {rn}])"))
    ctx.ob(jn.where, "joint reductions share one pass: the members' mapped nodes are evaluated in lock step as a tuple", ok, "", key="C11-R3|join-node")
    # stand-alone reducers
    R = "bionumpy.streams.reductions"
    hr = ix.func(R, "histogram_reduce")
    checks = any(isinstance(n, ast.Assert) or (isinstance(n, ast.If) and "edge" in u(n.test)) for n in body_walk(hr.node))
    ctx.ob(hr.where, "the stand-alone histogram reducer adds histograms only if their bin edges are equal (np.histogram without a fixed range picks edges per chunk)", checks,
           "counts of chunks with different edges are added", key="C11-R3|histogram_reduce-edges")
    br = ix.func(R, "bincount_reduce")
    g = CFG(br.node)
    a, b = br.params
    rets = g.stmt_nodes(ast.Return)
    seen = {}
    for r in rets:
        facts = set()
        for t, lab in g.guards(r):
            facts |= edge_facts(t, lab)
        seen[u(r.ast.value)] = facts
    ok = set(seen) == {a, b} and (f"({b}.size)<=({a}.size)", True) in seen[a] and (f"({b}.size)<=({a}.size)", False) in seen[b]
    augs = sorted(u(n.ast) for n in g.stmt_nodes(ast.AugAssign))
    ok = ok and augs == sorted([f"{a}[:{b}.size] += {b}", f"{b}[:{a}.size] += {a}"])
    ctx.ob(br.where, "bincount reducer adds the shorter count vector into the prefix of the longer one and returns the longer", ok, str(augs), key="C11-R3|bincount")
    mn = ix.func(R, "mean")
    rets = [n for n in linear_body(mn.node) if isinstance(n, ast.Return)]
    env = local_env(mn.node)
    ok = bool(rets) and sym.canon(rets[-1].value) == sym.canon(sym.parse_expr("t[:-1] / t[-1]")) and sym.same(env.get("t"), f"sum_and_n({mn.params[0]}, axis={mn.params[1]})")
    ctx.ob(mn.where, "streamed mean = summed sums / summed counts", ok, "", key="C11-R3|mean")
    sn = ix.func(R, "sum_and_n")
    ok = any("streamable(sum)" in d for d in sn.decorators) and sym.same(single_return_expr(sn.node), f"np.append(np.sum({sn.params[0]}, axis={sn.params[1]}), n)", {})
    ctx.ob(sn.where, "per-chunk (sum, n) vectors are added over the chunks", ok, "", key="C11-R3|sum-and-n")


def _rechunk(ctx, fi, pend, n_param, key):
    g = CFG(fi.node)
    fills = [n for n in g.nodes if n.kind == "stmt" and isinstance(n.ast, ast.Expr) and isinstance(n.ast.value, ast.Call) and u(n.ast.value.func) == f"{pend}.append"]
    refills = [n for n in g.stmt_nodes(ast.Assign) if u(n.ast.targets[0]) == pend and isinstance(n.ast.value, ast.List) and n.ast.value.elts]
    ctx.need(fills, f"{fi.where}: fills of `{pend}` not found")
    is_emit = lambda n: n.kind == "stmt" and any(isinstance(x, ast.Yield) and x.value is not None and pend in {y.id for y in ast.walk(x.value) if isinstance(y, ast.Name)} or
                                                 (isinstance(x, ast.Yield) and x.value is not None and "total" in u(x.value)) for x in ast.walk(n.ast))
    consumed = lambda n: n.kind == "stmt" and isinstance(n.ast, ast.Assign) and u(n.ast.targets[0]) == "total" and pend in u(n.ast.value)
    def empty_edge(a, l, b):
        if a.kind != "test":
            return False
        fs = edge_facts(a, l)
        return ("buffer_size", False) in fs or (f"len({pend})", False) in fs or (pend, False) in fs
    bad = g.path(fills + refills, [g.exit], blocked=lambda n: is_emit(n) or consumed(n), blocked_edge=empty_edge)
    ctx.ob(fi.where, f"everything put into `{pend}` is emitted before the generator ends (the final flush is skipped only for an empty buffer)", bad is None,
           CFG.show(bad) if bad else "", key=f"C11-R4|{key}|pending")


def r4_rechunking(ctx):
    ix = ctx.index
    ce = ix.func("bionumpy.streams.chunk_entries", "_chunk_entries")
    n = ce.params[1]
    _rechunk(ctx, ce, "b", n, "chunk_entries")
    g = CFG(ce.node)
    ys = [x for x in body_walk(ce.node) if isinstance(x, ast.Yield)]
    cut = [y for y in ys if sym.canon(y.value) == f"total[:{n}]"]
    rest = [x for x in body_walk(ce.node) if isinstance(x, ast.Assign) and u(x.targets[0]) == "b" and sym.canon(x.value) == f"[total[{n}:]]"]
    ctx.ob(ce.where, "a block is the first n entries and exactly the remaining entries are kept (same bound on both sides: nothing lost, nothing duplicated)", len(cut) == 1 and len(rest) == 1,
           "", key="C11-R4|chunk_entries|partition")
    loops = [t for t in g.nodes if t.kind == "test" and isinstance(getattr(t, "stmt", None), ast.While)]
    ok = len(loops) == 1 and sym.canon(loops[0].ast) == f"({n})<=(buffer_size)"
    emit_nodes = [x for x in g.nodes if x.kind == "stmt" and any(y in cut for y in ast.walk(x.ast))]
    inside = ok and all(g.path([loops[0]], [e]) is not None and g.path([e], [loops[0]]) is not None for e in emit_nodes)
    ctx.ob(ce.where, "blocks are emitted *while* n entries are buffered (an input chunk of 2n or more entries yields several blocks, never an oversized one)", inside,
           "; ".join(u(t.ast) for t in loops) or "emit is under `if`, not `while`", key="C11-R4|chunk_entries|while")
    bs = [x for x in body_walk(ce.node) if isinstance(x, ast.Assign) and u(x.targets[0]) == "buffer_size"]
    ok = any(sym.canon(x.value) == "len(b[0])" for x in bs) and any(isinstance(x, ast.AugAssign) and u(x.target) == "buffer_size" and sym.canon(x.value) == "len(chunk)" for x in body_walk(ce.node))
    ctx.ob(ce.where, "the buffered-entry counter tracks the buffer (+ len(chunk) on input, = len(rest) after a cut)", ok, "", key="C11-R4|chunk_entries|counter")
    cl = ix.func("bionumpy.io.parser", "chunk_lines")
    nl = cl.params[1]
    _rechunk(ctx, cl, "cur_buffers", nl, "chunk_lines")
    g = CFG(cl.node)
    take = [x for x in g.nodes if x.kind == "stmt" and isinstance(x.ast, ast.Expr) and sym.canon(x.ast.value) == "cur_buffers.append(chunk[:remaining_lines])"]
    keep = [x for x in g.stmt_nodes(ast.Assign) if u(x.ast.targets[0]) == "chunk" and sym.canon(x.ast.value) == "chunk[remaining_lines:]"]
    ok = len(take) == 1 and len(keep) == 1
    ctx.ob(cl.where, "a block takes chunk[:k] and keeps chunk[k:] for the same k", ok, "", key="C11-R4|chunk_lines|partition")
    if ok:
        writes = [x for x in g.nodes if x.kind == "stmt" and ((isinstance(x.ast, ast.Assign) and u(x.ast.targets[0]) == "remaining_lines") or
                                                               (isinstance(x.ast, ast.AugAssign) and u(x.ast.target) == "remaining_lines"))]
        between = g.path(take, keep, blocked=lambda x: False)
        # is there a write to remaining_lines on every/any path from take to keep?
        clean = g.path(take, keep, blocked=lambda x: x in writes)
        ctx.ob(cl.where, "the bound k is not changed between taking chunk[:k] and keeping chunk[k:]", between is not None and clean is not None and
               all(g.path(take, [w], blocked=lambda x: x in keep) is None for w in writes), "", key="C11-R4|chunk_lines|same-bound")
    loops = [t for t in g.nodes if t.kind == "test" and isinstance(getattr(t, "stmt", None), ast.While)]
    ok = len(loops) == 1 and sym.canon(loops[0].ast) == "(remaining_lines)<=(n_lines_in_chunk)"
    ctx.ob(cl.where, "blocks are emitted while the current chunk still holds a full block", ok, "", key="C11-R4|chunk_lines|while")
    rs = [x for x in g.stmt_nodes(ast.Assign) if u(x.ast.targets[0]) == "remaining_lines"]
    ok = sorted(sym.canon(x.ast.value) for x in rs) == sorted([nl, nl]) and any(isinstance(x.ast, ast.AugAssign) and u(x.ast.target) == "remaining_lines" and isinstance(x.ast.op, ast.Sub)
                                                                                 and sym.canon(x.ast.value) == "n_lines_in_chunk" for x in g.nodes if x.kind == "stmt")
    ctx.ob(cl.where, "the missing-lines counter restarts at n after each block and decreases by what was buffered", ok, "", key="C11-R4|chunk_lines|counter")


def r5_group_join(ctx):
    ix = ctx.index
    G = "bionumpy.streams.groupby_func"
    jg = ix.func(G, "join_groupbys")
    env = local_env(jg.node)
    p = jg.params[0]
    ok = sym.same(env.get("double_grouped"), f"itertools.groupby(itertools.chain.from_iterable({p}), lambda x: x[0])")
    ctx.ob(jg.where, "the per-chunk (key, group) pairs are chained in chunk order and re-grouped on the key (equal keys of consecutive chunks are joined)", ok,
           u(env.get("double_grouped")) if "double_grouped" in env else "", key="C11-R5|regroup")
    f = ix.func(G, "join_groupbys.<locals>.f")
    txt = u(f.node)
    ok = "groups_ = [g[1] for g in groups]" in txt and "return np.concatenate(groups_)" in txt
    ctx.ob(f.where, "the members of a re-grouped key are concatenated in order", ok, "", key="C11-R5|concat")
    ok = sym.same(env.get("grouped_"), "((key, f(groups)) for key, groups in double_grouped)")
    ctx.ob(jg.where, "one (key, joined group) pair per distinct consecutive key", ok, "", key="C11-R5|pairs")
    gb = ix.func(G, "groupby")
    ok = any("streamable(join_groupbys)" in d for d in gb.decorators)
    ctx.ob(gb.where, "streamed group-by joins the per-chunk groups with join_groupbys", ok, "", key="C11-R5|decorator")
    env = {}
    for s in linear_body(gb.node):
        if isinstance(s, ast.Assign) and isinstance(s.targets[0], ast.Name):
            env.setdefault(s.targets[0].id, []).append(s.value)
    ok = len(env.get("changes", [])) == 2 and sym.same(env["changes"][0], "get_changes(keys)") and sym.same(env["changes"][1], f"np.append(np.insert(changes, 0, 0), len({gb.params[0]}))")
    rets = [n for n in linear_body(gb.node) if isinstance(n, ast.Return)]
    ok = ok and bool(rets) and sym.canon(rets[-1].value) == sym.canon(sym.parse_expr(
        f"grouped_stream(((key(keys[start]), {gb.params[0]}[start:end]) for start, end in zip(changes[:-1], changes[1:])), {gb.params[1]})"))
    ctx.ob(gb.where, "groups are the maximal runs between consecutive change points, in order, covering [0, len)", ok, "", key="C11-R5|runs")


def r6_streamable(ctx):
    ix = ctx.index
    D = "bionumpy.streams.decorators"
    a = ix.func(D, "streamable._args_stream")
    txt = u(a.node)
    ok = "streams = tuple((args[i] for i in stream_indices))" in txt and "for stream_args in zip(*streams):" in txt and "for i, stream_arg in zip(stream_indices, stream_args):\n            new_args[i] = stream_arg" in txt \
        and "yield new_args" in txt
    ctx.ob(a.where, "stream arguments are advanced in lock step (zip) and substituted at their own positions", ok, "", key="C11-R6|args-stream")
    nf = ix.func(D, "streamable.__call__.<locals>.new_func")
    g = CFG(nf.node)
    env = local_env(nf.node)
    ok = "stream" in env and sym.canon(inline_locals(env["stream"], {k: v for k, v in env.items() if k == "args_stream"})) == sym.canon(sym.parse_expr(
        "(func(*new_args, **kwargs) for new_args in log(self._args_stream(args, stream_args)))"))
    ctx.ob(nf.where, "the function is applied to every chunk, in order", ok, "", key="C11-R6|map")
    rets = g.stmt_nodes(ast.Return)
    seen = {}
    for r in rets:
        facts = set()
        for t, lab in g.guards(r):
            facts |= edge_facts(t, lab)
        seen[sym.canon(r.ast.value)] = facts
    ok = "self._reduction(stream)" in seen and ("(self._reduction)is(None)", False) in seen["self._reduction(stream)"] and "BnpStream(stream)" in seen and \
        ("(self._reduction)is(None)", True) in seen["BnpStream(stream)"]
    ctx.ob(nf.where, "with a declared reduction the mapped stream is reduced by it; without one the mapped stream is returned", ok, "", key="C11-R6|reduce")
    ok = "func(*args, **kwargs)" in seen and ("(0)==(len(stream_args))", True) in seen["func(*args, **kwargs)"]
    ctx.ob(nf.where, "without stream arguments the function is called directly", ok, "", key="C11-R6|direct")


def r7_unwrap_writeback_twins(ctx):
    """(a) every comprehension that unwraps operands (`x._node if isinstance(x, T) else x for x in operands`) unwraps the operand itself, never the receiver;
    (b) compute(): results of the jointly evaluated nodes are written back to the positions the nodes were taken from;
    (c) the streamed get_windows computes the same flanks and interval columns as its in-memory twin."""
    ix = ctx.index
    n = 0
    for fi in ix.all_functions():
        if isinstance(fi.node, ast.Lambda) or not fi.module.name.startswith("bionumpy.") or ".util.testing" in fi.module.name:
            continue
        for c in body_walk(fi.node):
            if not (isinstance(c, (ast.ListComp, ast.GeneratorExp)) and isinstance(c.elt, ast.IfExp) and isinstance(c.elt.test, ast.Call) and u(c.elt.test.func) == "isinstance"
                    and len(c.generators) == 1 and isinstance(c.generators[0].target, ast.Name) and c.elt.test.args and u(c.elt.test.args[0]) == c.generators[0].target.id):
                continue
            v = c.generators[0].target.id
            n += 1
            names = {x.id for x in ast.walk(c.elt.body) if isinstance(x, ast.Name)}
            ctx.ob(fi.where, f"operands of type {u(c.elt.test.args[1])} are unwrapped one by one: the unwrapped value is taken from the operand `{v}` itself", v in names,
                   u(c)[:140], key=f"C11-R7|unwrap|{fi.module.name}|{fi.qualname}|{u(c.elt.test.args[1])}")
    ctx.floor("operand-unwrapping comprehensions", n, 6)
    f = ix.func(CG, "_compute")
    env = local_env(f.node)
    loops = [x for x in body_walk(f.node) if isinstance(x, ast.For) and isinstance(x.iter, ast.Call) and u(x.iter.func) == "enumerate" and isinstance(x.target, ast.Tuple)]
    ctx.need(len(loops) == 1, "_compute: write-back loop not found")
    lp = loops[0]
    k, pos = (u(t) for t in lp.target.elts)
    idxs = u(lp.iter.args[0])
    taken = env.get("results")
    ok_taken = taken is not None and any(isinstance(x, ast.ListComp) and sym.canon(x) == sym.canon(sym.parse_expr(f"[args[i] for i in {idxs}]")) for x in ast.walk(taken))
    ctx.ob(f.where, f"the nodes are taken from the positions listed in `{idxs}`, in that order", ok_taken, u(taken)[:120] if taken is not None else "", key="C11-R7|compute-taken")
    st = [x for x in lp.body if isinstance(x, ast.Assign) and isinstance(x.targets[0], ast.Subscript)]
    ok = len(st) == 1 and u(st[0].targets[0].slice) == pos and isinstance(st[0].value, ast.Subscript) and u(st[0].value.value) == "results" and u(st[0].value.slice) == k
    ctx.ob(f.where, f"the k-th result goes back to position {idxs}[k] (not to position k: concrete values before a node keep their place)", ok, u(st[0]) if st else "", key="C11-R7|compute-writeback")
    ok = sym.same(env.get(idxs), "[i for i, a in enumerate(args) if isinstance(a, Node)]")
    ctx.ob(f.where, "the listed positions are exactly those holding a node", ok, "", key="C11-R7|compute-positions")
    GI = "bionumpy.genomic_data.genomic_intervals"
    mem = ix.func(GI, "GenomicLocation.get_windows") if ix.has_func(GI, "GenomicLocation.get_windows") else None
    if mem is None:
        cands = [fi for qn, fi in ix.module(GI).functions.items() if qn.endswith(".get_windows") and "Streamed" not in qn]
        ctx.need(len(cands) == 1, "in-memory get_windows not found")
        mem = cands[0]
    stm = ix.func(GI, "GenomicLocationStreamed.get_windows")

    def flanks(fn):
        out = {}
        for x in body_walk(fn.node):
            if isinstance(x, ast.Assign) and isinstance(x.targets[0], ast.Name) and x.targets[0].id in ("l_flank", "r_flank"):
                out.setdefault(x.targets[0].id, []).append(sym.canon(x.value))
        return out
    fm, fs = flanks(mem), flanks(stm)
    ctx.need(fm and set(fm) == {"l_flank", "r_flank"}, "get_windows: flank assignments not found in the in-memory method")
    ctx.ob(stm.where, "streamed windows use the same left / right flanks as the in-memory windows (same branches, same expressions)", fm == fs, f"in-memory {fm} streamed {fs}",
           key="C11-R7|windows-flanks")

    def cols(fn, streamed):
        out = []
        for x in body_walk(fn.node):
            if isinstance(x, ast.Call) and streamed and u(x.func) == "ComputationNode" and len(x.args) == 2 and isinstance(x.args[1], ast.List):
                out.append((u(x.args[0]), [sym.canon(a) for a in x.args[1].elts]))
            elif isinstance(x, ast.Call) and not streamed and u(x.func) in ("StrandedInterval", "Interval"):
                out.append((u(x.func), [sym.canon(a) for a in x.args]))
        return sorted(out)
    ctx.ob(stm.where, "streamed windows build the same interval columns (chromosome, position - left, position + right, strand)", cols(mem, False) == cols(stm, True) and bool(cols(mem, False)),
           f"{cols(stm, True)}", key="C11-R7|windows-columns")
    # (d) values under stranded intervals: the streamed selector is the in-memory selector (same strand test, same sides) - they differ e.g. on strand '.'
    GT = "bionumpy.genomic_data.genomic_track"
    memx = ix.func(GT, "GenomicArrayGlobal.extract_intervals")
    stx = ix.func(GT, "GenomicArrayNode.extract_intervals.<locals>.stranded_func")

    def selector(fn):
        out = []
        for c in func_calls(fn.node):
            if u(c.func) == "np.where" and len(c.args) == 3:
                cond = c.args[0]
                cmp_ = [x for x in ast.walk(cond) if isinstance(x, ast.Compare) and len(x.ops) == 1 and isinstance(x.comparators[0], ast.Constant)]
                if cmp_:
                    out.append((type(cmp_[0].ops[0]).__name__, cmp_[0].comparators[0].value, sym.canon(c.args[1], local_env(fn.node)), sym.canon(c.args[2], local_env(fn.node))))
        return out
    sm, ss = selector(memx), selector(stx)
    ctx.need(len(sm) == 1 and len(ss) == 1, "extract_intervals: strand selector not found in one of the twins")
    # compare (operator, strand literal) and which side is the reversed one
    rev_m = "[:, ::-1]" in sm[0][2].replace(" ", "").replace("(", "").replace(")", "") or "::-1" in sm[0][2]
    rev_s = "::-1" in ss[0][2]
    ctx.ob(stx.where, "the streamed extraction selects forward / reversed rows with the same strand test as the in-memory extraction (rows that are neither '+' nor '-' "
           "must be treated alike)", sm[0][:2] == ss[0][:2] and rev_m == rev_s, f"in-memory {sm[0][:2]} reversed-first={rev_m}; streamed {ss[0][:2]} reversed-first={rev_s}", key="C11-R7|extract-selector")
    # (e) a computation node keeps no per-buffer state other than its current buffer and index: arguments are resolved into locals for every buffer
    gb = ix.func(CG, "ComputationNode._get_buffer")
    writes = []
    for x in body_walk(gb.node):
        tgts = x.targets if isinstance(x, ast.Assign) else ([x.target] if isinstance(x, (ast.AugAssign, ast.AnnAssign)) else [])
        for t in tgts:
            base = t
            while isinstance(base, ast.Subscript):
                base = base.value
            if isinstance(base, ast.Attribute) and u(base.value) == "self" and base.attr not in ("_current_buffer", "_buffer_index"):
                writes.append(u(x))
    ctx.ob(gb.where, "evaluating a buffer writes no node state except the current buffer and its index (lazy arguments are resolved afresh for every buffer, never stored back)",
           not writes, "; ".join(writes), key="C11-R7|node-state")
    fcall = [c for c in func_calls(gb.node) if u(c.func) == "self._func"]
    ok = len(fcall) == 1 and [u(a) for a in fcall[0].args] == ["*args"] and [u(k.value) for k in fcall[0].keywords if k.arg is None] == ["kwargs"]
    ctx.ob(gb.where, "the node's function is called with the buffers resolved for THIS index (local args / kwargs)", ok, u(fcall[0]) if fcall else "", key="C11-R7|node-call")
    # (f) group labels: every group of groupby() is labelled with the caller's key callable
    gby = ix.func("bionumpy.streams.groupby_func", "groupby")
    kparam = gby.params[2]
    labels = []
    for c in func_calls(gby.node):
        if u(c.func) == "grouped_stream" and c.args and isinstance(c.args[0], ast.GeneratorExp) and isinstance(c.args[0].elt, ast.Tuple):
            lab = c.args[0].elt.elts[0]
            labels.append(u(lab.func) if isinstance(lab, ast.Call) else u(lab))
    ctx.floor("group label sites in groupby", len(labels), 2)
    ctx.ob(gby.where, f"every group (single-group fast path and general path) is labelled with the caller's `{kparam}` callable", all(l == kparam for l in labels), str(labels),
           key="C11-R7|group-label")


from ..through_time import make_rule as _mk_tt, make_t2 as _mk_t2
_through_time = _mk_tt("C11")
_small_edits = _mk_t2("C11")

def _kmer_count_blocks(ctx):
    from .c13 import r5_coverage_and_accumulation
    r5_coverage_and_accumulation(ctx)   # in-memory counting walks the flat input in blocks: every block must be visited


def _round7_groups(ctx):
    from .. import memo
    from ..idioms import check_endpoint_samples
    from .round7 import ragged_changes_symmetric, compatible_means_same_order
    ragged_changes_symmetric(ctx, "C11-R9")
    compatible_means_same_order(ctx, "C11-R9")
    mods = [m for m in ["bionumpy.streams.groupby_func", "bionumpy.streams.left_join", "bionumpy.streams.multistream", "bionumpy.streams.reductions", "bionumpy.streams.stream", "bionumpy.streams.chunk_entries", "bionumpy.genomic_data.genome_context", "bionumpy.genomic_data.genome_context_base"] if m in ctx.index.modules]
    ctx.count("dict-cache stores examined", memo.check_dict_caches(ctx, mods, rule_prefix="C11-R9"))
    check_endpoint_samples(ctx, mods, "C11-R9")

RULES = [
    ("C11-R1", r1_lockstep_sources),
    ("C11-R2", r2_graph_lockstep),
    ("C11-R3", r3_reducer_pairing),
    ("C11-R4", r4_rechunking),
    ("C11-R5", r5_group_join),
    ("C11-R6", r6_streamable),
    ("C11-R7", r7_unwrap_writeback_twins),
    ("C11-T1", _through_time),
    ("C11-T2", _small_edits),
    ("C11-R8", _kmer_count_blocks),
    ("C11-R9", _round7_groups),
]
