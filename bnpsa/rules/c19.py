"""C19 - tables of entries behave like column-aligned NumPy records.

 R1 exhaustiveness of constructor conversion: every field type used by any bnpdataclass in the package has a branch in
    _implicit_format_conversion, and the fall-through raises (assert False), it never passes a value through unconverted;
 R2 derivations build new objects: add_fields / extend / sort_by / replace return new tables built from all columns and never assign
    attributes of their operands (ownership, shared with C20); row/dict conversions are mutually inverse by construction
    (same '.' separator and nesting; rows are zipped across all columns in field order);
 R3 no-effect statements: a comparison used as a statement where an assignment was meant (item assignment of string arrays);
 R4 class memoisation keys name everything the cached class depends on (shared rule F-MEMO(b));
 R5 string-array columns: concatenation leaves the width promotion to NumPy, selection re-wraps the selected data.
"""
from __future__ import annotations
import ast

from ..index import AnchorMissing, Unrecognised
from ..astutil import linear_body, u, body_walk, local_env, func_calls, walk_local, single_return_expr
from .. import sym, schema, memo

EXPLANATION = ("Static analysis of the table layer: the field types of all bnpdataclasses in the package are enumerated and compared with the branches of the "
               "constructor conversion (fall-through must raise); derivation methods are compared as normal forms (new object from all columns) and "
               "checked by the ownership analysis for not assigning to their operands; the dict/row conversions are checked for using one separator and "
               "one field order; comparison-as-statement idioms are searched in the anchored modules; class memos are checked for complete keys. "
               "Row semantics of npstructures' npdataclass and pandas round trips on concrete data are not decided.")

BD = "bionumpy.bnpdataclass.bnpdataclass"
ANCHORED = [BD, "bionumpy.bnpdataclass.bnpdataclassfunction", "bionumpy.bnpdataclass.pandas_adaptor", "bionumpy.string_array", "bionumpy.datatypes", "bionumpy.encoded_array",
            "bionumpy.bnpdataclass.lazybnpdataclass"]


def _conversion_branches(ctx):
    f = ctx.index.func(BD, "bnpdataclass.<locals>.NewClass._implicit_format_conversion")
    loops = [n for n in linear_body(f.node) if isinstance(n, ast.For)]
    ctx.need(len(loops) == 1, "_implicit_format_conversion: loop over the fields not found")
    chain = [s for s in loops[0].body if isinstance(s, ast.If)]
    ctx.need(len(chain) == 1, "_implicit_format_conversion: type dispatch chain not found")
    n = chain[0]
    tests = []
    while True:
        tests.append((n.test, n.body))
        if len(n.orelse) == 1 and isinstance(n.orelse[0], ast.If):
            n = n.orelse[0]
        else:
            tests.append((None, n.orelse))
            break
    return f, tests


def r1_constructor_exhaustive(ctx):
    ix = ctx.index
    f, tests = _conversion_branches(ctx)
    ttxt = " || ".join(u(t) for t, _ in tests if t is not None)
    handled = set()
    if "field.type == Union[BNPDataClass, str]" in ttxt:
        handled.add("Union[BNPDataClass, str]")
    if "field.type in numeric_types + optional_numeric_types" in ttxt:
        nt = [x for x in ast.walk(f.node) if isinstance(x, ast.Assign) and u(x.targets[0]) == "numeric_types"]
        ot = [x for x in ast.walk(f.node) if isinstance(x, ast.Assign) and u(x.targets[0]) == "optional_numeric_types"]
        if nt and isinstance(nt[0].value, ast.Tuple) and ot and sym.canon(ot[0].value) == sym.canon(sym.parse_expr("tuple((Optional[t] for t in numeric_types))")):
            for e in nt[0].value.elts:
                handled |= {u(e), f"Optional[{u(e)}]"}
    if "field.type == str" in ttxt:
        handled.add("str")
    if "field.type == SequenceID" in ttxt:
        handled.add("SequenceID")
    for t in ("List[str]", "List[int]", "List[bool]", "List[float]"):
        if f"field.type == {t}" in ttxt:
            handled.add(t)
    enc = "is_subclass_or_instance(field.type, Encoding)" in ttxt
    nested = "issubclass(field.type, BNPDataClass)" in ttxt
    ctx.floor("type categories handled by the constructor conversion", len(handled) + enc + nested, 12)
    last_test, last_body = tests[-1]
    raises = last_test is None and any(isinstance(s, ast.Assert) and isinstance(s.test, ast.Constant) and s.test.value is False for s in last_body) or \
        (last_test is None and any(isinstance(s, ast.Raise) for s in last_body))
    ctx.ob(f.where, "a field type without a conversion branch raises (the fall-through never stores an unconverted value)", raises, "", key="C19-R1|fallthrough-raises")
    setters = [n for n in ast.walk(f.node) if isinstance(n, ast.Call) and u(n.func) == "setattr"]
    ok = len(setters) == 1 and sym.canon(setters[0]) == "setattr(obj, field.name, val)"
    ctx.ob(f.where, "every field is replaced by its converted value", ok, "", key="C19-R1|setattr")
    # enumerate all bnpdataclass field types
    n = 0
    n_cls = 0
    for ci in ix.all_classes():
        if "_legacy" in ci.module.name or ci.module.name.startswith("bionumpy.tests"):
            continue
        is_dc = any(schema.is_bnpdataclass(k) for k in ix.mro(ci))
        if not is_dc:
            continue
        n_cls += 1
        for name, ty, node in schema.fields_of(ix, ci):
            n += 1
            ok = ty in handled or (enc and schema.is_encoding_type(ix, ci.module, ty))
            if not ok and nested:
                r = ix.resolve_name(ci.module, ty)
                from ..index import ClassInfo
                ok = isinstance(r, ClassInfo) and any(schema.is_bnpdataclass(k) for k in ix.mro(r))
            ctx.ob(ci.where, f"{ci.qualname}.{name}: {ty} is converted by a branch of the constructor conversion", ok,
                   "" if ok else f"no branch for type {ty}; constructing a {ci.qualname} raises AssertionError", key=f"C19-R1|{ty}")
    ctx.count("bnpdataclasses", n_cls)
    ctx.floor("bnpdataclass fields enumerated", n, 120)
    # converters per branch
    body_of = {u(t): b for t, b in tests if t is not None}
    sb = body_of.get("field.type == str")
    ok = sb is not None and any(isinstance(s, ast.Assign) and sym.canon(s.value) == "as_encoded_array(pre_val)" for s in sb)
    ctx.ob(f.where, "str columns are encoded as text", ok, "", key="C19-R1|str")
    nb = body_of.get("field.type in numeric_types + optional_numeric_types")
    ok = nb is not None and any(isinstance(s, ast.Assign) and sym.canon(s.value) == "np.asanyarray(pre_val)" for s in nb)
    ctx.ob(f.where, "numeric columns become arrays", ok, "", key="C19-R1|numeric")
    eb = [b for t, b in tests if t is not None and u(t) == "is_subclass_or_instance(field.type, Encoding)"]
    ok = bool(eb) and any(isinstance(s, ast.Assign) and sym.canon(s.value) == "as_encoded_array(pre_val, field.type)" for s in eb[0])
    ctx.ob(f.where, "encoded columns are encoded with the declared encoding (or raise)", ok, "", key="C19-R1|encoding")


def r2_derivations(ctx):
    ix = ctx.index
    af = ix.func(BD, "BNPDataClass.add_fields")
    env = local_env(af.node)
    rets = [n for n in linear_body(af.node) if isinstance(n, ast.Return)]
    ok = bool(rets) and sym.canon(rets[-1].value, env) == sym.canon(sym.parse_expr(
        f"self.__class__.extend(tuple(_extract_field_types({af.params[1]}, {af.params[2]}).items()))(**{{**vars(self), **{af.params[1]}}})"))
    ctx.ob(af.where, "add_fields builds a new table of the extended class from all existing columns plus the new ones", ok, u(rets[-1].value) if rets else "", key="C19-R2|add_fields")
    ex = ix.func(BD, "BNPDataClass.extend")
    rets = [n for n in body_walk(ex.node) if isinstance(n, ast.Return)]
    env = local_env(ex.node)
    forms = [sym.canon(r.value) for r in rets]
    plain = f"bnpdataclass(dataclasses.make_dataclass(cls_name, bases=(cls,), fields={ex.params[1]}))"
    if forms == [sym.canon(sym.parse_expr(plain))]:
        ctx.ob(ex.where, "extend derives a new class from this class with the given (name, type) fields", True, "", key="C19-R2|extend")
    else:
        mk = [c for c in func_calls(ex.node) if u(c.func) == "dataclasses.make_dataclass"]
        ok = len(mk) == 1 and any(k.arg == "bases" and u(k.value) == "(cls,)" for k in mk[0].keywords)
        if not ok:
            raise Unrecognised(f"{ex.where}: extend has an unknown form")
        ctx.ob(ex.where, "extend derives a new class from this class with the given (name, type) fields (memoisation decided by R4)", True, "", key="C19-R2|extend")
    sb = ix.func(BD, "BNPDataClass.sort_by")
    ok = sym.same(single_return_expr(sb.node), f"self[np.argsort(getattr(self, {sb.params[1]}))]")
    ctx.ob(sb.where, "sort_by re-indexes the whole table (all columns) by the argsort of one column", ok, "", key="C19-R2|sort_by")
    rp = ix.func("bionumpy.bnpdataclass.bnpdataclassfunction", "replace")
    rets = [sym.canon(n.value) for n in body_walk(rp.node) if isinstance(n, ast.Return)]
    o = rp.params[0]
    ok = sorted(rets) == sorted([f"{o}.__replace__(**kwargs)", f"dataclasses.replace({o}, **kwargs)"])
    ctx.ob(rp.where, "replace builds a new table through the object's own __replace__ or dataclasses.replace", ok, str(rets), key="C19-R2|replace")
    # ownership: derivations do not write into their operands
    from ..prov import Analyzer
    an = Analyzer(ix).run()
    for mod, qn in ((BD, "BNPDataClass.add_fields"), (BD, "BNPDataClass.extend"), (BD, "BNPDataClass.sort_by"), ("bionumpy.bnpdataclass.bnpdataclassfunction", "replace"),
                    (BD, "BNPDataClass.todict"), (BD, "BNPDataClass.toiter"), (BD, "BNPDataClass.from_dict"), (BD, "BNPDataClass.from_entry_tuples")):
        key = (mod, qn)
        if key not in an.summaries:
            raise AnchorMissing(f"{mod}:{qn} not found")
        fi = an.funcs[key]
        params = [x.arg for x in fi.node.args.posonlyargs + fi.node.args.args]
        bad = [(params[i], ws) for i, ws in an.summaries[key].mutates.items() if params[i] != "cls" and not (qn.endswith("from_dict") and ws.kind == "store" and "new_dict" in ws.stmt)]
        ctx.ob(fi.where, f"{qn} leaves its operands unchanged", not bad, "; ".join(f"{p}: {ws.stmt}" for p, ws in bad), key=f"C19-R2|own|{qn}")
    # dict conversion: separator and nesting agree
    td = ix.func(BD, "BNPDataClass.todict")
    fd = ix.func(BD, "BNPDataClass.from_dict")
    ttxt, ftxt = u(td.node), u(fd.node)
    ok = "field_dict.update({f'{field.name}.{k}': v for k, v in pandas_obj.items()})" in ttxt and "for field in dataclasses.fields(self):" in ttxt
    ok2 = "name, subname = name.split('.', maxsplit=1)" in ftxt and "new_dict[name][subname] = value" in ftxt and "if '.' in name:" in ftxt and \
        "new_dict[field.name] = field.type.from_dict(new_dict[field.name])" in ftxt and "return cls(**new_dict)" in ftxt
    ctx.ob(td.where, "todict flattens a nested table column as '<field>.<subfield>' in field order", ok, "", key="C19-R2|todict")
    ctx.ob(fd.where, "from_dict splits on the first '.' into (field, subfield), rebuilds nested tables with their own from_dict and constructs through the converting constructor", ok2, "",
           key="C19-R2|from_dict")
    ti = ix.func(BD, "BNPDataClass.toiter")
    env = local_env(ti.node)
    e = single_return_expr(ti.node)
    ok = e is not None and sym.canon(e) == sym.canon(sym.parse_expr("(self.dataclass(*row) for row in zip(*tuple((get_vanilla_generator(f) for f in shallow_tuple(self)))))"))
    ctx.ob(ti.where, "rows are produced by zipping all columns in field order", ok, u(e)[:160] if e is not None else "", key="C19-R2|toiter")
    # the per-column generators zipped above must produce ONE ITEM PER ROW: each iterates the column object itself (its first axis), never a flattened or
    # re-rendered form of the whole column (zip would silently stop at the shortest / pair characters with rows)
    vg = ix.func(BD, "get_vanilla_generator")
    col = vg.params[0]
    envv = local_env(vg.node)
    nret = 0
    for r in body_walk(vg.node):
        if not isinstance(r, ast.Return) or r.value is None:
            continue
        nret += 1
        v = r.value
        if isinstance(v, ast.GeneratorExp) and len(v.generators) == 1:
            gen = v.generators[0]
            ok = u(gen.iter) == col and not gen.ifs
            if not ok and not (isinstance(gen.iter, ast.Call) or isinstance(gen.iter, ast.Subscript) or isinstance(gen.iter, ast.Attribute)):
                raise Unrecognised(f"{vg.where}: column generator iterates `{u(gen.iter)}`")
        elif isinstance(v, ast.Call) and u(v.func) == f"{col}.toiter" and not v.args:
            ok = True
        elif isinstance(v, ast.Call) and u(v.func) == "iter" and len(v.args) == 1:
            ok = u(v.args[0]) == col
        else:
            raise Unrecognised(f"{vg.where}: column generator `{u(v)[:80]}`")
        ctx.ob(vg.where, "a column's row generator iterates the column itself (one item per row), not a flattened or rendered form of it", ok, u(v)[:100],
               key=f"C19-R2|row-generator|{u(v)[:40]}", definite=True)
    ctx.floor("row generators of get_vanilla_generator", nret, 4)
    ft = ix.func(BD, "BNPDataClass.from_entry_tuples")
    ok = sym.canon(single_return_expr(ft.node)) == sym.canon(sym.parse_expr(f"cls(*(list(c) for c in zip(*{ft.params[1]})))"))
    ctx.ob(ft.where, "from_entry_tuples transposes rows into columns in field order and constructs through the converting constructor", ok, "", key="C19-R2|from_entry_tuples")
    tl = ix.func(BD, "BNPDataClass.tolist")
    rets = [n for n in linear_body(tl.node) if isinstance(n, ast.Return)]
    ctx.ob(tl.where, "tolist is the list of toiter", bool(rets) and sym.canon(rets[0].value) == "list(self.toiter())", "", key="C19-R2|tolist")


def r3_no_effect_statements(ctx):
    ix = ctx.index
    n = 0
    for mod in ANCHORED + ["bionumpy.io.strops", "bionumpy.util.ragged_slice"]:
        if mod not in ix.modules:
            continue
        mi = ix.module(mod)
        for fi in mi.functions.values():
            if isinstance(fi.node, ast.Lambda):
                continue
            n += 1
            for s in body_walk(fi.node):
                if isinstance(s, ast.Expr) and isinstance(s.value, ast.Compare):
                    ctx.ob(f"{mi.relpath}:{s.lineno} {fi.qualname}", "a comparison is not used as a statement (an assignment `=` was meant where `==` was written)", False, u(s),
                           key=f"C19-R3|{mod}|{fi.qualname}|{u(s)[:60]}")
    ctx.floor("functions scanned for no-effect comparisons", n, 150)
    ctx.ob("bionumpy", f"{n} functions of the table / array modules contain no comparison used as a statement", True, "")
    si = ix.func("bionumpy.string_array", "StringArray.__setitem__")
    st = [s for s in linear_body(si.node) if not (isinstance(s, ast.Expr) and isinstance(s.value, ast.Constant))]
    ok = len(st) == 1 and isinstance(st[0], ast.Assign) and sym.canon(st[0].targets[0]) == f"self._data[{si.params[1]}]" and sym.canon(st[0].value) == f"self._convert_input({si.params[2]})"
    ctx.ob(si.where, "StringArray item assignment stores the converted value at the index", ok, u(st[0]) if st else "", key="C19-R3|setitem")
    ci = ix.func("bionumpy.string_array", "StringArray._convert_input")
    ok = len(ci.params) == 2
    ctx.ob(ci.where, "the value converter takes the value only (its callers pass one argument)", ok and all(len(c.args) == 1 for fi in ix.module("bionumpy.string_array").functions.values()
                                                                                                         for c in func_calls(fi.node) if u(c.func) == "self._convert_input"), "", key="C19-R3|convert-arity")


def r4_class_memo_keys(ctx):
    n = memo.check_dict_caches(ctx, [BD, "bionumpy.bnpdataclass.lazybnpdataclass", "bionumpy.bnpdataclass.bnpdataclassfunction", "bionumpy.string_array"], rule_prefix="C19-R4")
    ctx.count("dict_cache_stores", n)
    if n == 0:
        ctx.ob("bionumpy/bnpdataclass", "no dict-based class memo exists in the table modules (nothing can return a stale class)", True, "")


def r5_string_array(ctx):
    ix = ctx.index
    af = ix.func("bionumpy.string_array", "StringArray.__array_function__")
    g_rets = [n for n in body_walk(af.node) if isinstance(n, ast.Return) and isinstance(n.value, ast.Call) and u(n.value.func) == "self.__class__"]
    ctx.need(len(g_rets) == 1, "StringArray concatenate branch not found")
    v = g_rets[0].value
    inner = v.args[0]
    ok = isinstance(inner, ast.Call) and u(inner.func) == "func" and len(inner.args) == 1 and not inner.keywords and sym.canon(inner.args[0]) == sym.canon(sym.parse_expr("[a._data for a in args[0]]"))
    ctx.ob(af.where, "concatenating identifier columns concatenates the byte-string arrays and lets NumPy pick the widest itemsize (no hand-picked dtype that could truncate)", ok, u(v),
           key="C19-R5|concatenate")
    gi = ix.func("bionumpy.string_array", "StringArray.__getitem__")
    ctx.ob(gi.where, "selecting rows of an identifier column re-wraps the selected data", sym.same(single_return_expr(gi.node), f"self.__class__(self._data[{gi.params[1]}])"), "", key="C19-R5|getitem")
    init = ix.func("bionumpy.string_array", "StringArray.__init__")
    ok = any(isinstance(n, ast.Assign) and u(n.targets[0]) == "self._data" and sym.canon(n.value) == f"np.asanyarray({init.params[1]}, dtype='S')" for n in body_walk(init.node))
    ctx.ob(init.where, "identifier columns are stored as a byte-string array of NumPy's own width", ok, "", key="C19-R5|init")
    sa = ix.func("bionumpy.string_array", "string_array")
    txt = u(sa.node)
    ok = "array = array.as_padded_matrix(side='right')" in txt and "return StringArray(array.flatten().view(f'|S{n_bytes}'))" in txt and "n_bytes = array.shape[-1]" in txt
    ctx.ob(sa.where, "ragged text becomes fixed-width identifiers by right padding to the longest row", ok, "", key="C19-R5|from-ragged")


def r6_retarget_guard(ctx):
    """Construction from an already encoded column converts it to the declared encoding or raises (= C06-R2)."""
    from .c06 import r2_retarget_guard
    r2_retarget_guard(ctx)


def r7_guards_and_list_columns(ctx):
    """(a) add_fields infers a column's type from the first value: the guard that all values have that type must quantify over ALL values;
    (b) list-valued columns (List[int] / List[bool] / List[float]) become ragged arrays for every input that is not one already - including the empty
    list of a 0-row table (extra conditions on the conversion send some inputs, e.g. [], down the single-row path)."""
    ix = ctx.index
    f = ix.func(BD, "_assert_all_same_type")
    vals = f.params[0]
    asserts = [a for a in body_walk(f.node) if isinstance(a, ast.Assert)]
    ctx.need(len(asserts) >= 1, "_assert_all_same_type: no assertion")
    hit = 0
    for a in asserts:
        t = a.test
        if isinstance(t, ast.Call) and u(t.func) in ("all", "any") and t.args and isinstance(t.args[0], ast.GeneratorExp):
            ge = t.args[0]
            hit += 1
            ok = u(t.func) == "all" and len(ge.generators) == 1 and u(ge.generators[0].iter) == vals and not ge.generators[0].ifs and \
                sym.canon(ge.elt, local_env(f.node)) == sym.canon(sym.parse_expr(f"isinstance({u(ge.generators[0].target)}, type({vals}[0]))"))
            ctx.ob(f.where, "the values of a new column all have the type the column is declared with (checked for EVERY value)", ok, u(t), key="C19-R7|all-same-type")
    ctx.need(hit == 1, "_assert_all_same_type: quantified type check not found")
    users = [c for c in func_calls(ix.func(BD, "_extract_field_types").node) if u(c.func) == "_assert_all_same_type"]
    ctx.ob(f.where, "the guard is applied when field types are inferred for add_fields", len(users) >= 1, "", key="C19-R7|guard-used")
    cf, tests = _conversion_branches(ctx)
    lst = [(t, b) for t, b in tests if t is not None and "List[int]" in u(t) and "List[bool]" in u(t)]
    ctx.need(len(lst) == 1, "_implicit_format_conversion: branch for list-valued columns not found")
    body = lst[0][1]
    calls = []

    def walk(stmts, guards):
        for st in stmts:
            if isinstance(st, ast.If):
                walk(st.body, guards + [(st.test, True)])
                walk(st.orelse, guards + [(st.test, False)])
            elif isinstance(st, ast.Try):
                walk(st.body, guards)
                for h in st.handlers:
                    walk(h.body, guards + [("except", True)])
                walk(st.orelse, guards)
            else:
                for c in ast.walk(st):
                    if isinstance(c, ast.Call) and u(c.func) == "RaggedArray":
                        calls.append((c, list(guards)))
    walk(body, [])
    ctx.need(len(calls) >= 1, "list-valued columns: no conversion to RaggedArray found")
    unknown = []
    for c, guards in calls:
        extra = []
        for g, pol in guards:
            if g == "except":
                extra.append("except")
                continue
            cg = sym.canon(g)
            if (cg == "isinstance(pre_val, RaggedArray)" and pol is False) or (cg == "not(isinstance(pre_val, RaggedArray))" and pol is True):
                continue
            extra.append(("" if pol else "not ") + u(g))
        ok = not extra
        if extra and not any("len(" in e or "__len__" in e for e in extra):
            unknown.append(extra)
            continue
        ctx.ob(cf.where, "every input of a list-valued column that is not yet a RaggedArray is converted with RaggedArray(...) (no extra condition: an empty list is the "
               "column of a 0-row table)", ok, f"{u(c)} under {extra}", key="C19-R7|list-column-conversion")
    if unknown and not any(v.get("rule") == ctx.current_rule and "list-column-conversion" in str(v.get("key")) for v in ctx.violations):
        raise Unrecognised(f"{cf.where}: the conversion of list-valued columns is guarded by conditions the checker does not know: {unknown}")


from ..through_time import make_rule as _mk_tt, make_t2 as _mk_t2
_through_time = _mk_tt("C19")
_small_edits = _mk_t2("C19")

def _lazy_tables(ctx):
    from .c05 import r1_aligned_views
    from .c04 import r6_lazy_derivations
    r1_aligned_views(ctx)
    r6_lazy_derivations(ctx)   # tables read from files are lazy: concatenation and replacement act on all columns / leave the operand unchanged

def _mutable_defaults(ctx):
    from .c20 import r9_mutable_defaults
    r9_mutable_defaults(ctx, ("bionumpy.bnpdataclass.bnpdataclass", "bionumpy.bnpdataclass.lazybnpdataclass", "bionumpy.bnpdataclass.bnpdataclassfunction", "bionumpy.bnpdataclass.pandas_adaptor", "bionumpy.string_array"))   # tables must not share an overlay / cache through a default argument

def _encoding_identity(ctx):
    from .c06 import r6_encoding_identity
    r6_encoding_identity(ctx)              # the constructor keeps a column whose encoding EQUALS the declared one: equality must mean the same alphabet


def _round7_pandas_and_index(ctx):
    from ..idioms import check_pandas_labels, check_index_casts
    mods = ["bionumpy.string_array", BD, "bionumpy.bnpdataclass.pandas_adaptor", "bionumpy.encoded_array", "bionumpy.bnpdataclass.bnpdataclassfunction"]
    check_pandas_labels(ctx, mods, "C19-R11")
    check_index_casts(ctx, ["bionumpy.string_array", BD, "bionumpy.encoded_array"], "C19-R11")

RULES = [
    ("C19-R6", r6_retarget_guard),
    ("C19-R1", r1_constructor_exhaustive),
    ("C19-R2", r2_derivations),
    ("C19-R3", r3_no_effect_statements),
    ("C19-R4", r4_class_memo_keys),
    ("C19-R5", r5_string_array),
    ("C19-R7", r7_guards_and_list_columns),
    ("C19-T1", _through_time),
    ("C19-T2", _small_edits),
    ("C19-R8", _lazy_tables),
    ("C19-R9", _mutable_defaults),
    ("C19-R10", _encoding_identity),
    ("C19-R11", _round7_pandas_and_index),
]
