"""C07 - encoded arrays behave like NumPy arrays of characters.

 R1 encoding preservation: every constructor call inside the methods of EncodedArray / EncodedRaggedArray that builds a result from `self`
    passes the operand's own encoding;
 R2 operands are brought to the target encoding before comparing or storing: __array_ufunc__ (both classes) maps every input through
    as_encoded_array(., encoding), forwards only equal / not_equal; __setitem__ / _set_data_range encode the value before the write;
    copy() copies the data unconditionally;
 R3 no-effect comparison statements (= C19-R3);
 R4 text helpers over ragged arrays: row-wise equality reduces with all() per row (identity True for empty rows), split/join formulas;
 R5 stale-shape idiom: the shape of a ragged array is read after, not before, the ravel() that may re-layout it.
"""
from __future__ import annotations
import ast

from ..index import AnchorMissing, Unrecognised
from ..astutil import linear_body, u, body_walk, local_env, func_calls, walk_local, single_return_expr, inline_locals
from .. import sym
from ..cfg import CFG

EXPLANATION = ("Static analysis of the encoded-array classes: every method that derives a result from self is reduced to the constructor call it returns and "
               "checked to pass the operand's encoding; the ufunc / item-assignment paths are checked to encode all other operands with the target "
               "encoding before the raw operation and to forward only equality; copy and the ragged text helpers are compared as normal forms; a "
               "statement-order idiom (shape read before a re-layouting ravel) is searched. NumPy indexing semantics on ragged views and resulting values "
               "are not decided.")

EA = "bionumpy.encoded_array"


def r1_encoding_preserved(ctx):
    ix = ctx.index
    n = 0
    for clsname, enc_ok in (("EncodedArray", {"self.encoding"}), ("EncodedRaggedArray", {"self._encoding", "self.encoding", "self.ravel().encoding"})):
        cls = ix.cls(EA, clsname)
        for name, fi in cls.methods.items():
            if name in ("__init__", "__repr__", "__str__", "_proper_repr", "to_string", "tolist", "__hash__", "__len__"):
                continue
            for c in func_calls(fi.node) + [x for l in ast.walk(fi.node) if isinstance(l, ast.Lambda) for x in ast.walk(l) if isinstance(x, ast.Call)]:
                fn = u(c.func)
                if fn in ("self.__class__", "EncodedArray") and (len(c.args) >= 2 or any(k.arg == "encoding" for k in c.keywords)):
                    enc = c.args[1] if len(c.args) >= 2 else [k.value for k in c.keywords if k.arg == "encoding"][0]
                    # skip constructors that wrap foreign data explicitly as ASCII / another named encoding
                    src = u(c.args[0]) if c.args else ""
                    if clsname == "EncodedRaggedArray" and fn == "self.__class__":
                        continue  # EncodedRaggedArray(data: EncodedArray, shape): encoding travels with the inner EncodedArray
                    n += 1
                    ok = u(enc) in enc_ok
                    ctx.ob(fi.where, f"{clsname}.{name}: the result wraps its data with the operand's own encoding", ok, u(c)[:120], key=f"C07-R1|{clsname}|{name}|{u(enc)}")
    ctx.floor("result constructors inside the encoded-array classes", n, 18)
    gi = ix.func(EA, "EncodedArray.__getitem__")
    env = local_env(gi.node)
    idx = gi.params[1]
    ok = "new_data" in env and sym.canon(env["new_data"]) == f"self.data.__getitem__({idx})"
    rets = [sym.canon(n_.value) for n_ in body_walk(gi.node) if isinstance(n_, ast.Return)]
    ok = ok and sorted(rets) == sorted(["self.__class__(new_data, self.encoding)", "EncodedRaggedArray(EncodedArray(new_data.ravel(), self.encoding), new_data._shape)"])
    ctx.ob(gi.where, "indexing delegates to the raw array and re-wraps the result (plain or ragged) with the same encoding", ok, str(rets), key="C07-R1|getitem")
    er = ix.cls(EA, "EncodedRaggedArray")
    for mname, want in (("ravel", "EncodedArray(super().ravel(), self._encoding)"), ("_get_data_range", f"EncodedArray(super()._get_data_range(idx), self._encoding)"),
                        ("raw", "RaggedArray(self.ravel().raw(), self._shape)")):
        fi = er.methods[mname]
        e = single_return_expr(fi.node)
        w = want.replace("idx", fi.params[1]) if len(fi.params) > 1 else want
        ctx.ob(fi.where, f"EncodedRaggedArray.{mname} re-wraps the parent's result with the array's encoding / shape", e is not None and sym.canon(e) == sym.canon(sym.parse_expr(w)), u(e) if e is not None else "",
               key=f"C07-R1|ragged|{mname}")
    cl = er.methods["_cls"]
    e = single_return_expr(cl.node)
    ok = isinstance(e, ast.Lambda) and sym.canon(e.body) == "self.__class__(EncodedArray(data, self._encoding), shape)"
    ctx.ob(cl.where, "results produced by the ragged machinery are rebuilt as encoded ragged arrays with the same encoding", ok, "", key="C07-R1|ragged|_cls")
    init = er.methods["__init__"]
    txt = u(init.node)
    ok = "super().__init__(data.raw(), shape, *args, **kwargs)" in txt and "self._encoding = data.encoding" in txt and "assert isinstance(data, EncodedArray)" in txt
    ctx.ob(init.where, "an encoded ragged array takes its encoding from the encoded data it is built from", ok, "", key="C07-R1|ragged|init")


def r2_operands_encoded(ctx):
    ix = ctx.index
    au = ix.func(EA, "EncodedArray.__array_ufunc__")
    txt = u(au.node)
    ok = "if method == '__call__' and ufunc.__name__ in ('equal', 'not_equal'):" in txt and "inputs = _parse_ufunc_inputs(inputs, self.encoding)" in txt and "return ufunc(*inputs)" in txt
    ctx.ob(au.where, "EncodedArray ufuncs: only equal / not_equal are forwarded, after every input was encoded with the array's encoding", ok, "", key="C07-R2|ufunc")
    rets = [u(n.value) for n in body_walk(au.node) if isinstance(n, ast.Return)]
    ctx.ob(au.where, "every other ufunc is refused (NotImplemented)", rets.count("NotImplemented") == 2 and len(rets) == 3, str(rets), key="C07-R2|ufunc-refuse")
    pi = ix.func(EA, "_parse_ufunc_inputs")
    ys = [x for x in body_walk(pi.node) if isinstance(x, ast.Yield)]
    ok = len(ys) == 1 and sym.canon(ys[0].value) == f"as_encoded_array(a, {pi.params[1]}).raw()" and any(isinstance(x, ast.For) and u(x.iter) == pi.params[0] for x in linear_body(pi.node))
    ctx.ob(pi.where, "each ufunc operand is converted to the target encoding and then to raw codes", ok, "", key="C07-R2|parse-inputs")
    ru = ix.func(EA, "EncodedRaggedArray.__array_ufunc__")
    env = {}
    for s in linear_body(ru.node):
        if isinstance(s, ast.Assign) and isinstance(s.targets[0], ast.Name):
            env.setdefault(s.targets[0].id, []).append(s.value)
    ok = sym.canon(env["inputs"][0]) == sym.canon(sym.parse_expr("[as_encoded_array(i, self.ravel().encoding).raw() for i in inputs]")) and \
        sym.canon(env["kwargs"][0]) == sym.canon(sym.parse_expr("{key: as_encoded_array(val, self.ravel().encoding).raw() for key, val in kwargs.items()}"))
    ctx.ob(ru.where, "EncodedRaggedArray ufuncs: every positional and keyword operand is encoded with the array's encoding first", ok, "", key="C07-R2|ragged-ufunc")
    si = ix.func(EA, "EncodedArray.__setitem__")
    st = [s for s in linear_body(si.node) if isinstance(s, (ast.Assign, ast.Expr)) and not (isinstance(s, ast.Expr) and isinstance(s.value, ast.Constant))]
    idx, val = si.params[1], si.params[2]
    ok = len(st) == 2 and isinstance(st[0], ast.Assign) and sym.canon(st[0].value) == f"as_encoded_array({val}, self.encoding)" and u(st[0].targets[0]) == val and \
        sym.canon(st[1].value) == f"self.data.__setitem__({idx}, {val}.data)"
    ctx.ob(si.where, "item assignment encodes the value with the array's encoding, then stores its codes", ok, "; ".join(u(s) for s in st), key="C07-R2|setitem")
    sd = ix.func(EA, "EncodedRaggedArray._set_data_range")
    st = [s for s in linear_body(sd.node) if not (isinstance(s, ast.Expr) and isinstance(s.value, ast.Constant))]
    ok = len(st) == 1 and isinstance(st[0], ast.Expr) and sym.canon(st[0].value) == f"super()._set_data_range({sd.params[1]}, as_encoded_array({sd.params[2]}, self._encoding).raw())"
    ctx.ob(sd.where, "ragged item assignment encodes *every* value (already encoded or not) with the array's encoding before storing its codes", ok, "; ".join(u(s) for s in st),
           key="C07-R2|set-data-range")
    cp = ix.func(EA, "EncodedRaggedArray.copy")
    e = single_return_expr(cp.node)
    ok = e is not None and sym.canon(e) == "self.__class__(EncodedArray(self.ravel().copy(), self._encoding), self.shape)" and len([n for n in body_walk(cp.node) if isinstance(n, ast.Return)]) == 1
    ctx.ob(cp.where, "copy() always copies the flat data (a copy of a view never shares its buffer with the view)", ok, u(e) if e is not None else "", key="C07-R2|ragged-copy")
    c2 = ix.func(EA, "EncodedArray.copy")
    ctx.ob(c2.where, "EncodedArray.copy copies the data", sym.same(single_return_expr(c2.node), "self.__class__(self.data.copy(), self.encoding)"), "", key="C07-R2|copy")
    af = ix.func(EA, "EncodedArray.__array_function__")
    g_forms = {}
    for n in body_walk(af.node):
        if isinstance(n, ast.If) and isinstance(n.test, ast.Compare) and u(n.test.left) == "func":
            key = u(n.test.comparators[0])
            rr = [x for b in n.body for x in walk_local(b) if isinstance(x, ast.Return)]
            if rr:
                forms = {sym.canon(x.value) for x in rr}
                g_forms[key] = forms.pop() if len(forms) == 1 else " | ".join(sorted(forms))
    want = {"np.concatenate": "self.__class__(func([e.data for e in args[0]]), self.encoding)",
            "np.where": "self.__class__(func(args[0], args[1].data, args[2].data), encoding=self.encoding)",
            "np.append": "self.__class__(func(args[0].data, args[1].data, *args[2:], **kwargs), encoding=self.encoding)",
            "np.insert": "self.__class__(func(args[0].data, args[1], args[2].data, *args[3:], **kwargs), encoding=self.encoding)"}
    for k, w in want.items():
        ctx.ob(af.where, f"{k} on encoded arrays unwraps the operands' codes, applies the function and re-wraps with the same encoding", g_forms.get(k) == sym.canon(sym.parse_expr(w)),
               str(g_forms.get(k)), key=f"C07-R2|array_function|{k}")


def r3_no_effect(ctx):
    from .c19 import r3_no_effect_statements
    r3_no_effect_statements(ctx)


def r4_text_helpers(ctx):
    ix = ctx.index
    S = "bionumpy.io.strops"
    f = ix.func(S, "_str_equal_two_encoded_ragged_arrays")
    a, b = f.params
    env = {}
    seq = [s for s in linear_body(f.node) if isinstance(s, (ast.Assign, ast.AugAssign))]
    txt = [u(s) for s in seq]
    want = [f"{a} = as_encoded_array({a})", f"L = {b}.lengths", f"mask = {a}.lengths == L", f"mask[mask] &= ({a}[mask] == {b}[mask]).all(axis=-1)"]
    if txt == want:
        ctx.ob(f.where, "row-wise equality of two ragged arrays: equal lengths, then all characters equal per row (all() of an empty row is True)", True, "", key="C07-R4|str-equal-ragged")
    elif any(isinstance(c, ast.Call) and u(c.func).endswith(".reduceat") for c in ast.walk(f.node)):
        ctx.ob(f.where, "row-wise equality reduces each row with all() (ufunc.reduceat does not return the identity for empty rows: two empty strings would compare by the next row's first character)",
               False, " | ".join(txt), key="C07-R4|str-equal-ragged")
    else:
        raise Unrecognised(f"{f.where}: row-wise equality has a form the checker cannot compare")
    g = ix.func(S, "str_equal")
    txt = u(g.node)
    ok = "mask = sequences.lengths == L" in txt and "matrix = sequences.ravel()[starts[:, np.newaxis] + np.arange(L)]" in txt and "mask[mask] &= np.all(matrix == match_string, axis=-1)" in txt and \
        "starts = sequences._shape.starts[mask]" in txt
    ctx.ob(g.where, "equality with one string: rows of the right length are compared character by character", ok, "", key="C07-R4|str-equal")
    sp = ix.func(S, "split")
    txt = u(sp.node)
    ok = "mask[-1] = True" in txt and "sep_idx = np.flatnonzero(mask)" in txt and "lens = np.diff(unsafe_extend_left(sep_idx))" in txt and "lens[0] = sep_idx[0] + 1" in txt and \
        "return ragged_array[:, :-1]" in txt
    ctx.ob(sp.where, "split: rows end at each separator (and at the end); the separator itself is dropped from every row", ok, "", key="C07-R4|split")
    seq, sep = sp.params[0], sp.params[1]
    defs = [n for n in body_walk(sp.node) if (isinstance(n, ast.Assign) and u(n.targets[0]) == "mask" and not isinstance(n.targets[0], ast.Subscript)) or
            (isinstance(n, ast.AugAssign) and u(n.target) == "mask")]
    ctx.floor("definitions of the separator mask in split", len(defs), 2)
    env = local_env(sp.node)
    for d in defs:
        v = d.value
        raw = any(isinstance(x, ast.Call) and isinstance(x.func, ast.Attribute) and x.func.attr == "raw" for x in ast.walk(v)) or any(isinstance(x, ast.Call) and u(x.func) == "ord" for x in ast.walk(v))
        if raw:
            okd = False
        elif isinstance(v, ast.Compare) and len(v.ops) == 1 and isinstance(v.ops[0], ast.Eq) and sym.canon(v.left, env) == sym.canon(sym.parse_expr(f"unsafe_extend_right({seq})")):
            okd = True
        else:
            raise Unrecognised(f"{sp.where}: separator mask is built in an unknown form: {u(d)}")
        ctx.ob(sp.where, "split compares the (encoded) sequence with the separator through the encoded `==`, which encodes the separator with the sequence's own encoding; "
               "comparing raw codes with character ordinals finds nothing in an alphabet-encoded sequence", okd, u(d), key="C07-R4|split-encoded-compare")
    rs = ix.func("bionumpy.util.ragged_slice", "ragged_slice")
    arr = rs.params[0]
    env_rs = local_env(rs.node)
    rets_rs = [r for r in body_walk(rs.node) if isinstance(r, ast.Return)]
    want_rs = sym.canon(sym.parse_expr(f"EncodedRaggedArray(EncodedArray(nps.ragged_slice({arr}.ravel(), {rs.params[1]}, {rs.params[2]}).ravel(), {arr}.encoding), "
                                       f"nps.ragged_slice({arr}.ravel(), {rs.params[1]}, {rs.params[2]}).shape)"))
    if len(rets_rs) == 1 and sym.canon(rets_rs[0].value, env_rs) == want_rs:
        ctx.ob(rs.where, "ragged_slice cuts [start, end) out of the flattened text with npstructures' slicer (whose omitted bounds are the start / END OF THE DATA) and keeps the encoding",
               True, "", key="C07-R4|ragged-slice")
    else:
        rows = [x for x in ast.walk(rs.node) if (isinstance(x, ast.Call) and u(x.func) == "len" and x.args and u(x.args[0]) == arr) or
                (isinstance(x, ast.Subscript) and u(x.value) == f"{arr}.shape")]
        if rows:
            ctx.ob(rs.where, "positions in the flattened text are never bounded by the number of ROWS of the ragged array", False, "; ".join(u(x) for x in rows), key="C07-R4|ragged-slice")
        else:
            raise Unrecognised(f"{rs.where}: ragged_slice no longer delegates to npstructures' slicer on the flattened text")
    sa = ix.func("bionumpy.string_array", "string_array")
    g = CFG(sa.node)
    p0 = sa.params[0]
    dec = [n for n in g.nodes if n.kind == "test" and "BaseEncoding" in u(n.ast) and ".encoding" in u(n.ast)]
    pads = [n for n in g.nodes if n.kind == "stmt" and any(isinstance(c, ast.Call) and (u(c.func).endswith("as_padded_matrix") or "padded" in u(c.func)) for c in walk_local(n.ast))]
    ctx.floor("padding sites in string_array", len(pads), 1)
    ctx.need(len(dec) >= 1, "string_array: decode-to-text guard not found")
    for pd in pads:
        ok = any(g.dominates(d, pd) for d in dec)
        ctx.ob(sa.where, "ragged text is decoded to characters BEFORE it is padded to a matrix: padding bytes are NUL characters, not code 0 of the alphabet "
               "(which would decode to its first letter)", ok, u(pd.ast), key="C07-R4|string-array-decode-first")
    decs = [n for n in g.nodes if n.kind == "stmt" and isinstance(n.ast, ast.Assign) and sym.canon(n.ast.value) == f"{p0}.encoding.decode({p0})"]
    ctx.ob(sa.where, "non-base encoded text is decoded with its own encoding", len(decs) >= 1 and all(u(n.ast.targets[0]) == p0 for n in decs), "", key="C07-R4|string-array-decode")


def r5_stale_shape(ctx):
    """x._shape / x.shape saved in a local before x.ravel() is called and used afterwards: for a ragged *view* ravel() re-lays the data out and replaces the shape."""
    ix = ctx.index
    n = 0
    from ..through_time import anchor_modules
    mods = set(anchor_modules(ctx.prop))
    if ctx.prop in ("C06", "C07"):      # every place that flattens encoded ragged text
        mods |= {EA, "bionumpy.io.strops", "bionumpy.sequence.dna", "bionumpy.sequence.kmers", "bionumpy.encodings.alphabet_encoding", "bionumpy.util.ragged_slice",
                 "bionumpy.string_array", "bionumpy.io.dump_csv"}
    for mod in sorted(mods):
        if mod not in ix.modules:
            continue
        for fi in ix.module(mod).functions.values():
            if isinstance(fi.node, ast.Lambda):
                continue
            n += 1
            saved = {}
            for s in linear_body(fi.node):
                if isinstance(s, ast.Assign) and isinstance(s.targets[0], ast.Name):
                    v = s.value.body if isinstance(s.value, ast.IfExp) else s.value
                    if isinstance(v, ast.Attribute) and v.attr in ("_shape",) and isinstance(v.value, ast.Name):
                        saved[s.targets[0].id] = (v.value.id, s.lineno)
            for var, (obj, line) in saved.items():
                ravels = [c for c in ast.walk(fi.node) if isinstance(c, ast.Call) and u(c.func) == f"{obj}.ravel" and c.lineno > line]
                uses = [x for x in ast.walk(fi.node) if isinstance(x, ast.Name) and x.id == var and isinstance(x.ctx, ast.Load) and ravels and x.lineno >= min(r.lineno for r in ravels)]
                ctx.ob(f"{fi.module.relpath}:{line} {fi.qualname}", f"the shape of `{obj}` is not captured before `{obj}.ravel()` and used after it (ravel() of a ragged view replaces the shape; "
                       f"the captured one no longer matches the flattened data)", not (ravels and uses), f"{var} = {obj}._shape at line {line}, {obj}.ravel() at line {ravels[0].lineno if ravels else '-'}",
                       key=f"C07-R5|{mod}|{fi.qualname}|{obj}", definite=True)
    ctx.floor("functions scanned for the stale-shape idiom", n, 40)
    ctx.ob("bionumpy", f"{n} functions scanned: no ragged shape is captured before a ravel() of the same object and used after it", True, "")


def _memoised_results(ctx):
    from .c20 import r6_memoised_results      # a memoised encoder / text helper would hand the same writable array to every caller
    r6_memoised_results(ctx, (EA, "bionumpy.io.strops", "bionumpy.string_array", "bionumpy.util.ragged_slice", "bionumpy.encodings.alphabet_encoding",
                              "bionumpy.encodings.string_encodings", "bionumpy.encodings"))


from ..through_time import make_rule as _mk_tt, make_t2 as _mk_t2
_through_time = _mk_tt("C07")
_small_edits = _mk_t2("C07")

def _retarget_and_shapes(ctx):
    from .c06 import r2_retarget_guard, r4_shape_plumbing
    r2_retarget_guard(ctx)     # comparison / assignment between two alphabet encodings goes through this guard
    r4_shape_plumbing(ctx)
def _join_split(ctx):
    from .c18 import r4_float_and_list_formatting
    r4_float_and_list_formatting(ctx)

def _delta_arrays(ctx):
    from ..idioms import check_delta_arrays
    check_delta_arrays(ctx, ["bionumpy.encoded_array", "bionumpy.io.strops", "bionumpy.string_array", "bionumpy.util.ragged_slice"], "C07-R9")


def _round7_index_and_codes(ctx):
    from ..idioms import check_index_casts
    from .round7 import set_data_range_raw
    check_index_casts(ctx, ["bionumpy.encoded_array", "bionumpy.string_array"], "C07-R10")
    set_data_range_raw(ctx, "C07-R10")

RULES = [
    ("C07-R1", r1_encoding_preserved),
    ("C07-R2", r2_operands_encoded),
    ("C07-R3", r3_no_effect),
    ("C07-R4", r4_text_helpers),
    ("C07-R5", r5_stale_shape),
    ("C07-R6", _memoised_results),
    ("C07-T1", _through_time),
    ("C07-T2", _small_edits),
    ("C07-R7", _retarget_and_shapes),
    ("C07-R8", _join_split),
    ("C07-R9", _delta_arrays),
    ("C07-R10", _round7_index_and_codes),
]
