"""C18 - numbers survive conversion between text and arrays.

 R1 formatting: the digit count of an integer comes from exact integer comparison against the table 10**1..10**18 (searchsorted, side='right'),
    never from floating log10; the sign column is allocated iff the number is negative and '-' is written into column 0 of exactly those rows;
    digits are (|x| // 10**power) % 10;  |int64 min| is not representable (known finding);
 R2 parsing: both '-' and '+' are neutralised on a private copy, the sign is applied after the digit sum, each row of a float batch is handed to
    exactly one of the decimal / scientific parsers under complementary masks and stored back under the same mask (row independence);
 R3 the fixed-width digit matrix is right-aligned on each field (window start == field end - width, unclamped) and its left padding is filled;
 R4 floats are printed with Python's shortest round-trip repr; integer lists are joined from the per-element strings.
"""
from __future__ import annotations
import ast
import numpy as np

from ..index import AnchorMissing, Unrecognised
from ..absval import Evaluator
from ..astutil import linear_body, u, body_walk, local_env, func_calls, walk_local, single_return_expr, straightline_return, inline_locals
from .. import sym

EXPLANATION = ("Static analysis of the text<->number conversion source: the integer-width computation is checked to be an exact integer table lookup (the power "
               "table is constant-evaluated) and never a floating logarithm; sign handling, digit extraction, mask-aligned dispatch of float rows and the "
               "right-alignment identity of the fixed-width digit matrix are compared as symbolic normal forms. Decides these structural clauses for every "
               "value at once; it does not decide numerical exactness of the power tables for decimal points or float accuracy (value arithmetic).")

S = "bionumpy.io.strops"


def r1_formatting(ctx):
    ix = ctx.index
    # (a) no floating logarithm in integer formatting
    n = 0
    for qn in ("ints_to_strings", "int_to_str", "int_lists_to_strings", "_build_power_array"):
        f = ix.func(S, qn)
        n += 1
        logs = [c for c in func_calls(f.node) if u(c.func) in ("np.log10", "np.log", "np.log2", "math.log10", "math.log", "np.floor", "np.ceil")]
        ctx.ob(f.where, f"{qn}: the number of digits is not derived from a floating-point logarithm (inexact near powers of ten, e.g. 10**15 - 1)", not logs,
               "; ".join(u(c)[:60] for c in logs), key=f"C18-R1|{qn}|log")
    f = ix.func(S, "ints_to_strings")
    env = local_env(f.node)
    p = f.params[0]
    ctx.need("lengths" in env and "is_negative" in env and "shape" in env, "ints_to_strings: lengths / is_negative / shape not found")
    L = env["lengths"]
    ok_form = False
    table = None
    if isinstance(L, ast.BinOp) and isinstance(L.op, ast.Add) and sym.poly(L.right) == sym.Poly.const(1) and isinstance(L.left, ast.Call) and u(L.left.func) == "np.searchsorted":
        c = L.left
        side = [k.value for k in c.keywords if k.arg == "side"]
        ok_form = len(c.args) == 2 and sym.canon(c.args[1]) == f"np.abs({p})" and bool(side) and getattr(side[0], "value", None) == "right"
        try:
            table = Evaluator().ev(c.args[0])
        except Unrecognised:
            table = None
    ctx.ob(f.where, "digit count = 1 + #{k : 10**k <= |x|} by searchsorted(side='right') on an integer table", ok_form, u(L), key="C18-R1|width-form")
    ok_table = table is not None and [int(t) for t in np.asarray(table).ravel()] == [10 ** k for k in range(1, 19)] and np.asarray(table).dtype.kind in "iu"
    ctx.ob(f.where, "the power table is exactly 10**1 .. 10**18 in integer arithmetic (covers every int64 magnitude)", ok_table,
           str(None if table is None else np.asarray(table).ravel()[:3]), key="C18-R1|width-table")
    ctx.ob(f.where, "a number is negative iff number < 0", sym.canon(env["is_negative"]) == sym.canon(sym.parse_expr(f"{p} < 0")), u(env["is_negative"]), key="C18-R1|neg")
    ctx.ob(f.where, "one extra column is allocated exactly for negative numbers", sym.same(env["shape"], "RaggedShape(lengths + is_negative)", {}), u(env["shape"]), key="C18-R1|sign-col")
    stores = [x for x in body_walk(f.node) if isinstance(x, ast.Assign) and isinstance(x.targets[0], ast.Subscript) and u(x.targets[0].value) == "digits"]
    ok = len(stores) == 1 and sym.canon(stores[0].targets[0].slice) == "(is_negative, 0)" and getattr(stores[0].value, "value", None) == "-"
    ctx.ob(f.where, "'-' is written into column 0 of exactly the negative rows", ok, u(stores[0]) if stores else "", key="C18-R1|minus")
    dg = [x for x in body_walk(f.node) if isinstance(x, ast.Assign) and u(x.targets[0]) == "digits"]
    ok = bool(dg) and sym.same(dg[0].value, f"np.abs({p})[:, np.newaxis] // 10 ** ragged_index % 10")
    ctx.ob(f.where, "digit at power k = (|x| // 10**k) % 10", ok, u(dg[0].value) if dg else "", key="C18-R1|digits")
    ri = [x for x in body_walk(f.node) if isinstance(x, ast.Assign) and u(x.targets[0]) == "ragged_index"]
    ok = len(ri) == 1 and sym.same(ri[0].value, "_build_power_array(shape)")
    ctx.ob(f.where, "powers are laid out by the shared power-array builder over the same shape", ok, "")
    ok = len(dg) == 3 and sym.same(dg[1].value, "EncodedRaggedArray(EncodedArray(digits.ravel(), DigitEncoding), digits._shape)") and sym.same(dg[2].value, "change_encoding(digits, BaseEncoding)")
    ctx.ob(f.where, "digits are rendered through the digit encoding into ASCII", ok, "")
    # (d) |int64 min|
    absn = [c for c in func_calls(f.node) if u(c.func) == "np.abs" and c.args and u(c.args[0]) == p]
    widened = any(isinstance(x, ast.Call) and u(x.func).endswith(".astype") and u(x.args[0]) in ("np.uint64", "object") for x in body_walk(f.node))
    ctx.ob(f.where, "the magnitude of every int64 is representable where it is computed (np.abs of the int64 minimum overflows back to itself)", not absn or widened,
           "np.abs(number) in int64: -2**63 has no positive counterpart", key="C18-R1|abs-int64-min")
    # int_to_str (scalar variant)
    g = ix.func(S, "int_to_str")
    genv = local_env(g.node)
    grets = [x for x in body_walk(g.node) if isinstance(x, ast.Return)]
    e = inline_locals(grets[0].value, {k: v for k, v in genv.items() if k != "L"}) if len(grets) == 1 else None
    ok = e is not None and sym.same(e, f"EncodedArray({g.params[0]} // 10 ** np.arange(L)[::-1] % 10, DigitEncoding)")
    ctx.ob(g.where, "int_to_str: digits are (x // 10**k) % 10 for k = L-1 .. 0", ok, u(e) if e is not None else "", key="C18-R1|int_to_str-digits")
    if "L" in genv:
        Lx = genv["L"]
        okL = isinstance(Lx, ast.BinOp) and isinstance(Lx.op, ast.Add) and sym.poly(Lx.right) == sym.Poly.const(1) and isinstance(Lx.left, ast.Call) and \
            u(Lx.left.func) == "np.searchsorted" and len(Lx.left.args) == 2 and u(Lx.left.args[1]) == g.params[0] and \
            any(k.arg == "side" and getattr(k.value, "value", None) == "right" for k in Lx.left.keywords)
        tb = None
        try:
            tb = Evaluator().ev(Lx.left.args[0]) if okL else None
        except Unrecognised:
            pass
        okL = okL and tb is not None and [int(t) for t in np.asarray(tb).ravel()] == [10 ** k for k in range(1, 19)]
        logs = any(isinstance(x, ast.Call) and u(x.func) in ("np.log10", "np.log") for x in ast.walk(Lx))
        if not okL and not logs:
            raise Unrecognised(f"{g.where}: digit count has an unknown form: {u(Lx)}")
        ctx.ob(g.where, "int_to_str: digit count = 1 + #{k : 10**k <= x} from the exact integer table", okL, u(Lx), key="C18-R1|int_to_str-width")


def r2_parsing(ctx):
    ix = ctx.index
    f = ix.func(S, "str_to_int")
    p = f.params[0]
    stores = [x for x in body_walk(f.node) if isinstance(x, ast.Assign) and isinstance(x.targets[0], ast.Subscript) and u(x.targets[0].value) == p]
    idx = sorted(sym.canon(x.targets[0].slice) for x in stores)
    ok = idx == ["(is_negative, 0)", "(is_positive, 0)"] and all(getattr(x.value, "value", None) == "0" for x in stores)
    ctx.ob(f.where, "both a leading '-' and a leading '+' are replaced by the digit 0 before the digits are read", ok, "; ".join(u(x) for x in stores), key="C18-R2|signs-neutralised")
    txt = u(f.node)
    ok = "is_negative = number_text[:, 0] == '-'" in txt and "is_positive = number_text[:, 0] == '+'" in txt
    ctx.ob(f.where, "signs are recognised in column 0 only", ok, "", key="C18-R2|sign-detection")
    rets = [n for n in linear_body(f.node) if isinstance(n, ast.Return)]
    ok = bool(rets) and sym.same(rets[-1].value, "(number_digits * powers).sum(axis=-1) * signs")
    ctx.ob(f.where, "value = (sum of digit * 10**power) * sign (sign applied after the digit sum)", ok, u(rets[-1].value) if rets else "", key="C18-R2|value")
    env = {}
    for x in linear_body(f.node):
        if isinstance(x, ast.Assign) and isinstance(x.targets[0], ast.Name):
            env[x.targets[0].id] = x.value
    ok = sym.same(env.get("signs"), "np.where(is_negative, -1, +1)") and sym.same(env.get("powers"), "10 ** _build_power_array(number_text._shape)") and \
        sym.same(env.get("number_digits"), "RaggedArray(number_text.ravel().data, number_text._shape)")
    ctx.ob(f.where, "sign = -1 exactly for rows with '-'; powers follow the text's own ragged shape; digits are the text's own rows", ok, "", key="C18-R2|parts")
    first = linear_body(f.node)[1] if isinstance(linear_body(f.node)[0], ast.Expr) else linear_body(f.node)[0]
    ok = isinstance(first, ast.Assign) and u(first.targets[0]) == p and sym.canon(first.value) == f"as_encoded_array({p}).copy()"
    ctx.ob(f.where, "the text is copied before any character is overwritten", ok, u(first), key="C18-R2|copy-first")
    # float dispatch: complementary masks, aligned store
    g = ix.func(S, "str_to_float")
    q = g.params[0]
    st = [x for x in body_walk(g.node) if isinstance(x, ast.Assign) and isinstance(x.targets[0], ast.Subscript) and u(x.targets[0].value) == "numbers"]
    ctx.floor("row dispatch stores in str_to_float", len(st), 2)
    masks = []
    for x in st:
        m = sym.canon(x.targets[0].slice)
        v = x.value
        ok = isinstance(v, ast.Call) and len(v.args) == 1 and isinstance(v.args[0], ast.Subscript) and u(v.args[0].value) == q and sym.canon(v.args[0].slice) == m
        ctx.ob(g.where, f"rows selected by `{m}` are parsed from the same rows of the text and stored back under the same mask (row-wise independence)", ok, u(x),
               key=f"C18-R2|aligned|{u(v.func) if isinstance(v, ast.Call) else '?'}")
        masks.append((m, u(v.func) if isinstance(v, ast.Call) else "?"))
    ok = sorted(masks) == sorted([("scientific", "_scientific_str_to_float"), ("~(scientific)", "_decimal_str_to_float")])
    ctx.ob(g.where, "scientific rows go to the scientific parser, all other rows to the decimal parser (complementary masks)", ok, str(masks), key="C18-R2|dispatch")
    env = {}
    for x in linear_body(g.node):
        if isinstance(x, ast.Assign) and isinstance(x.targets[0], ast.Name):
            env[x.targets[0].id] = x.value
    ok = sym.same(env.get("scientific"), f"np.any({q} == 'e', axis=-1)") and sym.same(env.get("numbers"), f"np.empty(len({q}))")
    ctx.ob(g.where, "a row is scientific iff it contains 'e'; one result slot per row", ok, "", key="C18-R2|scientific-mask", definite=True)
    allrets = [x for x in body_walk(g.node) if isinstance(x, ast.Return)]
    okr = all(u(r.value) == "numbers" or (isinstance(r.value, ast.Call) and u(r.value.func) in ("_decimal_str_to_float", "_scientific_str_to_float")) for r in allrets)
    if not okr:
        raise Unrecognised(f"{g.where}: a return of str_to_float is neither the per-row result array nor a direct parser call")
    ctx.ob(g.where, "str_to_float returns the per-row results (or, on a fast path, one parser's result for the whole batch; ownership of that argument is C20's)",
           any(u(r.value) == "numbers" for r in allrets), "", key="C18-R2|returns")
    h = ix.func(S, "_scientific_str_to_float")
    env = local_env(h.node)
    e = single_return_expr(h.node)
    t = h.params[0]
    want = f"_decimal_str_to_float(ragged_slice({t}, ends=np.nonzero({t} == 'e')[1])) * 10.0 ** str_to_int(ragged_slice({t}, starts=np.nonzero({t} == 'e')[1] + 1))"
    ok = e is not None and sym.canon(e) == sym.canon(sym.parse_expr(want))
    ctx.ob(h.where, "scientific value = mantissa (text before 'e') * 10 ** exponent (text after 'e')", ok, u(e)[:200] if e is not None else "", key="C18-R2|scientific")
    d = ix.func(S, "_decimal_str_to_float")
    rets = [x for x in linear_body(d.node) if isinstance(x, ast.Return)]
    ok = bool(rets) and sym.same(rets[0].value, "signs * base_numbers / powers")
    ctx.ob(d.where, "decimal value = sign * integer-of-digits / 10 ** (number of decimals)", ok, u(rets[0].value) if rets else "", key="C18-R2|decimal")
    env = {}
    for x in linear_body(d.node):
        if isinstance(x, ast.Assign) and isinstance(x.targets[0], ast.Name):
            env.setdefault(x.targets[0].id, []).append(x.value)
    ok = sym.same(env.get("signs", [None])[-1], "np.where(is_negative, -1, +1)") and sym.same(env.get("base_numbers", [None])[-1], "(number_digits * powers).sum(axis=-1)") and \
        sym.same(env.get("powers", [None, None])[-1], "10.0 ** exponents") and sym.same(env.get("dots", [None])[0], "np.nonzero(number_text == '.')")
    ctx.ob(d.where, "decimal parser: parts are the sign mask, the digit sum and 10**(#decimals)", ok, "", key="C18-R2|decimal-parts")
    # the digit weights of the float parser are floating point: integer weights 10**k wrap silently in int64 beyond 18 digits
    pw = [x for x in body_walk(d.node) if isinstance(x, ast.Assign) and u(x.targets[0]) == "powers" and isinstance(x.value, ast.BinOp) and isinstance(x.value.op, ast.Pow)]
    ctx.floor("digit weight computations in the decimal parser", len(pw), 2)
    for x in pw:
        b = x.value.left
        isf = (isinstance(b, ast.Constant) and isinstance(b.value, float)) or (isinstance(b, ast.Call) and u(b.func) in ("float", "np.float64"))
        if not isf and not (isinstance(b, ast.Constant) and isinstance(b.value, int)):
            raise Unrecognised(f"{d.where}: base of the digit weights has an unknown form: {u(x)}")
        ctx.ob(d.where, "the float parser weighs digits with floating-point powers of ten (an integer 10**k wraps in int64 for texts of 20 or more digits)", isf, u(x),
               key=f"C18-R2|float-weights|{sym.canon(x.value.right)[:30]}")
    # delta-array discipline of the power array: it is filled with per-cell increments and then accumulated; a cell that is set absolutely (the '.' cells)
    # must be set BEFORE increments are added to cells that may coincide with it (a number can start with '.'), or the increment is lost
    bp = ix.func(S, "_build_power_array")
    acc = [x for x in body_walk(bp.node) if isinstance(x, ast.Call) and u(x.func) == "np.cumsum" and any(k.arg == "out" for k in x.keywords)]
    ctx.need(len(acc) == 1, "_build_power_array: in-place cumulative sum not found")
    arr = u(acc[0].args[0])
    events = []
    for x in body_walk(bp.node):
        if isinstance(x, ast.Assign) and isinstance(x.targets[0], ast.Subscript) and u(x.targets[0].value) == arr:
            events.append((x.lineno, "set", x))
        elif isinstance(x, ast.AugAssign) and isinstance(x.target, ast.Subscript) and u(x.target.value) == arr:
            events.append((x.lineno, "add", x))
    events.sort(key=lambda e: e[0])
    first_add = next((i for i, e in enumerate(events) if e[1] == "add"), len(events))
    late_sets = [e for e in events[first_add:] if e[1] == "set"]
    ctx.floor("point updates of the power array", len(events), 3)
    ctx.ob(bp.where, "cells of the power array are set absolutely (the '.' cells) only before increments are added: a later absolute store erases the increment of a "
           "row that starts with '.' and shifts the powers of every following row", not late_sets, "; ".join(u(e[2]) for e in late_sets), key="C18-R2|power-array-order")
    ex = [x for x in body_walk(d.node) if isinstance(x, ast.Assign) and isinstance(x.targets[0], ast.Subscript) and u(x.targets[0].value) == "exponents"]
    ok = len(ex) == 1 and sym.canon(ex[0].targets[0].slice) == "row_indices" and sym.same(ex[0].value, "number_text.lengths[row_indices] - col_indices - 1")
    ctx.ob(d.where, "number of decimals of a row = row length - position of its '.' - 1 (rows without '.' keep 0)", ok, u(ex[0]) if ex else "", key="C18-R2|exponents")
    pm = ix.func(S, "parse_with_missing")
    txt = u(pm.node)
    ok = "values[mask] = parser(number_text[mask])" in txt and "mask = number_text.lengths > 0" in txt and "values = np.full(len(number_text), missing_value, dtype=dtype)" in txt
    ctx.ob(pm.where, "optional columns: non-empty rows are parsed and stored under the same mask; the rest keep the missing value", ok, "", key="C18-R2|missing")
    touched = [x for x in body_walk(pm.node) if (isinstance(x, ast.Assign) and isinstance(x.targets[0], ast.Subscript) and u(x.targets[0].value) == "mask") or
               (isinstance(x, ast.AugAssign) and (u(x.target) == "mask" or (isinstance(x.target, ast.Subscript) and u(x.target.value) == "mask")))]
    redefs = [x for x in body_walk(pm.node) if isinstance(x, ast.Assign) and u(x.targets[0]) == "mask"]
    ctx.ob(pm.where, "every non-empty text reaches the parser: the mask of parsed rows is `length > 0` and nothing else (a value such as '.5' is a number, not a missing marker)",
           not touched and len(redefs) == 1, "; ".join(u(x) for x in touched + redefs[1:]), key="C18-R2|missing-mask-only-empty")


def r3_digit_matrix(ctx):
    f = ctx.index.func("bionumpy.io.file_buffers", "move_intervals_to_digit_array")
    env = local_env(f.node)
    data, starts, ends = f.params[0], f.params[1], f.params[2]
    ctx.need(all(k in env for k in ("max_chars", "view_starts", "indices", "array")), "move_intervals_to_digit_array: expected locals not found")
    ok = sym.same(env["max_chars"], f"np.max({ends} - {starts})")
    ctx.ob(f.where, "matrix width = the widest field", ok, u(env["max_chars"]), key="C18-R3|width")
    vs = env["view_starts"]
    p = sym.poly(vs, {k: v for k, v in env.items() if k != "max_chars"})
    aligned = p + sym.Poly.atom("max_chars") == sym.Poly.atom(ends)
    if not aligned:
        if any(isinstance(x, ast.Call) and u(x.func) in ("np.maximum", "np.clip", "np.where", "np.minimum", "max", "min") for x in ast.walk(vs)):
            ctx.ob(f.where, "each window is right-aligned on its field: window start + width == field end (a clamped start breaks the alignment the zero fill relies on)",
                   False, f"view_starts = {u(vs)}", key="C18-R3|right-aligned")
        else:
            raise Unrecognised(f"{f.where}: window start has an unknown form: {u(vs)}")
    else:
        ctx.ob(f.where, "each window is right-aligned on its field: window start + width == field end", True, "", key="C18-R3|right-aligned")
    ok = sym.same(env["indices"], "view_starts[..., None] + np.arange(max_chars)", {}) and sym.same(env["array"], f"{data}[indices.ravel()]", {})
    ctx.ob(f.where, "the matrix is gathered from consecutive bytes starting at each window start", ok, u(env["indices"]), key="C18-R3|gather")
    z = [x for x in body_walk(f.node) if isinstance(x, ast.Assign) and isinstance(x.targets[0], ast.Tuple) and "zeroed" in u(x.targets[0])]
    ok = len(z) == 1 and sym.same(z[0].value, f"RaggedView(np.arange({starts}.size) * max_chars, max_chars - ({ends} - {starts})).get_flat_indices()")
    ctx.ob(f.where, "in row i the first (width - field length) cells are the padding", ok, u(z[0].value) if z else "", key="C18-R3|padding")
    fill = [x for x in body_walk(f.node) if isinstance(x, ast.Assign) and isinstance(x.targets[0], ast.Subscript) and u(x.targets[0].value) == "array"]
    ok = len(fill) == 1 and u(fill[0].targets[0].slice) == "zeroed" and u(fill[0].value) == f.params[3]
    ctx.ob(f.where, "the padding is overwritten with the fill value", ok, u(fill[0]) if fill else "", key="C18-R3|fill")
    rets = [x for x in body_walk(f.node) if isinstance(x, ast.Return)]
    ok = any(sym.same(r.value, "array.reshape((-1, max_chars))") for r in rets)
    ctx.ob(f.where, "rows of the matrix are the fields", ok, "")
    # the int parser sums digits with descending powers
    g = ctx.index.func(S, "str_to_int")
    ok = "powers = 10 ** np.arange(number_text.shape[-1])[::-1]" in u(g.node) and "return number_text.raw().dot(powers)" in u(g.node)
    ctx.ob(g.where, "a fixed-width digit matrix is read with powers 10**(width-1) .. 10**0", ok, "", key="C18-R3|matrix-powers")


def r4_float_and_list_formatting(ctx):
    ix = ctx.index
    f = ix.func(S, "float_to_strings")
    rets = [x for x in linear_body(f.node) if isinstance(x, ast.Return)]
    ok = bool(rets) and sym.canon(rets[0].value) == sym.canon(sym.parse_expr(f"as_encoded_array([str(f) for f in {f.params[0]}])"))
    ctx.ob(f.where, "floats are printed with Python's str(float) (shortest repr that parses back to the same double)", ok, u(rets[0].value) if rets else "", key="C18-R4|float-repr")
    g = ix.func(S, "int_lists_to_strings")
    env = {}
    for x in linear_body(g.node):
        if isinstance(x, ast.Assign) and isinstance(x.targets[0], ast.Name):
            env.setdefault(x.targets[0].id, []).append(x.value)
    il = g.params[0]
    ok = sym.same(env.get("int_strings", [None])[0], f"ints_to_strings({il}.ravel())") and sym.same(env.get("lengths", [None])[0], f"RaggedArray(int_strings.lengths, {il}._shape)") and \
        sym.same(env.get("row_lens", [None])[0], f"lengths.sum(axis=-1) + {il}.lengths") and sym.same(env.get("joined", [None])[0], f"join(int_strings, sep={g.params[1]}, keep_last=True)") and \
        sym.same(env.get("ra", [None])[0], "EncodedRaggedArray(joined, row_lens)")
    ctx.ob(g.where, "a list row = its elements' strings each followed by the separator (row length = sum of element lengths + element count)", ok, "", key="C18-R4|list-join")
    # the drop is `ra[:, :-1]`, assigned back or returned directly, on the path where keep_last is false (whichever way the branch is written)
    from .round7 import _parents, _guards
    par = _parents(g.node)
    kl = g.params[2] if len(g.params) > 2 else "keep_last"
    drop = [x for x in body_walk(g.node) if isinstance(x, (ast.Assign, ast.Return)) and isinstance(x.value, ast.Subscript) and u(x.value.value) == "ra"
            and (isinstance(x, ast.Return) or u(x.targets[0]) == "ra")]
    ok = len(drop) == 1 and sym.canon(drop[0].value.slice) == sym.canon(sym.parse_expr("x[:, :-1]").slice)
    if ok:
        gs = [(br, u(t)) for br, t in _guards(drop[0], par)]
        ok = ("then", f"not {kl}") in gs or ("else", kl) in gs
        if ok and isinstance(drop[0], ast.Return):      # then the other branch returns the untrimmed rows
            ok = any(isinstance(x, ast.Return) and u(x.value) == "ra" for x in body_walk(g.node))
    ctx.ob(g.where, "the trailing separator of each row is dropped unless asked for", ok, u(drop[0]) if drop else "", key="C18-R4|list-trailing")
    j = ix.func(S, "join")
    txt = u(j.node)
    ok = "new_lengths = sequences.lengths + 1" in txt and "new_array[:, :-1] = sequences" in txt and "new_array[:, -1] = sep" in txt and "return new_array.ravel()[:-1]" in txt
    ctx.ob(j.where, "join: every element is followed by one separator; the last one is dropped unless keep_last", ok, "", key="C18-R4|join")
    dc = ix.func("bionumpy.io.dump_csv", "get_column")
    txt = u(dc.node)
    ok = "int: ints_to_strings" in txt and "float: float_to_strings" in txt and "List[int]: int_lists_to_strings" in txt
    ctx.ob(dc.where, "file columns of int / float / list-of-int type are written with these formatters", ok, "", key="C18-R4|writer-table")


def r5_missing_shortcut(ctx):
    """Optional numeric columns: the whole column is declared missing without parsing only if EVERY value is the one-character missing marker; with
    `any`, a column of single characters holding one '.' is returned as all-missing and a junk value in it is never seen by the parser."""
    pm = ctx.index.func(S, "parse_with_missing")
    nt = pm.params[1]
    n = 0
    for t in [x for x in body_walk(pm.node) if isinstance(x, ast.If)]:
        rets = [r for r in ast.walk(t) if isinstance(r, ast.Return)]
        if not any(isinstance(r.value, ast.Call) and u(r.value.func) == "np.full" for r in rets):
            continue
        # all tests guarding the shortcut return
        tests = [t.test] + [x.test for b in t.body for x in ast.walk(b) if isinstance(x, ast.If)]
        for ts in tests:
            for c in [ts] if not isinstance(ts, ast.BoolOp) else ts.values:
                if isinstance(c, ast.Call) and u(c.func) in ("np.all", "all", "np.any", "any") and c.args:
                    n += 1
                    ctx.ob(pm.where, "the no-parse shortcut for an all-missing column quantifies over ALL values", u(c.func) in ("np.all", "all"), u(c), key=f"C18-R5|missing-shortcut|{sym.canon(c.args[0])[:40]}")
                else:
                    raise Unrecognised(f"{pm.where}: the all-missing shortcut is guarded by an unknown test: {u(c)}")
        for r in rets:
            if isinstance(r.value, ast.Call) and u(r.value.func) == "np.full":
                ok = sym.same(r.value, f"np.full(len({nt}), {pm.params[0]}, dtype={pm.params[3]})")
                ctx.ob(pm.where, "the shortcut returns one missing value per row", ok, u(r.value), key="C18-R5|missing-shortcut-value")
    ctx.floor("quantified tests guarding the all-missing shortcut", n, 2)


from .c20 import r2_private_mutator_call_sites as _parser_call_sites_own_their_text   # the decimal parser overwrites signs / dots in place: every caller hands it a copy

from ..through_time import make_rule as _mk_tt, make_t2 as _mk_t2
_through_time = _mk_tt("C18")
_small_edits = _mk_t2("C18")

def _delta_arrays(ctx):
    from ..idioms import check_delta_arrays
    check_delta_arrays(ctx, ["bionumpy.io.strops", "bionumpy.io.file_buffers", "bionumpy.io.dump_csv"], "C18-R7")

def _copy_copies(ctx):
    from .c07 import r2_operands_encoded
    with ctx.only(".copy"):
        r2_operands_encoded(ctx)           # str_to_int overwrites signs on number_text.copy(): the copy must not share the caller's buffer

def r9_digit_fast_path(ctx):
    """The buffer extractor hands integer columns to the parser either as ragged text plus sign masks, or -- fast path -- as a fixed-width matrix of DIGITS with
    no sign masks at all.  The fast path decodes every byte as a digit, so it is right only where no field starts with a sign character; the sign characters are
    the ones str_to_int recognises (enumerated from its own code)."""
    from ..cfg import CFG
    from ..pend import edge_facts
    ix = ctx.index
    f = ix.func(S, "str_to_int")
    signs = set()
    for x in body_walk(f.node):
        if isinstance(x, ast.Compare) and len(x.ops) == 1 and isinstance(x.ops[0], ast.Eq) and isinstance(x.comparators[0], ast.Constant) \
                and isinstance(x.comparators[0].value, str) and len(x.comparators[0].value) == 1 and isinstance(x.left, ast.Subscript) and sym.canon(x.left.slice).replace(" ", "") in ("(:,0)", "(slice(None),0)", "(:, 0)"):
            signs.add(x.comparators[0].value)
    ctx.floor("sign characters recognised by str_to_int", len(signs), 2)
    g = ix.func("bionumpy.io.file_buffers", "TextBufferExtractor.get_digit_array")
    cfg = CFG(g.node)
    env = local_env(g.node)
    fld = g.params[1]
    fast = []
    for n in cfg.nodes:
        if n.kind == "stmt" and isinstance(n.ast, ast.Return) and isinstance(n.ast.value, ast.Tuple) and len(n.ast.value.elts) == 3 \
                and all(isinstance(e, ast.Constant) and e.value is None for e in n.ast.value.elts[1:]):
            fast.append(n)
    ctx.floor("get_digit_array: returns without sign masks (digit fast path)", len(fast), 1)
    first = f"self._data[self._field_starts[:, {fld}]]"
    for n in fast:
        facts = set()
        for t, lab in cfg.guards(n):
            facts |= edge_facts(t, lab, env)
        for c in sorted(signs):
            want = [sym.canon(sym.parse_expr(f"np.any({first} == {c!r})")), sym.canon(sym.parse_expr(f"np.any({c!r} == {first})"))]
            ok = any((not v) and any(w == k or f"({w})" == k for w in want) for k, v in facts)
            if not ok:
                # the same exclusion in one reduction: np.any(A | B | ...) false excludes every operand
                cands = [sym.canon(sym.parse_expr(f"{first} == {c!r}")), sym.canon(sym.parse_expr(f"{c!r} == {first}"))]
                for t, lab in cfg.guards(n):
                    if t.kind != "test" or lab not in ("F", False):
                        continue
                    tt = inline_locals(t.ast, env)
                    if not (isinstance(tt, ast.Call) and u(tt.func) == "np.any" and len(tt.args) == 1):
                        continue
                    todo, ops = [tt.args[0]], []
                    while todo:
                        x = todo.pop()
                        if isinstance(x, ast.BinOp) and isinstance(x.op, ast.BitOr):
                            todo += [x.left, x.right]
                        else:
                            ops.append(sym.canon(x))
                    if any(o in cands for o in ops):
                        ok = True
            ctx.ob(g.where, f"the digit fast path (no sign masks) is taken only where no field starts with {c!r}: every sign str_to_int recognises sends the column "
                   "down the ragged path with its masks", ok, f"guards: {sorted(k for k, v in facts if not v)}", key=f"C18-R9|fast-path-excludes|{c}", definite=True)


def _optional_int_formatter(ctx):
    from .c03 import _optional_int_formatter as f
    f(ctx)                   # Optional[int] columns are formatted as integers (no detour through float64, which rounds above 2**53)


def _field_tables_not_written(ctx):
    from .c20 import r3_self_array_writes
    r3_self_array_writes(ctx, ("bionumpy.io.file_buffers", "bionumpy.io.delimited_buffers"), floor=0)   # a number parsed twice from the same buffer is cut with the same field table



def _round7_signs_and_lazy_join(ctx):
    from .round7 import sign_only_in_first_column
    sign_only_in_first_column(ctx, "C18-R12")
    from .c02 import RULES as _c02
    fn = dict(_c02)["C02-R10"]
    fn(ctx)          # numbers of a lazily read, filtered and re-joined table are parsed from the joined text: its offsets must describe the text that was joined

RULES = [
    ("C18-R1", r1_formatting),
    ("C18-R2", r2_parsing),
    ("C18-R3", r3_digit_matrix),
    ("C18-R4", r4_float_and_list_formatting),
    ("C18-R5", r5_missing_shortcut),
    ("C18-R6", _parser_call_sites_own_their_text),
    ("C18-T1", _through_time),
    ("C18-T2", _small_edits),
    ("C18-R7", _delta_arrays),
    ("C18-R8", _copy_copies),
    ("C18-R9", r9_digit_fast_path),
    ("C18-R10", _optional_int_formatter),
    ("C18-R11", _field_tables_not_written),
    ("C18-R12", _round7_signs_and_lazy_join),
]
