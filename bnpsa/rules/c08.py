"""C08 - interval-set operations equal their per-base definitions.

 R1 merge: running maximum of stops, gap padding of exactly `distance` added before and removed after the test (same guard), strict
    `next start > previous running stop` test, result rows = run starts with the run's last running stop;
 R2 sort keys: every interval sort orders by (chromosome, start, stop) - lexsort key lists are read in reverse;
 R3 intersect / overlap / mask / pileup / unique_intersect: orientation of the comparisons and the shape of the formulas;
 R4 clip / extend_to_size: lower clamp at 0 on starts, upper clamp at the contig size on stops, '+' keeps the start and moves the stop;
 R5 similarity algebra: with the contingency layout read from the code, Jaccard = a/(a+b+c) and Forbes = a*N/((a+b)(a+c)) as rational forms.
"""
from __future__ import annotations
import ast

from ..index import AnchorMissing, Unrecognised
from ..cfg import CFG
from ..astutil import linear_body, u, body_walk, local_env, func_calls, walk_local, single_return_expr, inline_locals
from ..pend import edge_facts
from .. import sym

EXPLANATION = ("Static orientation and normal-form analysis of the interval arithmetic: each comparison / clamp / selector site is located by the roles of its "
               "operands (running maximum of stops, next start, contig size, strand test) and its operator class, clamp direction and branch order are "
               "compared with the per-base definitions; padding added and removed around the merge test must be the same linear form under the same "
               "guard; sort keys are read from lexsort/sorted calls; the similarity indices are normalised as rational functions of the contingency "
               "cells. Holds for every interval set; equality with per-base coverage of the run-length algebra (npstructures) is not decided.")

IV = "bionumpy.arithmetics.intervals"


def _facts_at(g, n):
    out = set()
    for t, lab in g.guards(n):
        out |= edge_facts(t, lab)
    return out


def r1_merge(ctx):
    f = ctx.index.func(IV, "merge_intervals")
    g = CFG(f.node)
    iv, dist = f.params[0], f.params[1]
    asg = {}
    for n in g.stmt_nodes(ast.Assign):
        if isinstance(n.ast.targets[0], ast.Name):
            asg.setdefault(n.ast.targets[0].id, []).append(n)
    ctx.need("stops" in asg and "valid_start_mask" in asg, "merge_intervals: stops / valid_start_mask not found")
    ok = sym.same(asg["stops"][0].ast.value, f"np.maximum.accumulate({iv}.stop)")
    if not ok and any("np.maximum.accumulate(" in u(n.ast.value) for n in asg["stops"]):
        raise Unrecognised(f"{f.where}: the running maximum of the stops is computed in a form the checker cannot compare ({'; '.join(u(n.ast) for n in asg['stops'])})")
    ctx.ob(f.where, "running stop = cumulative maximum of the stops (nested intervals do not shorten a run)", ok, u(asg["stops"][0].ast.value), key="C08-R1|running-max", definite=True)
    # padding
    adds = [n for n in g.stmt_nodes(ast.AugAssign) if u(n.ast.target) == "stops" and isinstance(n.ast.op, ast.Add)]
    subs = [n for n in g.stmt_nodes(ast.AugAssign) if u(n.ast.target).endswith(".stop") and isinstance(n.ast.op, ast.Sub)]
    test = asg["valid_start_mask"][0]
    if not adds and not subs:
        # the same decision written without padding the running stops in place: next start > previous running stop + distance
        tv = test.ast.value
        ctx.need(isinstance(tv, ast.Compare) and len(tv.ops) == 1, "merge_intervals: the new-run test is not a single comparison")
        lhs, rhs, op = tv.left, tv.comparators[0], tv.ops[0]
        if isinstance(op, (ast.Lt, ast.LtE)):
            lhs, rhs, op = rhs, lhs, (ast.Gt() if isinstance(op, ast.Lt) else ast.GtE())
        diff = sym.poly(rhs) - sym.poly(lhs)
        run = sym.Poly.atom("stops[:-1]") - sym.Poly.atom(sym.canon(sym.parse_expr(f"{iv}.start[1:]")))
        raw = sym.Poly.atom(sym.canon(sym.parse_expr(f"{iv}.stop[:-1]"))) - sym.Poly.atom(sym.canon(sym.parse_expr(f"{iv}.start[1:]")))
        pad = diff - run
        if diff - raw == sym.Poly.atom(dist) or diff == raw:
            ctx.ob(f.where, "a new run starts iff next start > previous RUNNING stop (the cumulative maximum, not the previous interval's own stop: an interval nested in an "
                   "earlier, longer one must not end the run)", False, u(tv), key="C08-R1|strict-test", definite=True)
            return
        if not (pad == sym.Poly.atom(dist) or pad == sym.Poly()):
            raise Unrecognised(f"{f.where}: the new-run test `{u(tv)}` is in a form the checker cannot compare")
        ctx.ob(f.where, "gaps of up to `distance` are bridged: the running stop is padded by exactly `distance` before the test", pad == sym.Poly.atom(dist), f"+ {pad}", key="C08-R1|pad-add")
        ctx.ob(f.where, "a new run starts iff next start > previous running stop (strict: touching intervals merge)", isinstance(op, ast.Gt), u(tv), key="C08-R1|strict-test", definite=True)
    else:
        ctx.need(len(adds) == 1 and len(subs) == 1, "merge_intervals: padding add / remove not found")
        pa, ps = sym.poly(adds[0].ast.value), sym.poly(subs[0].ast.value)
        ctx.ob(f.where, "gaps of up to `distance` are bridged: the running stop is padded by exactly `distance` before the test", pa == sym.Poly.atom(dist), f"+= {pa}", key="C08-R1|pad-add")
        ctx.ob(f.where, "the padding is removed again from the reported stops (same amount)", ps == pa, f"-= {ps}", key="C08-R1|pad-remove")
        fa, fs = _facts_at(g, adds[0]), _facts_at(g, subs[0])
        ctx.ob(f.where, "padding is added and removed under the same condition", fa == fs and (f"(0)<({dist})", True) in fa, f"{sorted(fa)} / {sorted(fs)}", key="C08-R1|pad-guard")
        ok = sym.canon(test.ast.value) == sym.canon(sym.parse_expr(f"{iv}.start[1:] > stops[:-1]"))
        ctx.ob(f.where, "a new run starts iff next start > previous running stop (strict: touching intervals merge)", ok, u(test.ast.value), key="C08-R1|strict-test", definite=True)
        ok = g.path([adds[0]], [test]) is not None and g.path([test], [subs[0]]) is not None and g.path([test], adds) is None
        ctx.ob(f.where, "order: pad, test, un-pad", ok, "", key="C08-R1|order")
    env = {k: v[0].ast.value for k, v in asg.items() if len(v) == 1}
    ok = sym.same(env.get("start_mask"), "np.concatenate(([True], valid_start_mask))") and sym.same(env.get("stop_mask"), "np.concatenate((valid_start_mask, [True]))")
    ctx.ob(f.where, "run starts = first interval + every interval after a gap; run ends = every interval before a gap + the last", ok, "", key="C08-R1|masks")
    ok = sym.same(env.get("new_interval"), f"{iv}[start_mask]")
    st = [n for n in g.stmt_nodes(ast.Assign) if u(n.ast.targets[0]) == "new_interval.stop"]
    ok = ok and len(st) == 1 and sym.same(st[0].ast.value, "stops[stop_mask]")
    ctx.ob(f.where, "merged interval = (start of the run's first interval, running stop at the run's last interval)", ok, "", key="C08-R1|result")
    asserts = [n for n in g.nodes if n.kind == "stmt" and isinstance(n.ast, ast.Assert)]
    ok = any(sym.canon(a.ast.test) == sym.canon(sym.parse_expr(f"np.all({iv}.start[:-1] <= {iv}.start[1:])")) for a in asserts)
    ctx.ob(f.where, "unsorted input is rejected", ok, "", key="C08-R1|sorted-precondition", definite=True)


def _lexsort_keys(call):
    a = call.args[0]
    if isinstance(a, (ast.Tuple, ast.List)):
        return [u(e) for e in a.elts]
    return None


def r2_sort_keys(ctx):
    ix = ctx.index
    f = ix.func(IV, "sort_intervals")
    iv = f.params[0]
    ls = [c for c in func_calls(f.node) if u(c.func) == "np.lexsort"]
    ctx.floor("lexsort sites in sort_intervals", len(ls), 1)
    for c in ls:
        keys = _lexsort_keys(c)
        ctx.ob(f.where, "encoded-chromosome path sorts by chromosome, then start, then stop (lexsort keys are listed last-key-first)",
               keys == [f"{iv}.stop", f"{iv}.start", f"{iv}.chromosome"], str(keys), key="C08-R2|lexsort")
    srt = [c for c in func_calls(f.node) if u(c.func) == "sorted" and c.args and not (isinstance(c.args[0], ast.Call) and u(c.args[0].func).endswith(".keys"))]
    ctx.need(len(srt) == 1, "sort_intervals: sorted(...) path not found")
    arg = srt[0].args[0]
    env2 = local_env(f.node)
    if isinstance(arg, ast.GeneratorExp):
        ge = arg
        ok = isinstance(ge.elt, ast.Tuple) and len(ge.elt.elts) == 4 and [sym.canon(e) for e in ge.elt.elts] == \
            ["chromosome_key_function(interval.chromosome.to_string())", "interval.start", "interval.stop", "i"] and sym.canon(ge.generators[0].iter) == f"enumerate({iv})"
        detail = u(ge.elt)
    elif isinstance(arg, ast.Call) and u(arg.func) == "zip" and len(arg.args) == 4:
        # the same key tuple built column-wise: (keys of the chromosome column, start column, stop column, row numbers)
        comps = [inline_locals(a, env2) for a in arg.args]
        cols = []
        for c in comps:
            names = {x.attr for x in ast.walk(c) if isinstance(x, ast.Attribute) and u(x.value) == iv}
            cols.append(sorted(names))
        ok = cols[0] == ["chromosome"] and "chromosome_key_function" in u(comps[0]) and cols[1] == ["start"] and cols[2] == ["stop"] and \
            sym.canon(comps[3]) in (f"range(len({iv}))", f"np.arange(len({iv}))")
        detail = str(cols)
    else:
        raise Unrecognised(f"{f.where}: the generic sort path builds its keys in an unknown form: {u(arg)[:100]}")
    ctx.ob(f.where, "generic path sorts (chromosome key, start, stop) tuples and carries the row index", ok, detail, key="C08-R2|sorted-tuple")
    ok = any(isinstance(n, ast.Assign) and u(n.targets[0]) == "indices" and sym.same(n.value, "list(map(itemgetter(-1), s))") for n in body_walk(f.node))
    rets = [n for n in body_walk(f.node) if isinstance(n, ast.Return)]
    ok = ok and all(u(r.value) in (f"{iv}[args]", f"{iv}[indices]") for r in rets)
    ctx.ob(f.where, "the result is the input re-indexed by the sorting permutation", ok, "", key="C08-R2|permutation")
    g = ix.func("bionumpy.genomic_data.genomic_intervals", "GenomicIntervalsFull.sorted")
    ls = [c for c in func_calls(g.node) if u(c.func) == "np.lexsort"]
    ctx.need(len(ls) == 1, "GenomicIntervalsFull.sorted: lexsort not found")
    ctx.ob(g.where, "genomic intervals sort by chromosome code, start, stop", _lexsort_keys(ls[0]) == ["self.stop", "self.start", "self.chromosome.raw()"], str(_lexsort_keys(ls[0])),
           key="C08-R2|genomic-sorted")
    location_sorted(ctx, "C08-R2")


def location_sorted(ctx, rid):
    """GenomicLocationGlobal.sorted: genome order = chromosome code, then position.  Two exact forms: a lexsort on (position, chromosome code), or a stable
    argsort of ONE combined integer key chromosome*M + position, which orders like the pair only if M exceeds every position."""
    ix = ctx.index
    if not ix.has_func("bionumpy.genomic_data.genomic_intervals", "GenomicLocationGlobal.sorted"):
        return
    h = ix.func("bionumpy.genomic_data.genomic_intervals", "GenomicLocationGlobal.sorted")
    env = local_env(h.node)
    ls = [c for c in func_calls(h.node) if u(c.func) == "np.lexsort"]
    ags = [c for c in func_calls(h.node) if u(c.func) in ("np.argsort",) or (isinstance(c.func, ast.Attribute) and c.func.attr == "argsort")]
    if ls:
        ctx.ob(h.where, "genomic locations sort by chromosome code, then position", _lexsort_keys(ls[0]) == ["self.position", "self.chromosome.raw()"], str(_lexsort_keys(ls[0])),
               key=f"{rid}|location-sorted", definite=True)
        return
    if len(ags) != 1:
        raise Unrecognised(f"{h.where}: genomic locations are sorted in a form the checker does not know")
    c = ags[0]
    key = inline_locals(c.args[0] if u(c.func) == "np.argsort" else c.func.value, env)
    pk = sym.poly(key)
    pos = sym.canon(sym.parse_expr("self.position"))
    chrom_atoms = [a for a in pk.atoms() if "chromosome" in a]
    # key = chrom * M + position  <=>  key - position is a multiple of the chromosome code
    rest = pk - sym.Poly.atom(pos)
    if len(chrom_atoms) != 1 or any(pos == a for a in rest.atoms()):
        raise Unrecognised(f"{h.where}: genomic locations are sorted by `{u(key)}`")
    ch = chrom_atoms[0]
    cands = {"np.max(self.position) + 1": True, "self.position.max() + 1": True, "np.max(self.position)": False, "self.position.max()": False}
    verdict = None
    for txt, good in cands.items():
        if rest == sym.Poly.atom(ch) * sym.poly(sym.parse_expr(txt)):
            verdict = good
    if verdict is None:
        raise Unrecognised(f"{h.where}: genomic locations are sorted by the combined key `{u(key)}`: cannot decide that the multiplier exceeds every position")
    ctx.ob(h.where, "genomic locations sort by chromosome code, then position: a combined key chromosome*M + position orders like the pair only if M exceeds every "
           "position (with M = the largest position, the last position of one chromosome ties with position 0 of the next)", verdict, u(key), key=f"{rid}|location-sorted", definite=True)


def r3_overlap_family(ctx):
    ix = ctx.index
    f = ix.func(IV, "intersect")
    a, b = f.params
    env = {}
    seq = []
    for n in linear_body(f.node):
        if isinstance(n, ast.Assign):
            seq.append(n)
    txt = [u(n) for n in seq]
    want = [f"all_intervals = np.concatenate([{a}, {b}])", "all_intervals = all_intervals[np.argsort(all_intervals.start, kind='mergesort')]",
            "stops = np.sort(all_intervals.stop, kind='mergesort')", "mask = stops[:-1] > all_intervals.start[1:]", "result = all_intervals[1:][mask]",
            "result.stop = stops[:-1][mask]"]
    cn = lambda t: sym.canon(ast.parse(t).body[0].value)
    ok = len(txt) == len(want) and all(u(s.targets[0]) == w.split(" = ")[0] and sym.canon(s.value) == cn(w) for s, w in zip(seq, want))
    ctx.ob(f.where, "intersect: sort by start, sort stops independently, overlap i iff stop_i > start_{i+1} (strict), piece = [start_{i+1}, stop_i)", ok, " | ".join(txt),
           key="C08-R3|intersect")
    m = [s for s in seq if u(s.targets[0]) == "mask"]
    if m:
        c = m[0].value
        strict = isinstance(c, ast.Compare) and isinstance(c.ops[0], (ast.Gt, ast.Lt))
        ctx.ob(f.where, "intersect: touching intervals do not intersect (strict comparison)", strict, u(c), key="C08-R3|intersect-strict")
    co = ix.func(IV, "count_overlap")
    e = [n for n in body_walk(co.node) if isinstance(n, ast.Return)]
    e = e[0].value if len(e) == 1 else None
    ok = e is not None and sym.canon(e) == sym.canon(sym.parse_expr("np.sum(np.maximum(stops[:-1] - starts[1:], 0))"))
    cenv = local_env(co.node)
    ok = ok and sym.same(cenv.get("starts"), f"np.concatenate([{co.params[0]}.start, {co.params[1]}.start])") and sym.same(cenv.get("stops"), f"np.concatenate([{co.params[0]}.stop, {co.params[1]}.stop])")
    ctx.ob(co.where, "overlap = sum over neighbours of max(stop_i - start_{i+1}, 0) on independently sorted starts and stops", ok, u(e) if e is not None else "", key="C08-R3|count-overlap")
    srt = sorted(u(c) for c in func_calls(co.node) if u(c.func).endswith(".sort"))
    ctx.ob(co.where, "starts and stops are each sorted", srt == ["starts.sort(kind='mergesort')", "stops.sort(kind='mergesort')"], str(srt))
    gm = ix.func(IV, "get_boolean_mask")
    iv, size = gm.params
    env = local_env(gm.node)
    ok = sym.same(env.get("merged"), f"merge_intervals({iv}[np.argsort({iv}.start)])") and sym.same(env.get("m"), "merged.start != merged.stop")
    ctx.ob(gm.where, "mask: intervals are sorted by start, merged, and empty intervals dropped", ok, "", key="C08-R3|mask-merge")
    rets = [n for n in linear_body(gm.node) if isinstance(n, ast.Return)]
    ok = bool(rets) and sym.same(rets[-1].value, f"GenomicRunLengthArray.from_intervals(merged.start[m], merged.stop[m], size={size}, default_value=False)")
    ctx.ob(gm.where, "mask = run-length array over [0, size) that is True exactly inside the merged intervals", ok, u(rets[-1].value) if rets else "", key="C08-R3|mask-build")
    asserts = [n for n in body_walk(gm.node) if isinstance(n, ast.Assert)]
    ok = any(sym.canon(x.test) == sym.canon(sym.parse_expr(f"np.all({iv}.stop <= {size})")) for x in asserts)
    ctx.ob(gm.where, "intervals beyond the contig end are rejected", ok, "", key="C08-R3|mask-bound")
    gp = ix.func(IV, "get_pileup")
    iv, size = gp.params
    env = local_env(gp.node)
    rets = [n for n in linear_body(gp.node) if isinstance(n, ast.Return)]
    ok = sym.same(env.get("rla"), f"RunLength2dArray.from_intervals({iv}.start, {iv}.stop, {size})") and bool(rets) and sym.same(rets[-1].value, "GenomicRunLengthArray.from_rle(rla.sum(axis=0))")
    ctx.ob(gp.where, "pileup = sum over intervals of their indicator rows over [0, size)", ok, "", key="C08-R3|pileup")
    ui = ix.func(IV, "unique_intersect")
    env = local_env(ui.node)
    a, b, size = ui.params
    e = single_return_expr(ui.node)
    ok = e is not None and sym.canon(e) == sym.canon(sym.parse_expr(f"{a}[get_boolean_mask({b}, {size})[{a}].any(axis=-1)]"))
    ctx.ob(ui.where, "unique_intersect keeps the intervals of a that touch the mask of b anywhere", ok, u(e) if e is not None else "", key="C08-R3|unique")


def _clamp_forms(start_s, stop_s, length, size, fwd):
    start_ok = [f"np.where({fwd}, {start_s}, np.maximum({stop_s} - {length}, 0))", f"np.maximum(np.where({fwd}, {start_s}, {stop_s} - {length}), 0)",
                f"np.where({fwd}, {start_s}, np.maximum(0, {stop_s} - {length}))"]
    stop_ok = [f"np.where({fwd}, np.minimum({start_s} + {length}, {size}), {stop_s})", f"np.minimum(np.where({fwd}, {start_s} + {length}, {stop_s}), {size})",
               f"np.where({fwd}, np.minimum({size}, {start_s} + {length}), {stop_s})"]
    return [_spelled(sym.parse_expr(t)) for t in start_ok], [_spelled(sym.parse_expr(t)) for t in stop_ok]


def _spelled(e):
    """Normal form of an expression up to spelling: operand order of symmetric element-wise functions, np.where with an inverted condition, then sym.canon."""
    import copy
    from ..spelling import _Canon
    return sym.canon(ast.fix_missing_locations(_Canon().visit(copy.deepcopy(e))))


def r4_clamps(ctx):
    ix = ctx.index
    c = ix.func(IV, "clip")
    iv, sizes = c.params
    gc = CFG(c.node)
    rets = [n for n in gc.nodes if n.kind == "stmt" and isinstance(n.ast, ast.Return)]
    e = None
    for r in rets:
        if isinstance(r.ast.value, ast.Call) and u(r.ast.value.func) in ("replace", "dataclasses.replace"):
            ctx.need(e is None, "clip: more than one replace(...) return")
            e = r.ast.value
            continue
        if not (isinstance(r.ast.value, ast.Name) and r.ast.value.id == iv):
            raise Unrecognised(f"{c.where}: clip returns `{u(r.ast.value)}`")
        # a return of the input untouched: right only where nothing can stick out -- no rows, or every start >= 0 and every stop <= the size OF ITS OWN ROW
        facts = _facts_at(gc, r)
        if (f"(0)==(len({iv}))", True) in facts:
            continue
        cn = lambda t: sym.canon(sym.parse_expr(t))
        low_ok = any(v and k in (f"(0)<=(np.min({iv}.start))", f"(np.all(0<={iv}.start))", f"np.all({cn(f'{iv}.start >= 0')})") for k, v in facts)
        up_ok = any(v and k in (f"(np.max({iv}.stop))<=(np.min({sizes}))", f"np.all({cn(f'{iv}.stop <= {sizes}')})") for k, v in facts)
        low_any = [k for k, v in facts if f"{iv}.start" in k]
        up_any = [k for k, v in facts if f"{iv}.stop" in k or sizes in k]
        up_agg = [k for k in up_any if f"np.max({sizes})" in k or f"{sizes}.max()" in k or f"{sizes}[" in k]
        if low_ok and up_ok:
            continue
        if (not low_ok and not low_any) or (not up_ok and (not up_any or up_agg)):
            ctx.ob(c.where, "clip: the input is returned untouched only where no start is below 0 and no stop is above the size of its own contig (a bound taken over all "
                   "contigs says nothing about the row's own contig)", False, f"return {iv} under {sorted(k for k, v in facts if v)}", key="C08-R4|clip-passthrough", definite=True)
            continue
        raise Unrecognised(f"{c.where}: clip returns its input under {sorted(facts)}: cannot decide that nothing sticks out there")
    ctx.need(e is not None, "clip: replace(...) not found")
    kws = {k.arg: k.value for k in e.keywords}
    cenv = local_env(c.node)
    s, t = sym.canon(inline_locals(kws.get("start"), cenv)), sym.canon(inline_locals(kws.get("stop"), cenv))
    ok_s = s in (f"np.maximum(0, {iv}.start)", f"np.maximum({iv}.start, 0)")
    ok_t = t in (f"np.minimum({sizes}, {iv}.stop)", f"np.minimum({iv}.stop, {sizes})")
    ctx.ob(c.where, "clip: starts are clamped from below at 0", ok_s, s, key="C08-R4|clip-start")
    ctx.ob(c.where, "clip: stops are clamped from above at the contig size", ok_t, t, key="C08-R4|clip-stop")
    f = ix.func(IV, "extend_to_size")
    iv, length, size = f.params
    # final start / stop expressions with every local inlined, statement order respected
    env = {}
    for n in linear_body(f.node):
        if isinstance(n, ast.Assign) and isinstance(n.targets[0], ast.Name):
            env[n.targets[0].id] = inline_locals(n.value, env)
    e = [n for n in linear_body(f.node) if isinstance(n, ast.Return)]
    ctx.need(len(e) == 1 and isinstance(e[0].value, ast.Call), "extend_to_size: return replace(...) not found")
    kws = {k.arg: inline_locals(k.value, env) for k in e[0].value.keywords}
    ctx.need("start" in kws and "stop" in kws, "extend_to_size does not replace start and stop")
    fwd_forms = [f"{iv}.strand.ravel() == '+'", f"{iv}.strand == '+'"]
    cs, ct = _spelled(kws["start"]), _spelled(kws["stop"])
    ok_s = ok_t = False
    for fw in fwd_forms:
        so, to = _clamp_forms(f"{iv}.start", f"{iv}.stop", length, size, fw)
        ok_s = ok_s or cs in so
        ok_t = ok_t or ct in to
    if not ok_s:
        if "np.maximum" not in cs:
            ctx.ob(f.where, "extend_to_size: '-' intervals keep their stop and get start = max(stop - length, 0) (lower clamp present)", False, cs, key="C08-R4|extend-start")
        elif "=='+'" not in cs.replace(" ", "").replace('"', "'") and "'+'" not in cs:
            raise Unrecognised(f"{f.where}: start of extend_to_size has an unknown form: {cs}")
        else:
            ctx.ob(f.where, "extend_to_size: '+' intervals keep their start, '-' intervals get max(stop - length, 0)", False, cs, key="C08-R4|extend-start")
    else:
        ctx.ob(f.where, "extend_to_size: '+' intervals keep their start, '-' intervals get max(stop - length, 0)", True, "", key="C08-R4|extend-start")
    if not ok_t:
        if "np.minimum" not in ct:
            ctx.ob(f.where, "extend_to_size: '+' intervals get stop = min(start + length, size) (upper clamp present)", False, ct, key="C08-R4|extend-stop")
        else:
            ctx.ob(f.where, "extend_to_size: '+' intervals get min(start + length, size), '-' intervals keep their stop", False, ct, key="C08-R4|extend-stop")
    else:
        ctx.ob(f.where, "extend_to_size: '+' intervals get min(start + length, size), '-' intervals keep their stop", True, "", key="C08-R4|extend-stop")


def _ratio(node, env):
    """(numerator poly, denominator poly) of float(X / Y)."""
    n = node
    if isinstance(n, ast.Call) and u(n.func) == "float" and n.args:
        n = n.args[0]
    if isinstance(n, ast.BinOp) and isinstance(n.op, ast.Div):
        return sym.poly(n.left, env), sym.poly(n.right, env)
    raise Unrecognised(f"not a ratio: {u(node)}")


def r5_similarity(ctx):
    ix = ctx.index
    SM = "bionumpy.arithmetics.similarity_measures"
    ct = ix.func(SM, "get_contingency_table")
    env = local_env(ct.node)
    e = single_return_expr(ct.node)
    A, B, L = ct.params
    ma, mb = f"get_boolean_mask({A}, {L})", f"get_boolean_mask({B}, {L})"
    want = f"np.array([[np.sum({ma} & {mb}), np.sum({ma} & ~{mb})], [np.sum(~{ma} & {mb}), np.sum(~{ma} & ~{mb})]])"
    ok = e is not None and sym.canon(e) == sym.canon(sym.parse_expr(want))
    ctx.ob(ct.where, "contingency table = [[|a&b|, |a&~b|], [|~a&b|, |~a&~b|]] over the contig", ok, u(e)[:200] if e is not None else "", key="C08-R5|table")
    for name, num, den in (("jaccard", "a", "a + b + c"), ("forbes", "a * (a + b + c + d)", "(a + b) * (a + c)")):
        f = ix.func(SM, name)
        env = local_env(f.node)
        unpack = [n for n in body_walk(f.node) if isinstance(n, ast.Assign) and isinstance(n.targets[0], ast.Tuple) and u(n.targets[0]).replace(" ", "") == "((a,b),(c,d))"]
        ok_u = len(unpack) == 1 and sym.canon(unpack[0].value) == "get_contingency_table(ms.a, ms.b, ms.lengths)"
        ctx.ob(f.where, f"{name}: cells are unpacked as ((a, b), (c, d)) from the contingency table of the two synchronised streams", ok_u, "", key=f"C08-R5|{name}-unpack")
        e = [n for n in linear_body(f.node) if isinstance(n, ast.Return)]
        ctx.need(len(e) == 1, f"{name}: single return expected")
        env2 = {k: v for k, v in env.items() if k == "N"}
        n_, d_ = _ratio(e[0].value, env2)
        wn, wd = sym.poly(sym.parse_expr(num)), sym.poly(sym.parse_expr(den))
        ok = n_ * wd == d_ * wn  # cross-multiplied equality of rational functions
        ctx.ob(f.where, f"{name} == {num} / ({den}) as a rational function of the cells", ok, f"({n_}) / ({d_})", key=f"C08-R5|{name}")
        ms = [n for n in body_walk(f.node) if isinstance(n, ast.Assign) and u(n.targets[0]) == "ms"]
        ok = len(ms) == 1 and sym.canon(ms[0].value) == f"MultiStream({f.params[0]}, a={f.params[1]}, b={f.params[2]})"
        ctx.ob(f.where, f"{name}: the two interval sets are synchronised with the contig sizes", ok, "", key=f"C08-R5|{name}-sync")
    gj = ix.func("bionumpy.genomic_data.geometry", "Geometry.jaccard")
    env = local_env(gj.node)
    e = single_return_expr(gj.node)
    ok = e is not None and sym.canon(e) == sym.canon(sym.parse_expr(
        "(self.get_global_mask(intervals_a) & self.get_global_mask(intervals_b)).sum() / (self.get_global_mask(intervals_a).sum() + self.get_global_mask(intervals_b).sum() - (self.get_global_mask(intervals_a) & self.get_global_mask(intervals_b)).sum())".replace("intervals_a", gj.params[1]).replace("intervals_b", gj.params[2])))
    ctx.ob(gj.where, "Geometry.jaccard = |a&b| / (|a| + |b| - |a&b|)", ok, u(e)[:160] if e is not None else "", key="C08-R5|geometry-jaccard")


def _enum(call):
    """enumerate(X[lo:], start) -> (X text, lo poly, start poly); enumerate(X) -> (X, 0, 0)"""
    if not (isinstance(call, ast.Call) and u(call.func) == "enumerate" and call.args):
        return None
    seq = call.args[0]
    start = call.args[1] if len(call.args) > 1 else next((k.value for k in call.keywords if k.arg == "start"), None)
    sp = sym.poly(start) if start is not None else sym.Poly.const(0)
    if isinstance(seq, ast.Subscript) and isinstance(seq.slice, ast.Slice) and seq.slice.upper is None and seq.slice.step is None:
        lo = sym.poly(seq.slice.lower) if seq.slice.lower is not None else sym.Poly.const(0)
        return u(seq.value), lo, sp
    return u(seq), sym.Poly.const(0), sp


def r6_pairwise_matrix_and_inputs(ctx):
    """(a) all-vs-all Jaccard: the value computed for the pair (masks[p], masks[q]) is stored at [p, q] and [q, p]: the positions are derived from
    the two enumerate() calls symbolically.  (b) interval operations do not write into the coordinate arrays of their arguments (a later operation on
    the same intervals would see shifted coordinates): ownership analysis shared with C20, restricted to the interval modules."""
    ix = ctx.index
    f = ix.func("bionumpy.genomic_data.geometry", "Geometry.jaccard_all_vs_all")
    outer = [n for n in linear_body(f.node) if isinstance(n, ast.For)]
    ctx.need(len(outer) == 1 and isinstance(outer[0].target, ast.Tuple), "jaccard_all_vs_all: outer enumerate loop not found")
    eo = _enum(outer[0].iter)
    inner = [n for n in outer[0].body if isinstance(n, ast.For)]
    ctx.need(eo is not None and len(inner) == 1 and isinstance(inner[0].target, ast.Tuple), "jaccard_all_vs_all: inner enumerate loop not found")
    ei = _enum(inner[0].iter)
    ctx.need(ei is not None and ei[0] == eo[0], "jaccard_all_vs_all: the two loops do not enumerate the same list")
    i, a = (u(x) for x in outer[0].target.elts)
    j, b = (u(x) for x in inner[0].target.elts)
    pos_a = sym.Poly.atom(i) - eo[2] + eo[1]
    pos_b = sym.Poly.atom(j) - ei[2] + ei[1]
    env = {}
    for st in inner[0].body:
        if isinstance(st, ast.Assign) and isinstance(st.targets[0], ast.Name):
            env[st.targets[0].id] = st.value
    stores = [st for st in inner[0].body if isinstance(st, ast.Assign) and isinstance(st.targets[0], ast.Subscript) and isinstance(st.targets[0].slice, ast.Tuple)]
    ctx.floor("stores into the pairwise matrix", len(stores), 2)
    cells = set()
    for st in stores:
        v = sym.canon(st.value, env)
        okv = v in (f"self.jaccard({a}, {b})", f"self.jaccard({b}, {a})")
        e1, e2 = (sym.poly(x) for x in st.targets[0].slice.elts)
        cells.add((str(e1), str(e2)))
        ctx.ob(f.where, "the stored value is the Jaccard index of the two enumerated masks", okv, u(st), key="C08-R6|pair-value")
    want = {(str(pos_a), str(pos_b)), (str(pos_b), str(pos_a))}
    ctx.ob(f.where, f"the pair (element {pos_a}, element {pos_b}) of the list is stored at [{pos_a}, {pos_b}] and its mirror", cells == want, f"stored at {sorted(cells)}",
           key="C08-R6|pair-cells")
    ok_sz = any(isinstance(n, ast.Assign) and sym.canon(n.value) == sym.canon(sym.parse_expr(f"np.zeros((len({f.params[1]}), len({f.params[1]})))")) for n in linear_body(f.node))
    ctx.ob(f.where, "the matrix has one row and one column per interval set", ok_sz, "", key="C08-R6|matrix-shape")
    # (b)
    from .c20 import _analysis, ALLOWED_PARAM_MUTATORS
    an = _analysis(ctx)
    n = 0
    for key, summ in an.summaries.items():
        if not (key[0].startswith("bionumpy.arithmetics") or key[0] == "bionumpy.genomic_data.geometry"):
            continue
        n += 1
        fi = an.funcs[key]
        params = [x.arg for x in fi.node.args.posonlyargs + fi.node.args.args]
        for idx, ws in summ.mutates.items():
            p = params[idx] if idx < len(params) else "?"
            if p in ("self", "cls") and idx == 0 and fi.cls is not None:
                continue
            ok = (key[0], key[1], p) in ALLOWED_PARAM_MUTATORS
            ctx.ob(ws.where, f"{key[0]}:{key[1]} does not write into its argument `{p}` (the caller's intervals keep their coordinates)", ok,
                   f"[{ws.kind}] `{ws.stmt}`" + (f" via {ws.via}" if ws.via else ""), key=f"C08-R6|input-written|{key[0]}|{key[1]}|{p}")
    ctx.floor("interval functions examined for writes into their arguments", n, 40)


from ..through_time import make_rule as _mk_tt, make_t2 as _mk_t2
_through_time = _mk_tt("C08")
_small_edits = _mk_t2("C08")

def _synchronised_streams(ctx):
    from .c12 import r2_every_contig_gets_a_buffer
    r2_every_contig_gets_a_buffer(ctx)   # Jaccard / Forbes sum per-contig tables over the synchronised streams: every contig must get a buffer

def _geometry_coordinates(ctx):
    from .c10 import r4_coordinate_conversion, r3_per_chromosome_sizes
    with ctx.only("GlobalOffset.to_local_interval", "GlobalOffset.from_local_interval", "GlobalOffset.start_ends_from_intervals", "Geometry."):
        r4_coordinate_conversion(ctx)      # Geometry.sort / merge_intervals / clip / extend_to_size go through these conversions
        r3_per_chromosome_sizes(ctx)

RULES = [
    ("C08-R1", r1_merge),
    ("C08-R2", r2_sort_keys),
    ("C08-R3", r3_overlap_family),
    ("C08-R4", r4_clamps),
    ("C08-R5", r5_similarity),
    ("C08-R6", r6_pairwise_matrix_and_inputs),
    ("C08-T1", _through_time),
    ("C08-T2", _small_edits),
    ("C08-R7", _synchronised_streams),
    ("C08-R8", _geometry_coordinates),
]
