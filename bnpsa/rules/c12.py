"""C12 - per-chromosome streaming never silently drops or misattributes entries.

 R1 pending group: in iter_chromosomes / left_join / SynchedStream.__iter__ every (name, group) pulled from the grouped iterator is yielded,
    or a raise is reached, or the slot is proven to hold its default, before it is overwritten or the generator ends (CFG path rule);
 R2 every contig of the genome order gets exactly one buffer per walk: the genome-order loop has no early exit, yields on every iteration,
    trailing contigs are emitted up to the end of the order;
 R3 unknown / repeated names raise: the raise guards test membership in the collection that really holds all names seen so far;
    no group is skipped except under the ignored-set test;
 R4 the genome context is immutable after construction (the ignored / included sets consulted when grouping are only written in __init__);
 R5 the contig order walked is exactly the set of contigs that have sizes (chromosome_order == keys of chrom_sizes).
"""
from __future__ import annotations
import ast

from ..index import AnchorMissing, Unrecognised
from ..cfg import CFG
from ..astutil import linear_body, u, body_walk, local_env, func_calls, walk_local, single_return_expr, inline_locals
from ..pend import edge_facts, is_none_fact, yields_value, is_raise, facts
from .. import sym

EXPLANATION = ("Static path analysis of the three genome-synchronisation generators: on the statement-level CFG, every (name, group) pair pulled from the "
               "grouped iterator must reach a yield of that group, a raise, or a branch edge proving the slot holds its default before the slot is overwritten "
               "or the generator ends; loops over the genome order may not exit early; order-discrepancy and unknown-name raises must test the right "
               "collections; the genome context's ignored/included sets may only be written in its constructor. Holds for every order and chunking at once; "
               "the contiguity precondition and group-by fast path are not decided.")

GC = "bionumpy.genomic_data.genome_context"


def _slot_pulls(g: CFG, iterator_names):
    """Assign nodes `a, b = next(<it>, ...)`"""
    out = []
    for n in g.stmt_nodes(ast.Assign):
        v = n.ast.value
        if isinstance(v, ast.Call) and u(v.func) == "next" and v.args and u(v.args[0]) in iterator_names and isinstance(n.ast.targets[0], ast.Tuple):
            out.append(n)
    return out


def r1_pending_group(ctx):
    ix = ctx.index
    # ---- iter_chromosomes
    f = ix.func(GC, "GenomeContext.iter_chromosomes")
    g = CFG(f.node)
    pulls = _slot_pulls(g, {"grouped"})
    ctx.floor("pulls of (name, group) in iter_chromosomes", len(pulls), 2)
    nm, grp = (e.id for e in pulls[0].ast.targets[0].elts)
    disch = lambda n: yields_value(n, lambda v: u(v) == grp) or is_raise(n)
    none_fact = is_none_fact(nm)
    bad = g.path(pulls, [g.exit] + pulls, blocked=disch, blocked_edge=lambda a, l, b: none_fact in edge_facts(a, l))
    ctx.ob(f.where, "every group pulled from the grouped data is yielded, or an error is raised, or the slot is proven empty, before it is overwritten or the walk ends",
           bad is None, CFG.show(bad) if bad else "", key="C12-R1|iter_chromosomes")
    # default of the slot is (None, None)
    for p in pulls:
        d = p.ast.value.args[1] if len(p.ast.value.args) > 1 else None
        ctx.ob(f.where, "an exhausted iterator leaves the slot at its (None, None) default", d is not None and u(d) == "(None, None)", u(p.ast))
    # ---- left_join
    lj = ix.func("bionumpy.streams.left_join", "left_join")
    g2 = CFG(lj.node)
    pulls2 = _slot_pulls(g2, {lj.params[1]})
    ctx.floor("pulls of (name, group) in left_join", len(pulls2), 2)
    nm2, grp2 = (e.id for e in pulls2[0].ast.targets[0].elts)
    disch2 = lambda n: yields_value(n, lambda v: grp2 in {x.id for x in ast.walk(v) if isinstance(x, ast.Name)}) or is_raise(n)
    nf2 = is_none_fact(nm2)
    bad = g2.path(pulls2, [g2.exit] + pulls2, blocked=disch2, blocked_edge=lambda a, l, b: nf2 in edge_facts(a, l))
    ctx.ob(lj.where, "left_join: every right-hand group pulled is yielded with its left partner, or the end check proves none is pending", bad is None,
           CFG.show(bad) if bad else "", key="C12-R1|left_join")
    # leftover groups raise
    txt = u(lj.node)
    tr = [n for n in linear_body(lj.node) if isinstance(n, ast.Try)]
    ok = len(tr) == 1 and tr[0].orelse and isinstance(tr[0].orelse[-1], ast.Raise) and any(isinstance(h.type, ast.Name) and h.type.id == "StopIteration" for h in tr[0].handlers) \
        and "next(%s)" % lj.params[1] in u(tr[0].body[0])
    ctx.ob(lj.where, "left_join: groups left in the right-hand stream after the walk raise", ok, "", key="C12-R1|left_join-leftover")
    ys = [x for x in ast.walk(lj.node) if isinstance(x, ast.Yield)]
    forms = sorted(u(y.value) for y in ys)
    left_loop = [n for n in linear_body(lj.node) if isinstance(n, ast.For)]
    ctx.need(len(left_loop) == 1 and isinstance(left_loop[0].target, ast.Tuple), "left_join: loop over the left groups not found")
    nl, dl = (e.id for e in left_loop[0].target.elts)
    ok = forms == sorted([f"({nl}, {dl}, default_value)", f"({nl}, {dl}, {grp2})"])
    ctx.ob(lj.where, "left_join: each left group is yielded once, with the matching right group or the default", ok, str(forms))
    g2for = [n for n in g2.nodes if n.kind == "for"]
    match_yield = [n for n in g2.nodes if yields_value(n, lambda v: u(v) == f"({nl}, {dl}, {grp2})")]
    ok = bool(match_yield) and all(("(%s)==(%s)" % tuple(sorted([nl, nm2]))) in {c for c, p in _facts_at(g2, n) if p} for n in match_yield)
    ctx.ob(lj.where, "left_join: the right group is attached only when its name equals the left name", ok, "", key="C12-R1|left_join-match")
    # ---- SynchedStream.__iter__
    ss = ix.func("bionumpy.streams.multistream", "SynchedStream.__iter__")
    g3 = CFG(ss.node)
    fors = [n for n in g3.nodes if n.kind == "for" and u(n.ast.iter) == "grouped"]
    ctx.floor("group loops in SynchedStream.__iter__", len(fors), 1)
    loop = fors[0]
    dname = loop.ast.target.elts[1].id
    nname = loop.ast.target.elts[0].id
    disch3 = lambda n: yields_value(n, lambda v: u(v) == dname) or is_raise(n)
    body_first = [b for b, l in g3.succ[loop.id] if l == "iter"]
    bad = g3.path([g3.nodes[b] for b in body_first], [loop, g3.exit], blocked=disch3, start_after=False)
    ctx.ob(ss.where, "SynchedStream: every group taken from the stream is yielded or an error is raised before the next group is taken", bad is None,
           CFG.show(bad) if bad else "", key="C12-R1|SynchedStream")
    ydata = [n for n in g3.nodes if yields_value(n, lambda v: u(v) == dname)]
    ok = bool(ydata) and all(any(c == "(%s)==(self._contig_order[cur_contig_idx])" % nname or c == "(self._contig_order[cur_contig_idx])==(%s)" % nname for c, p in _facts_at(g3, n) if p) for n in ydata)
    ctx.ob(ss.where, "SynchedStream: a group is yielded only at the position of its own contig in the order", ok, "", key="C12-R1|SynchedStream-match")


def _facts_at(g: CFG, n):
    """Facts established by the branch edges that dominate node n."""
    out = set()
    for t, lab in g.guards(n):
        out |= edge_facts(t, lab)
    return out


def r2_every_contig_gets_a_buffer(ctx):
    ix = ctx.index
    f = ix.func(GC, "GenomeContext.iter_chromosomes")
    g = CFG(f.node)
    env = local_env(f.node)
    loops = [n for n in g.nodes if n.kind == "for"]
    ctx.need(len(loops) == 1, "iter_chromosomes: one loop over the genome order expected")
    loop = loops[0]
    it = sym.canon(loop.ast.iter, env)
    ctx.ob(f.where, "the walk is over the genome's chromosome order", it == "self.chromosome_order()", it, key="C12-R2|order-source")
    early = [n for n in ast.walk(loop.ast) if isinstance(n, (ast.Break, ast.Return))]
    ctx.ob(f.where, "the walk over the genome order never stops early (no break/return): contigs after the last one with data still get a buffer", not early,
           "; ".join(u(n) for n in early), key="C12-R2|early-exit", definite=True)
    # every iteration yields exactly once: from loop 'iter' edge back to loop head without a yield => violation
    is_yield = lambda n: n.kind == "stmt" and any(isinstance(x, ast.Yield) for x in ast.walk(n.ast))
    first = [g.nodes[b] for b, l in g.succ[loop.id] if l == "iter"]
    bad = g.path(first, [loop], blocked=lambda n: is_yield(n) or is_raise(n), start_after=False)
    ctx.ob(f.where, "every contig of the order yields a buffer (its group or an empty table)", bad is None, CFG.show(bad) if bad else "", key="C12-R2|yield-each")
    ys = [n for n in g.nodes if is_yield(n)]
    two = None
    for y in ys:
        again = g.path([y], ys, blocked=lambda n: n.id == loop.id)
        if again is not None:
            two = again
    ctx.ob(f.where, "no contig yields two buffers in one iteration", two is None, CFG.show(two) if two else "", key="C12-R2|yield-once")
    empties = [y for y in ys if any(isinstance(x, ast.Yield) and x.value is not None and u(x.value).endswith(".empty()") for x in ast.walk(y.ast))]
    grp_yields = [y for y in ys if y not in empties]
    pulls = _slot_pulls(g, {"grouped"})
    nm, grp = (e.id for e in pulls[0].ast.targets[0].elts)
    lv = u(loop.ast.target)
    eqs = {"(%s)==(%s)" % tuple(sorted([lv, nm]))}
    ok = bool(grp_yields) and all(any(c in eqs and p for c, p in _facts_at(g, y)) for y in grp_yields)
    ctx.ob(f.where, "a group is delivered only to the contig whose name it carries", ok, "", key="C12-R2|name-match")
    ok = bool(empties) and all(any(c in eqs and not p for c, p in _facts_at(g, y)) for y in empties)
    ctx.ob(f.where, "an empty table is delivered exactly when the pending group is not this contig's", ok, "", key="C12-R2|empty-when-no-match")
    # SynchedStream trailing contigs
    ss = ix.func("bionumpy.streams.multistream", "SynchedStream.__iter__")
    g3 = CFG(ss.node)
    tl = [n for n in g3.nodes if n.kind == "for" and isinstance(n.ast.iter, ast.Call) and u(n.ast.iter.func) == "range"]
    ctx.floor("trailing-contig loop in SynchedStream.__iter__", len(tl), 1)
    r = tl[0].ast.iter
    ok = len(r.args) == 2 and sym.canon(r.args[0]) == "cur_contig_idx" and sym.canon(r.args[1]) == "len(self._contig_order)"
    ctx.ob(ss.where, "SynchedStream: contigs after the last one with data are emitted up to the end of the order", ok, u(r), key="C12-R2|trailing-range")
    fs = _facts_at(g3, tl[0])
    ok = ("(cur_contig_idx)<(len(self._contig_order))", True) in fs and ("self._has_default", True) in fs
    ctx.ob(ss.where, "SynchedStream: the trailing block runs whenever any contig of the order is still unvisited", ok, str(sorted(fs)), key="C12-R2|trailing-guard")
    wl = [n for n in g3.nodes if n.kind == "test" and isinstance(getattr(n, "stmt", None), ast.While)]
    if not wl:
        # the same test written as a plain `if`: only ONE contig without data is filled in before the stream's contig is compared again
        once = [n for n in g3.nodes if n.kind == "test" and isinstance(getattr(n, "stmt", None), ast.If) and "cur_contig_idx" in u(n.ast) and "_contig_order[cur_contig_idx]" in u(n.ast)
                and any(isinstance(x, ast.AugAssign) and u(x.target) == "cur_contig_idx" for b in n.stmt.body for x in ast.walk(b))]
        if once:
            ctx.ob(ss.where, "SynchedStream: contigs without data are skipped in a LOOP until the stream's contig is reached (a single `if` fills in one contig only: two "
                   "consecutive contigs without data raise a spurious order error)", False, u(once[0].ast), key="C12-R2|skip-loop")
            return
    ctx.need(len(wl) == 1, "SynchedStream: skip loop not found")
    fl = facts(wl[0].ast, True)
    ok = ("(cur_contig_idx)<(len(self._contig_order))", True) in fl and any(c in ("(name)==(self._contig_order[cur_contig_idx])", "(self._contig_order[cur_contig_idx])==(name)") and not p for c, p in fl)
    ctx.ob(ss.where, "SynchedStream: contigs without data are skipped (with a default) exactly until the stream's contig is reached", ok, str(sorted(fl)), key="C12-R2|skip-loop")
    incs = [n for n in g3.nodes if n.kind == "stmt" and isinstance(n.ast, ast.AugAssign) and u(n.ast.target) == "cur_contig_idx"]
    ok = len(incs) == 2 and all(isinstance(n.ast.op, ast.Add) and sym.poly(n.ast.value) == sym.Poly.const(1) for n in incs)
    ctx.ob(ss.where, "SynchedStream: the position in the order advances by one per emitted contig", ok, "; ".join(u(n.ast) for n in incs), key="C12-R2|advance")


def r3_unknown_and_repeated_names_raise(ctx):
    ix = ctx.index
    f = ix.func(GC, "GenomeContext.iter_chromosomes")
    g = CFG(f.node)
    loops = [n for n in g.nodes if n.kind == "for"]
    loop = loops[0]
    lv = u(loop.ast.target)
    pulls = _slot_pulls(g, {"grouped"})
    nm, grp = (e.id for e in pulls[0].ast.targets[0].elts)
    # the list that accumulates every visited contig: appended with the loop variable on every iteration
    apps = [n for n in g.nodes if n.kind == "stmt" and isinstance(n.ast, ast.Expr) and isinstance(n.ast.value, ast.Call) and u(n.ast.value.func).endswith(".append")
            and u(n.ast.value.args[0]) == lv]
    all_seen = set()
    first = [g.nodes[b] for b, l in g.succ[loop.id] if l == "iter"]
    for a in apps:
        miss = g.path(first, [loop], blocked=lambda n: n.id == a.id or is_raise(n), start_after=False)
        if miss is None:
            all_seen.add(u(a.ast.value.func)[: -len(".append")])
    ctx.ob(f.where, "a record of every visited contig is kept on every iteration", bool(all_seen), str(sorted(all_seen)))
    raises = [n for n in g.nodes if is_raise(n) and any(t.kind == "test" and ") in (" in u(t.ast).replace(" in ", ") in (") for t, l in g.guards(n))]
    order_raises = []
    for n in g.nodes:
        if is_raise(n):
            for c, p in _facts_at(g, n):
                if c.startswith(f"({nm})in(") and p:
                    order_raises.append((n, c[len(f"({nm})in("):-1]))
    ctx.count("sort_order_raises", len(order_raises))
    for n, coll in order_raises:
        ctx.ob(f.where, "a group whose contig was already passed raises at once: the test looks the name up among ALL contigs visited so far", coll in all_seen,
               f"tests membership in `{coll}`; all visited contigs are recorded in {sorted(all_seen)}", key="C12-R3|order-raise-collection")
    # the eager check follows every pull inside the loop
    inner_pulls = [p for p in pulls if g.path([loop], [p]) is not None and g.path([p], [loop]) is not None]
    for p in inner_pulls:
        bad = g.path([p], [loop], blocked=lambda n: n.kind == "test" and any(c.startswith(f"({nm})in(") for c, _ in facts(n.ast, True)))
        ctx.ob(f.where, "after each pull inside the walk the new group's name is checked against the visited contigs", bad is None, CFG.show(bad) if bad else "",
               key="C12-R3|order-check-after-pull")
    # _included_groups
    ig = ix.func(GC, "GenomeContext._included_groups")
    g2 = CFG(ig.node)
    conts = [n for n in g2.nodes if n.kind == "stmt" and isinstance(n.ast, ast.Continue)]
    loopv = [n for n in g2.nodes if n.kind == "for"]
    ctx.need(len(loopv) == 1 and isinstance(loopv[0].ast.target, ast.Tuple), "_included_groups: loop not found")
    nmv = loopv[0].ast.target.elts[0].id
    for c in conts:
        fs = _facts_at(g2, c)
        ctx.ob(ig.where, "a group is skipped only when its name is in the ignored set", (f"({nmv})in(self._ignored)", True) in fs, str(sorted(fs)), key="C12-R3|skip-only-ignored")
    ys = [n for n in g2.nodes if n.kind == "stmt" and any(isinstance(x, ast.Yield) for x in ast.walk(n.ast))]
    ctx.need(len(ys) == 1, "_included_groups: one yield expected")
    fs = _facts_at(g2, ys[0])
    ok = (f"({nmv})in(self._included)", True) in fs and (f"({nmv})in(self._ignored)", False) in fs
    ctx.ob(ig.where, "a group is passed on only if its name is an included contig", ok, str(sorted(fs)), key="C12-R3|yield-only-included")
    rs = [n for n in g2.nodes if is_raise(n)]
    ok = any((f"({nmv})in(self._included)", False) in _facts_at(g2, r) and (f"({nmv})in(self._ignored)", False) in _facts_at(g2, r) for r in rs)
    ctx.ob(ig.where, "a name that is neither included nor ignored raises", ok, "", key="C12-R3|unknown-raises")
    first = [g2.nodes[b] for b, l in g2.succ[loopv[0].id] if l == "iter"]
    skipped = []        # statements that run only for an ignored name: reaching the end of the loop body through them IS the skip (if / elif / else form without `continue`)
    for _ in range(8):
        bad = g2.path(first, [loopv[0]], blocked=lambda n: n in ys or n in conts or n in skipped or is_raise(n), start_after=False)
        via = [n for n, _ in (bad or []) if n.kind == "stmt" and (f"({nmv})in(self._ignored)", True) in _facts_at(g2, n)]
        if not via:
            break
        skipped.append(via[0])
    ctx.ob(ig.where, "no group falls through without being passed on, skipped as ignored, or raising", bad is None, CFG.show(bad) if bad else "")
    yv = [x for x in ast.walk(ys[0].ast) if isinstance(x, ast.Yield)][0]
    ctx.ob(ig.where, "groups are passed on unchanged", u(yv.value) == u(loopv[0].ast.target), u(yv.value))
    # iter_chromosomes wiring
    env = local_env(f.node)
    gas = [n for n in body_walk(f.node) if isinstance(n, ast.Assign) and u(n.targets[0]) == "grouped"]
    ok = len(gas) == 2 and sym.canon(gas[0].value) == f"groupby({f.params[1]}, {f.params[3]})" and sym.canon(gas[1].value) == "self._included_groups(grouped)"
    ctx.ob(f.where, "the data is grouped on the chromosome field and filtered through the included/ignored check", ok, "; ".join(u(n.value) for n in gas), key="C12-R3|wiring")
    # SynchedStream raises
    ss = ix.func("bionumpy.streams.multistream", "SynchedStream.__iter__")
    g3 = CFG(ss.node)
    rs = [n for n in g3.nodes if is_raise(n)]
    fall = [_facts_at(g3, r) for r in rs]
    ok1 = any(("(name)in(seen_contig_names)", True) in fs for fs in fall)
    ok2 = any(("(name)in(self._contig_order)", False) in fs for fs in fall)
    ctx.ob(ss.where, "SynchedStream: a contig that already occurred raises", ok1, "", key="C12-R3|synched-repeat", definite=True)
    ctx.ob(ss.where, "SynchedStream: a contig outside the order raises", ok2, "", key="C12-R3|synched-unknown", definite=True)
    adds = [n for n in g3.nodes if n.kind == "stmt" and isinstance(n.ast, ast.Expr) and isinstance(n.ast.value, ast.Call) and u(n.ast.value.func) == "seen_contig_names.add"]
    ys3 = [n for n in g3.nodes if n.kind == "stmt" and any(isinstance(x, ast.Yield) for x in ast.walk(n.ast))]
    loop3 = [n for n in g3.nodes if n.kind == "for" and u(n.ast.iter) == "grouped"][0]
    in_loop = [y for y in ys3 if g3.path([loop3], [y], blocked=lambda n: n.kind == "for" and n.id != loop3.id and False) is not None and g3.path([y], [loop3]) is not None]
    ok = bool(in_loop)
    for y in in_loop:
        nxt = g3.path([y], [loop3] + [k for k in in_loop if k is not y], blocked=lambda n: n in adds)
        if nxt is not None:
            ok = False
    ctx.ob(ss.where, "SynchedStream: every emitted contig is recorded as seen before the next one", ok, "", key="C12-R3|synched-seen-recorded")


def r4_context_immutable(ctx):
    ix = ctx.index
    cls = ix.cls(GC, "GenomeContext")
    protected = {"self._ignored", "self._included", "self._chrom_size_dict", "self._included_mask", "self._original_chrom_sizes"}
    MUT = {"add", "update", "append", "extend", "remove", "discard", "pop", "clear", "insert", "sort", "reverse", "popitem", "setdefault",
           "difference_update", "intersection_update", "symmetric_difference_update", "__setitem__", "__ior__", "__iand__"}
    n_methods = 0
    for name, fi in cls.methods.items():
        if name == "__init__":
            continue
        n_methods += 1
        aliases = {}
        for n in body_walk(fi.node):
            if isinstance(n, ast.Assign) and len(n.targets) == 1 and isinstance(n.targets[0], ast.Name) and u(n.value) in protected:
                aliases[n.targets[0].id] = u(n.value)
        bad = []
        for n in body_walk(fi.node):
            tgt = None
            if isinstance(n, ast.Assign):
                for t in n.targets:
                    if u(t) in protected:
                        bad.append(u(n))
                    if isinstance(t, ast.Subscript) and (u(t.value) in protected or u(t.value) in aliases):
                        bad.append(u(n))
            elif isinstance(n, ast.AugAssign):
                if u(n.target) in protected or u(n.target) in aliases or (isinstance(n.target, ast.Subscript) and (u(n.target.value) in protected or u(n.target.value) in aliases)):
                    bad.append(u(n))
            elif isinstance(n, ast.Call) and isinstance(n.func, ast.Attribute) and n.func.attr in MUT:
                if u(n.func.value) in protected or u(n.func.value) in aliases:
                    bad.append(u(n))
            elif isinstance(n, ast.Delete):
                for t in n.targets:
                    if isinstance(t, ast.Subscript) and (u(t.value) in protected or u(t.value) in aliases):
                        bad.append(u(n))
        ctx.ob(fi.where, f"GenomeContext.{name} does not modify the context's included/ignored/size collections (a context is immutable after construction)",
               not bad, "; ".join(bad), key=f"C12-R4|{name}")
    ctx.floor("GenomeContext methods examined for in-place updates", n_methods, 10)
    # derived contexts are new objects that union the ignored names
    w = ix.func(GC, "GenomeContext.with_ignored_added")
    env = local_env(w.node)
    e = single_return_expr(w.node)
    ctx.need(isinstance(e, ast.Call) and u(e.func) == "self.__class__" and len(e.args) == 2, "with_ignored_added does not return self.__class__(sizes, ignored)")
    p = w.params[1]
    c = sym.canon(e.args[1])
    ok = c in (f"((set(self._ignored))|(set({p})))", f"((set({p}))|(set(self._ignored)))", f"set({p}).union(self._ignored)", f"set(self._ignored).union({p})",
               f"((self._ignored)|(set({p})))", f"((set({p}))|(self._ignored))")
    ctx.ob(w.where, "a derived context ignores the union of the old and the newly added names", ok, c, key="C12-R4|with_ignored_added-union")
    ok = sym.canon(e.args[0]) == "self._original_chrom_sizes.copy()" or u(e.args[0]) == "c"
    cps = [n for n in body_walk(w.node) if isinstance(n, ast.Assign) and u(n.targets[0]) == "c"]
    ok = ok and len(cps) == 1 and u(cps[0].value) == "self._original_chrom_sizes.copy()"
    ctx.ob(w.where, "a derived context is built from a copy of the original sizes", ok, "", key="C12-R4|with_ignored_added-copy")


def r5_order_equals_sizes(ctx):
    ix = ctx.index
    co = ix.func(GC, "GenomeContext.chromosome_order")
    cs = ix.func(GC, "GenomeContext.chrom_sizes")
    e = single_return_expr(co.node)
    s = single_return_expr(cs.node)
    ctx.need(e is not None and s is not None, "chromosome_order / chrom_sizes: single return expected")
    src = sym.canon(s)
    ok = False
    detail = u(e)
    if isinstance(e, ast.GeneratorExp) and len(e.generators) == 1:
        gen = e.generators[0]
        ok = sym.canon(gen.iter) in (src, f"{src}.keys()") and not gen.ifs and u(e.elt) == u(gen.target)
        if gen.ifs:
            detail = f"order filters names with `{u(gen.ifs[0])}` but chrom_sizes does not"
    elif sym.canon(e) in (f"iter({src})", f"{src}.keys()", f"list({src})", src):
        ok = True
    ctx.ob(co.where, "the contig order walked by streams is exactly the contigs that have sizes, in the same order (no extra filter)", ok, detail, key="C12-R5|order-vs-sizes")


def _similarity_streams(ctx):
    from .c08 import r5_similarity              # per-contig tables are accumulated in lock-step over the synchronised streams (the formulas are C08's business)
    with ctx.only("synchronised streams"):
        r5_similarity(ctx)


def r6_group_boundaries_and_filter(ctx):
    """(a) group boundaries of a chunk are the positions where the key CHANGES (any change: a key that goes back to an earlier contig must open a new
    group, otherwise the out-of-order contig is merged into its predecessor and never reaches the order check); (b) the contig filter a genome is
    created with is the one that decides which names are ignored: it is handed on at every link from the constructors to GenomeContext.from_dict."""
    ix = ctx.index
    f = ix.func("bionumpy.streams.groupby_func", "get_changes")
    n = 0
    for r in [x for x in body_walk(f.node) if isinstance(x, ast.Return)]:
        cmps = [c for c in ast.walk(r.value) if isinstance(c, ast.Compare) and len(c.ops) == 1]
        diffs = [c for c in ast.walk(r.value) if isinstance(c, ast.Call) and u(c.func) in ("np.diff", "np.ediff1d")]
        if not cmps and not diffs:
            continue
        n += 1
        ok = True
        detail = u(r.value)
        for c in cmps:
            l, rr = c.left, c.comparators[0]
            neighbour = isinstance(l, ast.Subscript) and isinstance(rr, ast.Subscript) and sym.canon(l.value) == sym.canon(rr.value)
            is_diff = any(isinstance(x, ast.Call) and u(x.func) in ("np.diff", "np.ediff1d") for x in ast.walk(c))
            if neighbour or is_diff:
                if not isinstance(c.ops[0], ast.NotEq):
                    ok = False
            elif not isinstance(c.ops[0], (ast.NotEq, ast.Eq)):
                raise Unrecognised(f"{f.where}: boundary test has an unknown form: {u(c)}")
        if diffs and not cmps:
            raise Unrecognised(f"{f.where}: boundary test has an unknown form: {u(r.value)}")
        ctx.ob(f.where, "a group boundary is any position where the key differs from its predecessor (`!=`), not only where it increases", ok, detail,
               key=f"C12-R6|boundary|{sym.canon(r.value)[:50]}")
    ctx.floor("boundary computations in get_changes", n, 3)
    rc = ix.func("bionumpy.streams.groupby_func", "get_ragged_changes")
    ch_defs = [x for x in body_walk(rc.node) if (isinstance(x, ast.Assign) and u(x.targets[0]) == "changes") or (isinstance(x, ast.AugAssign) and u(x.target) == "changes")]
    ctx.need(ch_defs, "get_ragged_changes: boundary mask not found")
    first_ok = isinstance(ch_defs[0], ast.Assign) and sym.same(ch_defs[0].value, "lengths[1:] != lengths[:-1]")
    later = ch_defs[1:]
    acc_ok = bool(later) and all(isinstance(x, ast.AugAssign) and isinstance(x.op, ast.BitOr) for x in later)
    ctx.ob(rc.where, "ragged keys: a boundary is where the row LENGTH changes OR a character changes (the two signals are or-ed; a key that is a prefix of the next, chr1 / chr10, "
           "differs in length only)", first_ok and acc_ok, "; ".join(u(x) for x in ch_defs), key="C12-R6|ragged-boundary")
    ic = ix.func(GC, "GenomeContext.iter_chromosomes")
    gi = CFG(ic.node)
    filt = [n for n in gi.nodes if n.kind == "stmt" and isinstance(n.ast, ast.Assign) and isinstance(n.ast.value, ast.Call) and u(n.ast.value.func) == "self._included_groups"]
    ctx.need(len(filt) == 1, "iter_chromosomes: filter of ignored / unknown groups not found")
    fv = u(filt[0].ast.targets[0])
    pulls_ = [n for n in gi.nodes if n.kind == "stmt" and any(isinstance(c, ast.Call) and u(c.func) == "next" and c.args and u(c.args[0]) == fv for c in ast.walk(n.ast))]
    ctx.floor("pulls from the grouped stream in iter_chromosomes", len(pulls_), 2)
    ok = all(gi.dominates(filt[0], p_) for p_ in pulls_)
    ctx.ob(ic.where, "every group, the first one included, is pulled from the stream AFTER it was wrapped in the ignored / unknown-name filter", ok,
           "; ".join(f"line {p_.ast.lineno}" for p_ in pulls_ if not gi.dominates(filt[0], p_)), key="C12-R6|filter-before-pull")
    G = "bionumpy.genomic_data.genome"
    init = ix.func(G, "Genome.__init__")
    ff = "filter_function"
    ctx.need(ff in init.params, "Genome.__init__ has no filter_function parameter")
    calls = [c for c in func_calls(init.node) if u(c.func) == "GenomeContext.from_dict"]
    ctx.need(len(calls) == 1, "Genome.__init__: GenomeContext.from_dict call not found")
    passed = [u(a) for a in calls[0].args[1:2]] + [u(k.value) for k in calls[0].keywords if k.arg == ff]
    ctx.ob(init.where, "the genome's contig filter is handed to GenomeContext.from_dict (otherwise the default filter silently ignores contigs with '_')", passed == [ff], u(calls[0]),
           key="C12-R6|filter-forwarded|Genome.__init__")
    for qn in ("Genome.from_file", "Genome.from_dict"):
        if not ix.has_func(G, qn):
            continue
        fi = ix.func(G, qn)
        if ff not in fi.params:
            continue
        cc = [c for c in func_calls(fi.node) if u(c.func) == "cls"]
        ctx.need(cc, f"{qn}: constructor call not found")
        for c in cc:
            passed = [u(k.value) for k in c.keywords if k.arg == ff] + [u(a) for a in c.args[3:4]]
            ctx.ob(fi.where, f"{qn} hands its contig filter to the constructor", passed == [ff], u(c)[:140], key=f"C12-R6|filter-forwarded|{qn}")
    fd = ix.func("bionumpy.genomic_data.genome_context", "GenomeContext.from_dict")
    env = local_env(fd.node)
    ig = [x for x in body_walk(fd.node) if isinstance(x, ast.Assign) and u(x.targets[0]) == "ignored_keys"]
    ok = len(ig) == 1 and sym.canon(ig[0].value) == sym.canon(sym.parse_expr(f"{{key for key in {fd.params[1]} if not {fd.params[2]}(key)}}"))
    ctx.ob(fd.where, "exactly the names rejected by the filter are ignored", ok, u(ig[0]) if ig else "", key="C12-R6|filter-applied")


from ..through_time import make_rule as _mk_tt, make_t2 as _mk_t2
_through_time = _mk_tt("C12")
_small_edits = _mk_t2("C12")

def _group_join(ctx):
    from .c11 import r5_group_join
    r5_group_join(ctx)                     # pieces of one contig arriving in several chunks are all concatenated

def _len_threshold(test, var):
    """(op, c) of a test `len(var) op c` (normalised to len on the left), or None."""
    if not (isinstance(test, ast.Compare) and len(test.ops) == 1):
        return None
    l, r, op = test.left, test.comparators[0], type(test.ops[0])
    flip = {ast.Lt: ast.Gt, ast.Gt: ast.Lt, ast.LtE: ast.GtE, ast.GtE: ast.LtE, ast.Eq: ast.Eq, ast.NotEq: ast.NotEq}
    if isinstance(r, ast.Call) and u(r.func) == "len":
        l, r, op = r, l, flip.get(op)
    if not (isinstance(l, ast.Call) and u(l.func) == "len" and l.args and u(l.args[0]) == var and isinstance(r, ast.Constant) and isinstance(r.value, int) and op):
        return None
    return op, r.value


def _nonempty_only(test, var):
    """True if the test holds for EVERY length >= 1 (so it can only single out the empty case), False if some length >= 1 fails it, None if unknown."""
    t = _len_threshold(test, var)
    if t is None:
        return None
    op, c = t
    if op is ast.Gt:
        return c <= 0
    if op is ast.GtE:
        return c <= 1
    if op is ast.NotEq:
        return c <= 0
    return False


def r9_chunk_partition(ctx):
    """(a) groupby cuts a chunk into groups that together are the whole chunk: every return is a generator of (key at the group's first row, rows of the group)
    whose groups start at row 0 and end at the last row; (b) a whole table handed to a MultiStream is wrapped as a one-chunk stream unconditionally
    (at most the EMPTY table may be dropped)."""
    ix = ctx.index
    f = ix.func("bionumpy.streams.groupby_func", "groupby")
    data = f.params[0]
    env = local_env(f.node)
    rets = [r for r in body_walk(f.node) if isinstance(r, ast.Return)]
    n = 0
    for r in rets:
        v = r.value
        if not (isinstance(v, ast.Call) and u(v.func) == "grouped_stream" and v.args and isinstance(v.args[0], ast.GeneratorExp)):
            raise Unrecognised(f"{f.where}: groupby returns `{u(v)[:80]}`")
        ge = v.args[0]
        n += 1
        if not (isinstance(ge.elt, ast.Tuple) and len(ge.elt.elts) == 2 and len(ge.generators) == 1 and not ge.generators[0].ifs):
            raise Unrecognised(f"{f.where}: group generator has an unknown form: {u(ge)[:80]}")
        kexp, rows = ge.elt.elts
        dom = ge.generators[0].iter
        tgt = ge.generators[0].target
        if isinstance(rows, ast.Subscript) and u(rows.value) == data and isinstance(rows.slice, ast.Slice):
            lo, hi = rows.slice.lower, rows.slice.upper
            names = [u(e) for e in (tgt.elts if isinstance(tgt, ast.Tuple) else [tgt])]
            key_ok = isinstance(kexp, ast.Call) and len(kexp.args) == 1 and isinstance(kexp.args[0], ast.Subscript) and lo is not None and u(kexp.args[0].slice) == u(lo)
            ctx.ob(f.where, "a group is labelled with the key of its own first row", key_ok, u(kexp), key="C12-R9|group-key")
            if hi is None:
                cover = isinstance(dom, (ast.List, ast.Tuple)) and [u(e) for e in dom.elts] == ["0"] and names == [u(lo)]
            else:
                want = sym.canon(sym.parse_expr(f"zip(np.append(np.insert(get_changes(keys), 0, 0), len({data}))[:-1], np.append(np.insert(get_changes(keys), 0, 0), len({data}))[1:])"))
                envc = {k: v for k, v in env.items() if k != "keys"}
                chs = [x for x in linear_body(f.node) if isinstance(x, ast.Assign) and u(x.targets[0]) == "changes"]
                e2 = {}
                for x in chs:
                    e2["changes"] = inline_locals(x.value, e2)
                cover = sym.canon(inline_locals(dom, e2)) == want and names == [u(lo), u(hi)]
            ctx.ob(f.where, "the groups of a chunk start at row 0, follow each other without gap, and end at the chunk's last row", cover, u(dom)[:100], key="C12-R9|cover")
        elif u(rows) == data:
            # the whole chunk as ONE group: right only if exactly one group comes out whenever the chunk has a row
            one = u(dom) in ("keys[:1]", "keys[0:1]", "[keys[0]]", "(keys[0],)")
            none_ = isinstance(dom, ast.Subscript) and isinstance(dom.slice, ast.Slice) and dom.slice.lower is not None and u(dom.slice.lower) not in ("0",)
            if not one and not none_:
                raise Unrecognised(f"{f.where}: whole-chunk group over `{u(dom)}`")
            ctx.ob(f.where, "a chunk returned as one group yields exactly one group whenever it has a row (a one-row chunk is a group, not nothing)", one, u(ge)[:100],
                   key="C12-R9|single-group", definite=True)
        else:
            raise Unrecognised(f"{f.where}: group rows `{u(rows)}`")
    ctx.floor("returns of groupby", n, 2)
    m = ix.func("bionumpy.streams.multistream", "MultiStream.__init__")
    envm = local_env(m.node)
    wraps = [c for c in func_calls(m.node) if u(c.func) == "NpDataclassStream"]
    ctx.floor("table-to-stream wraps in MultiStream.__init__", len(wraps), 1)
    for c in wraps:
        a = inline_locals(c.args[0], {k: v for k, v in envm.items() if k not in ("value",)})
        if isinstance(a, ast.List) and len(a.elts) == 1:
            ok, var = True, u(a.elts[0])
        elif isinstance(a, ast.IfExp) and isinstance(a.body, ast.List) and len(a.body.elts) == 1 and isinstance(a.orelse, ast.List) and not a.orelse.elts:
            var = u(a.body.elts[0])
            ne = _nonempty_only(a.test, var)
            if ne is None:
                raise Unrecognised(f"{m.where}: a table is wrapped as a stream under `{u(a.test)}`")
            ok = ne
        else:
            raise Unrecognised(f"{m.where}: a table is wrapped as `{u(a)[:80]}`")
        ctx.ob(m.where, "a whole table given to a MultiStream becomes a one-chunk stream (at most the empty table is dropped: a one-row table is data)", ok, u(a)[:100],
               key="C12-R9|table-wrap", definite=True)



def _round7_groups(ctx):
    from .. import memo
    from ..idioms import check_endpoint_samples
    from .round7 import ragged_changes_symmetric
    ragged_changes_symmetric(ctx, "C12-R10")
    mods = [m for m in ["bionumpy.streams.groupby_func", "bionumpy.streams.left_join", "bionumpy.streams.multistream", "bionumpy.streams.reductions", "bionumpy.streams.stream", "bionumpy.streams.chunk_entries", "bionumpy.genomic_data.genome_context", "bionumpy.genomic_data.genome_context_base"] if m in ctx.index.modules]
    ctx.count("dict-cache stores examined", memo.check_dict_caches(ctx, mods, rule_prefix="C12-R10"))
    check_endpoint_samples(ctx, mods, "C12-R10")

RULES = [
    ("C12-R1", r1_pending_group),
    ("C12-R2", r2_every_contig_gets_a_buffer),
    ("C12-R3", r3_unknown_and_repeated_names_raise),
    ("C12-R4", r4_context_immutable),
    ("C12-R5", r5_order_equals_sizes),
    ("C12-R6", r6_group_boundaries_and_filter),
    ("C12-R7", _similarity_streams),
    ("C12-T1", _through_time),
    ("C12-T2", _small_edits),
    ("C12-R8", _group_join),
    ("C12-R9", r9_chunk_partition),
    ("C12-R10", _round7_groups),
]
