"""CLI:  python -m bnpsa check C07 [--tier quick|thorough] [--root /repo]
         python -m bnpsa replay <replay.json>
         python -m bnpsa all [--tier quick]
Exit codes: 0 holds, 1 VIOLATION, 2 ANALYSIS-ERROR (anchor vanished / construct unreadable / checker crash)."""
from __future__ import annotations
import argparse
import importlib
import json
import os
import sys
import traceback

from .report import Ctx

PROPS = [f"C{i:02d}" for i in range(1, 21)]


def run_check(prop: str, tier: str, root: str, seed: int, write: bool = True, only_rule=None) -> int:
    try:
        mod = importlib.import_module(f"bnpsa.rules.{prop.lower()}")
    except ModuleNotFoundError:
        print(f"ANALYSIS-ERROR property={prop} no rule module (property is not claimed)")
        return 2
    try:
        ctx = Ctx(prop, tier, root, seed, write)
        rules = mod.rules(ctx) if callable(getattr(mod, "rules", None)) else mod.RULES
        if only_rule:
            rules = [r for r in rules if r[0] == only_rule]
        ctx.run_rules(rules)
        if tier == "thorough":
            ctx.current_rule = "thorough"
            try:
                if hasattr(mod, "thorough"):
                    mod.thorough(ctx)
                from . import sweeps
                sweeps.package_wide(ctx)
            except Exception as e:
                ctx.analysis_errors.append(f"thorough: {type(e).__name__}: {e}")
        if tier == "thorough" and write and os.environ.get("BNPSA_NO_SELFTEST") != "1":
            from . import selftest
            try:
                ctx.selftest = selftest.run_for_property(prop, root, seed)
                ctx.selftest["independent_seeded_changes"] = selftest.run_seeds_for_property(prop, root)
                ctx.selftest["behaviour_preserving_rewrites"] = selftest.run_refactor_variants(prop, root)
                ctx.selftest["behaviour_preserving_changes_by_agents"] = selftest.run_benign_for_property(prop, root)
            except Exception as e:
                ctx.selftest = {"error": f"{type(e).__name__}: {e}"}
        expl = getattr(mod, "EXPLANATION", "static rule instances over the source")
        try:        # clauses added after the module's explanation was written (kept in one place: tools/claims.py)
            import importlib.util as _ilu
            sp = _ilu.spec_from_file_location("claims", os.path.join(os.path.dirname(os.path.dirname(os.path.abspath(__file__))), "tools", "claims.py"))
            cm = _ilu.module_from_spec(sp)
            sp.loader.exec_module(cm)
            if prop in getattr(cm, "EXTRA", {}):
                expl += " " + cm.EXTRA[prop] + " (T1) quantified tests and parameter use are cross-checked against the instances confirmed on the reference tree." \
                    " All rules read the comparison normal form of bnpsa/normalize.py."
        except Exception:
            pass
        return ctx.finish(expl)
    except Exception as e:
        print(f"ANALYSIS-ERROR property={prop} checker crashed: {type(e).__name__}: {e}")
        traceback.print_exc(limit=8, file=sys.stdout)
        return 2


def main(argv=None):
    ap = argparse.ArgumentParser(prog="bnpsa")
    sub = ap.add_subparsers(dest="cmd", required=True)
    c = sub.add_parser("check")
    c.add_argument("prop")
    c.add_argument("--tier", default=os.environ.get("VERIF_TIER", "quick"), choices=["quick", "thorough"])
    c.add_argument("--root", default="/repo")
    c.add_argument("--no-write", action="store_true")
    c.add_argument("--rule", default=None)
    r = sub.add_parser("replay")
    r.add_argument("path")
    r.add_argument("--root", default="/repo")
    a = sub.add_parser("all")
    a.add_argument("--tier", default="quick")
    a.add_argument("--root", default="/repo")
    a.add_argument("--no-write", action="store_true")
    args = ap.parse_args(argv)
    seed = int(os.environ.get("VERIF_SEED", "0") or 0)
    if args.cmd == "check":
        return run_check(args.prop.upper(), args.tier, args.root, seed, write=not args.no_write, only_rule=args.rule)
    if args.cmd == "replay":
        with open(args.path) as f:
            rec = json.load(f)
        print(f"replaying rule {rec['rule']} of {rec['property']} (key: {rec['key']})")
        rc = run_check(rec["property"], "quick", args.root, seed, write=False, only_rule=rec["rule"])
        return rc
    if args.cmd == "all":
        worst = 0
        for p in PROPS:
            if os.path.exists(os.path.join(os.path.dirname(__file__), "rules", f"{p.lower()}.py")):
                rc = run_check(p, args.tier, args.root, seed, write=not args.no_write)
                worst = max(worst, rc)
        return worst
    return 2


if __name__ == "__main__":
    sys.exit(main())
