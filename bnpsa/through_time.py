"""Cross-check through time: instances that were read and confirmed on the reference tree (bnpsa/tables/ref_locals.json) are the reference for any later
change of the same function.  Two slip kinds that recur in independent seeded changes and that no behaviour-preserving edit produces:

 T-QUANT  a universal / existential test flips (`all` <-> `any`) on the *same* argument under the same negation;
 T-PARAM  a parameter that the function used to read is still accepted but read nowhere (the argument is silently ignored, a default takes over).

Both are decided per function of the property's anchor files (properties.jsonl `anchors.files`); a function whose argument or parameter list changed is
simply not comparable and is skipped (other rules own it).  On the reference tree the rule holds by construction; it exists to report the flip."""
from __future__ import annotations
import ast
import json
import os

from . import normalize
from .index import AnchorMissing

_PROPS = os.path.join(os.path.dirname(os.path.dirname(os.path.abspath(__file__))), "properties.jsonl")
# modules that implement a property but are not among its anchor files
EXTRA_FILES = {
    "C15": ["bionumpy/io/strops.py"],
    "C03": ["bionumpy/bnpdataclass/lazybnpdataclass.py"],
    "C19": ["bionumpy/bnpdataclass/lazybnpdataclass.py"],
}


# quantified tests that were read but are NOT taken as reference (a later correction of them must not be reported as a flip)
NOT_REFERENCE = {
    ("bionumpy.streams.groupby_func", "get_changes", "(array[1:])!=(array[:-1])"): "generic n-d branch requires ALL columns of a row to differ; `any` would be the expected test",
    ("bionumpy.io.dump_csv", "optional_ints_to_strings", "number"): "`np.all(number) == np.nan` is never true; the test has no effect",
}


# callees whose positional arguments may be exchanged freely
COMMUTATIVE = {"add", "multiply", "maximum", "minimum", "max", "min", "logical_and", "logical_or", "bitwise_and", "bitwise_or", "intersect1d", "union1d", "array_equal", "allclose",
               "isclose", "zip", "issubclass_or_instance", "assert_equal", "assert_array_equal", "gcd", "lcm", "union", "intersection", "concatenate", "hstack", "vstack"}


def anchor_modules(prop: str):
    files = []
    with open(_PROPS) as f:
        for line in f:
            d = json.loads(line)
            if d["id"] == prop:
                files = list(d["anchors"]["files"])
    files += EXTRA_FILES.get(prop, [])
    mods = []
    for p in files:
        m = p[:-3].replace("/", ".")
        if m.endswith(".__init__"):
            m = m[: -len(".__init__")]
        mods.append(m)
    return mods


def _callee_still_accepts(ix, table, callee: str, ref_call, lost_kw) -> bool:
    """True when every function of the package that the call can mean (by its last name) has the same parameter list as on the reference tree and accepts
    the dropped keyword / the old number of positional arguments; unknown callees (NumPy, builtins) count as unchanged."""
    name = callee.split(".")[-1]
    cands = []
    for mod, mi in ix.modules.items():
        for qn, fi in mi.functions.items():
            last = qn.split(".")[-1]
            if last == name or (last == "__init__" and qn.split(".")[-2:-1] == [name]):
                cands.append((mod, qn, fi))
    if not cands:
        return True
    for mod, qn, fi in cands:
        ref = table.get(mod, {}).get(qn)
        if isinstance(fi.node, ast.Lambda):
            return False
        a = fi.node.args
        now_params = [x.arg for x in a.posonlyargs + a.args + a.kwonlyargs]
        if ref is None or ref.get("params") is None or ref["params"] != now_params:
            return False          # the callee changed too: a coordinated signature change, not a dropped argument
        if any(k not in now_params for k in lost_kw) and not a.kwarg:
            return False
    return True


def make_rule(prop: str):
    def rule(ctx):
        ix = ctx.index
        table = normalize.load_table()
        mods = [m for m in anchor_modules(prop) if m in ix.modules]
        if not mods:
            raise AnchorMissing(f"none of the anchor files of {prop} is in the tree")
        nq = npar = nf = nargs = 0
        for mod in mods:
            mt = table.get(mod, {})
            for qn, fi in ix.module(mod).functions.items():
                if isinstance(fi.node, ast.Lambda) or qn not in mt:
                    continue
                ref = mt[qn]
                nf += 1
                now_q = normalize.quantifier_sites(fi.node)
                for q, neg, arg in ref.get("quants", []):
                    if (mod, qn, arg) in NOT_REFERENCE:
                        continue
                    nq += 1
                    same = [x for x in now_q if x[2] == arg and x[1] == neg]
                    if not same:
                        continue          # argument changed: not comparable
                    flipped = all(x[0] != q for x in same)
                    ctx.ob(fi.where, f"`{q}(...)` over `{arg[:80]}` is still `{q}` (a universal test that becomes existential, or the reverse, accepts or rejects different inputs)",
                           not flipped, f"now {sorted({x[0] for x in same})}", key=f"{prop}-T1|quantifier|{mod}|{qn}|{arg[:60]}")
                now_p = normalize.params_read(fi.node)
                now_all = [x.arg for x in fi.node.args.posonlyargs + fi.node.args.args + fi.node.args.kwonlyargs]
                for p in ref.get("params_read", []):
                    if p in ("self", "cls"):
                        continue
                    npar += 1
                    if p not in now_all:
                        continue          # signature changed: callers would fail loudly
                    ctx.ob(fi.where, f"parameter `{p}` is still read by the function (an argument that is accepted but no longer used is silently replaced by whatever "
                           "the body uses instead)", p in now_p, "", key=f"{prop}-T1|param-unused|{mod}|{qn}|{p}")
                # T-ARGS: an argument that used to be passed is no longer passed although the callee still takes it (its default silently takes over)
                now_c = normalize.call_shapes(fi.node)
                ref_c = ref.get("calls", [])
                for callee in {c[0] for c in ref_c}:
                    r_sites = [c for c in ref_c if c[0] == callee]
                    n_sites = [c for c in now_c if c[0] == callee]
                    if len(r_sites) != len(n_sites) or any(c[3] for c in r_sites + n_sites):
                        continue
                    for rc, nc in zip(r_sites, n_sites):
                        nargs += 1
                        lost_kw = [k for k in rc[2] if k not in nc[2]]
                        lost_pos = rc[1] - nc[1]
                        # a keyword may have become positional or the other way round: compare the total number of arguments too
                        if (lost_kw or lost_pos > 0) and (nc[1] + len(nc[2]) < rc[1] + len(rc[2])):
                            if not _callee_still_accepts(ix, table, callee, rc, lost_kw):
                                continue
                            ctx.ob(fi.where, f"the call `{callee}(...)` still passes every argument it passed on the reference tree (a dropped argument is silently replaced by the "
                                   "callee's default)", False, f"was {rc[1]} positional + {rc[2]}, now {nc[1]} positional + {nc[2]}",
                                   key=f"{prop}-T1|argument-dropped|{mod}|{qn}|{callee}")
                # T-ORDER (arguments): the same call with the same arguments in another order
                now_a = normalize.call_args(fi.node)
                ref_a = ref.get("call_args", [])
                for callee in {c[0] for c in ref_a}:
                    if callee.split(".")[-1] in COMMUTATIVE:
                        continue
                    r_sites = [c for c in ref_a if c[0] == callee]
                    n_sites = [c for c in now_a if c[0] == callee]
                    if len(r_sites) != len(n_sites):
                        continue
                    for rc, nc in zip(r_sites, n_sites):
                        if rc[1] != nc[1] and sorted(rc[1]) == sorted(nc[1]) and len(set(rc[1])) == len(rc[1]):
                            ctx.ob(fi.where, f"the call `{callee}(...)` passes its arguments in the order confirmed on the reference tree (the same arguments in another order reach "
                                   "different parameters)", False, f"was ({', '.join(rc[1])[:120]}), now ({', '.join(nc[1])[:120]})", key=f"{prop}-T1|argument-order|{mod}|{qn}|{callee}")
                # T-ORDER (statements): the same statements in another order, where one of the moved statements reads or writes what the other writes
                now_s = normalize.stmt_sequence(fi.node)
                ref_s = ref.get("stmts", [])
                if ref_s and sorted(x[0] for x in ref_s) == sorted(x[0] for x in now_s) and [x[0] for x in ref_s] != [x[0] for x in now_s] \
                        and len({x[0] for x in ref_s}) == len(ref_s):
                    pos = {x[0]: i for i, x in enumerate(now_s)}
                    for i in range(len(ref_s)):
                        for j in range(i + 1, len(ref_s)):
                            a, b = ref_s[i], ref_s[j]
                            if pos[a[0]] > pos[b[0]]:          # inverted pair
                                wa, wb = set(a[1]) | set(a[3]), set(b[1]) | set(b[3])
                                ra, rb = set(a[2]), set(b[2])
                                dep = (wa & (rb | wb)) or (wb & ra)
                                dep = {d for d in dep if d not in ("self", "np", "cls")}
                                if dep:
                                    ctx.ob(fi.where, f"two statements that depend on each other through `{sorted(dep)[0]}` keep the order confirmed on the reference tree", False,
                                           f"`{b[0][:70]}` now runs before `{a[0][:70]}`", key=f"{prop}-T1|statement-order|{mod}|{qn}|{sorted(dep)[0]}")
        ctx.count("call sites compared with the reference", nargs)
        ctx.count("quantified tests compared with the reference", nq)
        ctx.count("parameters compared with the reference", npar)
        ctx.floor("functions of the anchor files compared with the reference tree", nf, 10)
    return rule
