"""Cross-check through time: instances that were read and confirmed on the reference tree (bnpsa/tables/ref_locals.json) are the reference for any later
change of the same function.  Two slip kinds that recur in independent seeded changes and that no behaviour-preserving edit produces:

 T-QUANT  a universal / existential test flips (`all` <-> `any`) on the *same* argument under the same negation;
 T-PARAM  a parameter that the function used to read is still accepted but read nowhere (the argument is silently ignored, a default takes over).

Both are decided per function of the property's anchor files (properties.jsonl `anchors.files`); a function whose argument or parameter list changed is
simply not comparable and is skipped (other rules own it).  On the reference tree the rule holds by construction; it exists to report the flip."""
from __future__ import annotations
import ast
import json
import os

from . import normalize
from .index import AnchorMissing

_PROPS = os.path.join(os.path.dirname(os.path.dirname(os.path.abspath(__file__))), "properties.jsonl")
# modules that implement a property but are not among its anchor files
EXTRA_FILES = {
    "C15": ["bionumpy/io/strops.py"],
    "C03": ["bionumpy/bnpdataclass/lazybnpdataclass.py"],
    "C19": ["bionumpy/bnpdataclass/lazybnpdataclass.py"],
    "C14": ["bionumpy/genomic_data/genomic_intervals.py"],
}


# quantified tests that were read but are NOT taken as reference (a later correction of them must not be reported as a flip)
NOT_REFERENCE = {
    ("bionumpy.streams.groupby_func", "get_changes", "(array[1:])!=(array[:-1])"): "generic n-d branch requires ALL columns of a row to differ; `any` would be the expected test",
    ("bionumpy.io.dump_csv", "optional_ints_to_strings", "number"): "`np.all(number) == np.nan` is never true; the test has no effect",
}


# callees whose positional arguments may be exchanged freely
COMMUTATIVE = {"add", "multiply", "maximum", "minimum", "max", "min", "logical_and", "logical_or", "bitwise_and", "bitwise_or", "intersect1d", "union1d", "array_equal", "allclose",
               "isclose", "zip", "issubclass_or_instance", "assert_equal", "assert_array_equal", "gcd", "lcm", "union", "intersection", "concatenate", "hstack", "vstack"}


def anchor_modules(prop: str):
    files = []
    with open(_PROPS) as f:
        for line in f:
            d = json.loads(line)
            if d["id"] == prop:
                files = list(d["anchors"]["files"])
    files += EXTRA_FILES.get(prop, [])
    mods = []
    for p in files:
        m = p[:-3].replace("/", ".")
        if m.endswith(".__init__"):
            m = m[: -len(".__init__")]
        mods.append(m)
    return mods


def _callee_still_accepts(ix, table, callee: str, ref_call, lost_kw) -> bool:
    """True when every function of the package that the call can mean (by its last name) has the same parameter list as on the reference tree and accepts
    the dropped keyword / the old number of positional arguments; unknown callees (NumPy, builtins) count as unchanged."""
    name = callee.split(".")[-1]
    cands = []
    for mod, mi in ix.modules.items():
        for qn, fi in mi.functions.items():
            last = qn.split(".")[-1]
            if last == name or (last == "__init__" and qn.split(".")[-2:-1] == [name]):
                cands.append((mod, qn, fi))
    if not cands:
        return True
    for mod, qn, fi in cands:
        ref = table.get(mod, {}).get(qn)
        if isinstance(fi.node, ast.Lambda):
            return False
        a = fi.node.args
        now_params = [x.arg for x in a.posonlyargs + a.args + a.kwonlyargs]
        if ref is None or ref.get("params") is None or ref["params"] != now_params:
            return False          # the callee changed too: a coordinated signature change, not a dropped argument
        if any(k not in now_params for k in lost_kw) and not a.kwarg:
            return False
    return True


_owner_cache = None


def anchor_owner_counts():
    """module -> number of properties that list the file among their anchors"""
    global _owner_cache
    if _owner_cache is None:
        c = {}
        with open(_PROPS) as f:
            for line in f:
                d = json.loads(line)
                for p in d["anchors"]["files"]:
                    m = p[:-3].replace("/", ".")
                    if m.endswith(".__init__"):
                        m = m[: -len(".__init__")]
                    c[m] = c.get(m, 0) + 1
        _owner_cache = c
    return _owner_cache


def make_rule(prop: str):
    def rule(ctx):
        ix = ctx.index
        table = normalize.load_table()
        mods = [m for m in anchor_modules(prop) if m in ix.modules]
        if not mods:
            raise AnchorMissing(f"none of the anchor files of {prop} is in the tree")
        nq = npar = nf = nargs = 0
        for mod in mods:
            mt = table.get(mod, {})
            for qn, fi in ix.module(mod).functions.items():
                if isinstance(fi.node, ast.Lambda) or qn not in mt:
                    continue
                ref = mt[qn]
                nf += 1
                if ref.get("digest") == normalize.digest(fi.node):
                    ctx.count("functions identical to their reference form (nothing to compare)")
                    continue        # unchanged
                if ctx.function_status(fi.where) == "rewritten":
                    ctx.count("functions rewritten since the reference tree (not compared clause by clause)")
                    continue        # a rewritten function is not comparable clause by clause
                now_q = normalize.quantifier_sites(fi.node)
                for q, neg, arg in ref.get("quants", []):
                    if (mod, qn, arg) in NOT_REFERENCE:
                        continue
                    nq += 1
                    same = [x for x in now_q if x[2] == arg and x[1] == neg]
                    if not same:
                        continue          # argument changed: not comparable
                    flipped = all(x[0] != q for x in same)
                    ctx.ob(fi.where, f"`{q}(...)` over `{arg[:80]}` is still `{q}` (a universal test that becomes existential, or the reverse, accepts or rejects different inputs)",
                           not flipped, f"now {sorted({x[0] for x in same})}", key=f"{prop}-T1|quantifier|{mod}|{qn}|{arg[:60]}")
                now_p = normalize.params_read(fi.node)
                now_all = [x.arg for x in fi.node.args.posonlyargs + fi.node.args.args + fi.node.args.kwonlyargs]
                for p in ref.get("params_read", []):
                    if p in ("self", "cls"):
                        continue
                    npar += 1
                    if p not in now_all:
                        continue          # signature changed: callers would fail loudly
                    ctx.ob(fi.where, f"parameter `{p}` is still read by the function (an argument that is accepted but no longer used is silently replaced by whatever "
                           "the body uses instead)", p in now_p, "", key=f"{prop}-T1|param-unused|{mod}|{qn}|{p}")
                # T-ARGS: an argument that used to be passed is no longer passed although the callee still takes it (its default silently takes over)
                now_c = normalize.call_shapes(fi.node)
                ref_c = ref.get("calls", [])
                for callee in {c[0] for c in ref_c}:
                    r_sites = [c for c in ref_c if c[0] == callee]
                    n_sites = [c for c in now_c if c[0] == callee]
                    if len(r_sites) != len(n_sites) or any(c[3] for c in r_sites + n_sites):
                        continue
                    for rc, nc in zip(r_sites, n_sites):
                        nargs += 1
                        lost_kw = [k for k in rc[2] if k not in nc[2]]
                        lost_pos = rc[1] - nc[1]
                        # a keyword may have become positional or the other way round: compare the total number of arguments too
                        if (lost_kw or lost_pos > 0) and (nc[1] + len(nc[2]) < rc[1] + len(rc[2])):
                            if not _callee_still_accepts(ix, table, callee, rc, lost_kw):
                                continue
                            ctx.ob(fi.where, f"the call `{callee}(...)` still passes every argument it passed on the reference tree (a dropped argument is silently replaced by the "
                                   "callee's default)", False, f"was {rc[1]} positional + {rc[2]}, now {nc[1]} positional + {nc[2]}",
                                   key=f"{prop}-T1|argument-dropped|{mod}|{qn}|{callee}")
                # T-ORDER (arguments): the same call with the same arguments in another order
                now_a = normalize.call_args(fi.node)
                ref_a = ref.get("call_args", [])
                for callee in {c[0] for c in ref_a}:
                    if callee.split(".")[-1] in COMMUTATIVE:
                        continue
                    r_sites = [c for c in ref_a if c[0] == callee]
                    n_sites = [c for c in now_a if c[0] == callee]
                    if len(r_sites) != len(n_sites):
                        continue
                    for rc, nc in zip(r_sites, n_sites):
                        if rc[1] != nc[1] and sorted(rc[1]) == sorted(nc[1]) and len(set(rc[1])) == len(rc[1]):
                            ctx.ob(fi.where, f"the call `{callee}(...)` passes its arguments in the order confirmed on the reference tree (the same arguments in another order reach "
                                   "different parameters)", False, f"was ({', '.join(rc[1])[:120]}), now ({', '.join(nc[1])[:120]})", key=f"{prop}-T1|argument-order|{mod}|{qn}|{callee}")
                # T-ORDER (statements): the same statements in another order, where one of the moved statements reads or writes what the other writes
                now_s = normalize.stmt_sequence(fi.node)
                ref_s = ref.get("stmts", [])
                if ref_s and sorted(x[0] for x in ref_s) == sorted(x[0] for x in now_s) and [x[0] for x in ref_s] != [x[0] for x in now_s] \
                        and len({x[0] for x in ref_s}) == len(ref_s):
                    pos = {x[0]: i for i, x in enumerate(now_s)}
                    for i in range(len(ref_s)):
                        for j in range(i + 1, len(ref_s)):
                            a, b = ref_s[i], ref_s[j]
                            if pos[a[0]] > pos[b[0]]:          # inverted pair
                                wa, wb = set(a[1]) | set(a[3]), set(b[1]) | set(b[3])
                                ra, rb = set(a[2]), set(b[2])
                                dep = (wa & (rb | wb)) or (wb & ra)
                                dep = {d for d in dep if d not in ("self", "np", "cls")}
                                if dep:
                                    ctx.ob(fi.where, f"two statements that depend on each other through `{sorted(dep)[0]}` keep the order confirmed on the reference tree", False,
                                           f"`{b[0][:70]}` now runs before `{a[0][:70]}`", key=f"{prop}-T1|statement-order|{mod}|{qn}|{sorted(dep)[0]}")
        ctx.count("call sites compared with the reference", nargs)
        ctx.count("quantified tests compared with the reference", nq)
        ctx.count("parameters compared with the reference", npar)
        ctx.floor("functions of the anchor files compared with the reference tree", nf, 10)
    return rule


# ------------------------------------------------------------------------------------------------------------------------------------------------------
# T2: small edits of confirmed mechanism functions
#
# For the functions that implement a property (tables/relevance.json: the property's own mechanism line ranges, the functions its rules examine, the functions its
# confirmed seeded changes edit) the normal form on the reference tree is kept (`src` in ref_locals.json).  If the current normal form differs from it ONLY by at most
# two small expression substitutions, one deleted effectful statement or one added early exit - the shapes of an operator / boundary / constant / wrong-variable /
# lost-update / too-wide-shortcut slip - the function no longer is the confirmed one in a way no behaviour-preserving edit produces, and that is reported.  Any larger
# or structural difference (a rewrite, an extracted helper, added validation, logging, ...) is "not comparable" and left to the other rules.
SWEEPING = {"C20"}
RELEVANCE_PATH = os.path.join(os.path.dirname(__file__), "tables", "relevance.json")
_rel_cache = None
MAX_EDITS = 2
MAX_NODES = 14


def relevance(prop):
    global _rel_cache
    if _rel_cache is None:
        try:
            _rel_cache = json.load(open(RELEVANCE_PATH))
        except FileNotFoundError:
            _rel_cache = {}
    return _rel_cache.get(prop, {})


def _strip(fn):
    """body without docstring; nested defs replaced by a marker (they are compared on their own)"""
    body = list(fn.body)
    if body and isinstance(body[0], ast.Expr) and isinstance(body[0].value, ast.Constant) and isinstance(body[0].value.value, str):
        body = body[1:]
    return body


def _size(n):
    return sum(1 for _ in ast.walk(n))


def _dump(n):
    if isinstance(n, (ast.FunctionDef, ast.AsyncFunctionDef, ast.ClassDef)):
        return f"<def {n.name}>"
    if isinstance(n, ast.Call):         # keyword order is irrelevant
        n2 = ast.Call(func=n.func, args=n.args, keywords=sorted(n.keywords, key=lambda k: k.arg or ""))
        return ast.dump(n2)
    return ast.dump(n)


class _Diff:
    def __init__(self):
        self.edits = []          # (kind, old_text, new_text)
        self.structural = False

    def stmts(self, a, b):
        if self.structural:
            return
        a, b = [x for x in _lin(a) if not _ignorable(x)], [x for x in _lin(b) if not _ignorable(x)]
        da, db = [_dump(x) for x in a], [_dump(x) for x in b]
        if da == db:
            return
        if len(a) == len(b):
            for x, y in zip(a, b):
                if not isinstance(x, ast.If) and isinstance(y, ast.If) and not y.orelse and len(y.body) == 1 and _dump(y.body[0]) == _dump(x):
                    self.edits.append(("made-conditional", _u(x).split("\n")[0], _u(y.test), None))
                    continue
                self.node(x, y)
            return
        if abs(len(a) - len(b)) == 1:
            longer, shorter, added = (b, a, True) if len(b) > len(a) else (a, b, False)
            dl, ds = ([_dump(x) for x in longer], [_dump(x) for x in shorter])
            for i in range(len(longer)):
                if dl[:i] + dl[i + 1:] == ds:
                    self.edits.append(("stmt-added" if added else "stmt-deleted", "", "", longer[i]))
                    return
            # one statement added/deleted AND another changed: align around the odd one out by best prefix/suffix match
            pre = 0
            while pre < len(shorter) and dl[pre] == ds[pre]:
                pre += 1
            suf = 0
            while suf < len(shorter) - pre and dl[-1 - suf] == ds[-1 - suf]:
                suf += 1
            if pre + suf >= len(shorter) - 1:
                self.structural = True
                return
        self.structural = True

    def node(self, a, b):
        if self.structural:
            return
        if _dump(a) == _dump(b):
            return
        if isinstance(a, (ast.FunctionDef, ast.AsyncFunctionDef, ast.ClassDef)) or isinstance(b, (ast.FunctionDef, ast.AsyncFunctionDef, ast.ClassDef)):
            if type(a) is type(b) and getattr(a, "name", None) == getattr(b, "name", None):
                return          # nested definitions are compared through their own entries
            self.structural = True
            return
        if type(a) is not type(b):
            self._subst(a, b)
            return
        if isinstance(a, ast.stmt):
            # same statement kind: compare fields
            for f in a._fields:
                va, vb = getattr(a, f, None), getattr(b, f, None)
                self._field(va, vb)
            return
        # expressions: descend while shapes agree, otherwise substitute here
        if isinstance(a, (ast.Name, ast.Constant, ast.Attribute)) and not (isinstance(a, ast.Attribute) and _dump(a.value) != _dump(b.value) and a.attr == b.attr):
            self._subst(a, b)
            return
        before = len(self.edits)
        for f in a._fields:
            va, vb = getattr(a, f, None), getattr(b, f, None)
            if isinstance(va, list) and isinstance(vb, list) and len(va) != len(vb):
                del self.edits[before:]
                self._subst(a, b)
                return
        for f in a._fields:
            self._field(getattr(a, f, None), getattr(b, f, None))
        if len(self.edits) - before > 1:
            # several differences inside one expression: count them as one substitution of the expression if it is small
            if _size(a) <= MAX_NODES and _size(b) <= MAX_NODES:
                del self.edits[before:]
                self._subst(a, b)

    def _field(self, va, vb):
        if self.structural:
            return
        if isinstance(va, list) and isinstance(vb, list):
            if va and isinstance(va[0], ast.stmt) or vb and isinstance(vb[0], ast.stmt):
                self.stmts(va, vb)
                return
            if len(va) != len(vb):
                self.structural = True
                return
            if va and isinstance(va[0], ast.keyword):
                va = sorted(va, key=lambda k: k.arg or "")
                vb = sorted(vb, key=lambda k: k.arg or "")
            for x, y in zip(va, vb):
                if isinstance(x, ast.AST) and isinstance(y, ast.AST):
                    self.node(x, y)
                elif x != y:
                    self.edits.append(("token", str(x), str(y), None))
            return
        if isinstance(va, ast.AST) and isinstance(vb, ast.AST):
            if isinstance(va, (ast.operator, ast.cmpop, ast.unaryop, ast.boolop, ast.expr_context)):
                if type(va) is not type(vb) and not isinstance(va, ast.expr_context):
                    self.edits.append(("operator", type(va).__name__, type(vb).__name__, None))
                return
            self.node(va, vb)
            return
        if va is None and vb is None:
            return
        if isinstance(va, ast.AST) or isinstance(vb, ast.AST):
            if va is None or vb is None:
                self.edits.append(("token", _u(va), _u(vb), None))
            return
        if va != vb:
            self.edits.append(("token", str(va), str(vb), None))

    def _subst(self, a, b):
        if _size(a) > MAX_NODES or _size(b) > MAX_NODES:
            self.structural = True
            return
        self.edits.append(("expression", _u(a), _u(b), None))


def _ignorable(st) -> bool:
    """statements whose presence does not change what a correct run computes: assertions, pass, logging / printing, bare strings"""
    if isinstance(st, (ast.Assert, ast.Pass)):
        return True
    if isinstance(st, ast.Expr):
        if isinstance(st.value, ast.Constant):
            return True
        if isinstance(st.value, ast.Call):
            f = _u(st.value.func)
            return f.startswith("logger.") or f.startswith("logging.") or f in ("print", "warnings.warn") or f.endswith("stdout.flush")
    return False


def _lin(stmts):
    """the reader's view of a block in the comparison normal form: an early exit `if c: A(ends in return/raise/...) else: T` is the guard `if c: A` followed by T"""
    from .astutil import _ends
    out = []
    todo = list(stmts)
    while todo:
        st = todo.pop(0)
        if isinstance(st, ast.If) and st.orelse and _ends(st.body):
            g = ast.If(test=st.test, body=st.body, orelse=[])
            ast.copy_location(g, st)
            out.append(g)
            todo = list(st.orelse) + todo
        else:
            out.append(st)
    return out


def _u(n):
    if n is None:
        return "<none>"
    try:
        return ast.unparse(n)
    except Exception:
        return ast.dump(n)[:80]


def _is_early_exit(st) -> bool:
    if not isinstance(st, ast.If):
        return False
    inner = [x for b in st.body for x in ast.walk(b)]
    has_exit = any(isinstance(x, (ast.Return, ast.Continue, ast.Break)) for x in inner)
    only_raise = all(isinstance(x, ast.Raise) or not isinstance(x, ast.stmt) for b in st.body for x in [b]) and not has_exit
    return has_exit and not only_raise


def _is_effectful(st) -> bool:
    if isinstance(st, (ast.Assign, ast.AugAssign, ast.AnnAssign, ast.Return, ast.Delete, ast.For, ast.While, ast.If, ast.With, ast.Try)):
        return True
    if isinstance(st, ast.Expr) and isinstance(st.value, ast.Call):
        f = _u(st.value.func)
        return not (f.startswith("logger.") or f.startswith("logging.") or f in ("print", "warnings.warn") or f.endswith(".flush"))
    return False


from .spelling import _alpha, _Canon, _canon_fn   # noqa: E402


def _size_like(x) -> bool:
    return isinstance(x, ast.Constant) and type(x.value) in (int, float) and x.value >= 1000


def small_edits(ref_src: str, now_fn):
    """list of edits, [] when equal, None when the difference is not a small edit"""
    try:
        ref_fn = ast.parse(ref_src).body[0]
    except (SyntaxError, IndexError):
        return None
    ref_fn, now_fn = _canon_fn(_alpha(ref_fn)), _canon_fn(_alpha(now_fn))
    d = _Diff()
    # signature defaults matter (a changed default value is a small edit), annotations and decorators do not
    ra, na = ref_fn.args, now_fn.args
    rd = [_dump(x) for x in ra.defaults + [k for k in ra.kw_defaults if k is not None]]
    nd = [_dump(x) for x in na.defaults + [k for k in na.kw_defaults if k is not None]]
    if [x.arg for x in ra.posonlyargs + ra.args + ra.kwonlyargs] != [x.arg for x in na.posonlyargs + na.args + na.kwonlyargs]:
        return None
    if rd != nd:
        if len(rd) != len(nd):
            return None
        for x, y in zip(ra.defaults + [k for k in ra.kw_defaults if k is not None], na.defaults + [k for k in na.kw_defaults if k is not None]):
            if _size_like(x) and _size_like(y):
                continue        # a default buffer / chunk size: the properties hold for every size
            d.node(x, y)
    d.stmts(_strip(ref_fn), _strip(now_fn))
    if d.structural:
        return None
    out = []
    for kind, old, new, st in d.edits:
        if kind == "stmt-added":
            if not _is_early_exit(st):
                return None        # added validation / logging / bookkeeping: not comparable
            out.append(("early-exit-added", "", _u(st).split("\n")[0]))
        elif kind == "stmt-deleted":
            if not _is_effectful(st):
                continue
            out.append(("statement-deleted", _u(st).split("\n")[0], ""))
        else:
            out.append((kind, old, new))
    if len(out) > MAX_EDITS:
        return None
    return out


def make_t2(prop: str):
    def rule(ctx):
        ix = ctx.index
        table = normalize.load_table()
        rel = dict(relevance(prop))
        if not rel:
            raise AnchorMissing(f"no relevance table entry for {prop}")
        if prop in SWEEPING:
            # the property's rules sweep the whole package (every function gets an obligation): an obligation does not make a function part of the mechanism
            rel = {k: v for k, v in rel.items() if set(v) - {"rule"}}
        # files that (at most one other property apart) belong to this property alone: every function in them is the property's business
        owners = anchor_owner_counts()
        for m in anchor_modules(prop):
            if m in ix.modules and (owners.get(m, 1) <= 2 or os.environ.get("BNPSA_T2_FILES") == "1"):
                for q in ix.module(m).functions:
                    rel.setdefault(f"{m}::{q}", ["own-file"])
        n = changed = 0
        for key, sources in rel.items():
            mod, qn = key.split("::", 1)
            if mod not in ix.modules or qn not in ix.module(mod).functions:
                continue        # a vanished function is reported by the rules that anchor on it
            ref = table.get(mod, {}).get(qn)
            fi = ix.module(mod).functions[qn]
            if ref is None or not ref.get("src") or isinstance(fi.node, ast.Lambda):
                continue
            n += 1
            if ref.get("digest") == normalize.digest(fi.node):
                continue
            edits = small_edits(ref["src"], fi.node)
            if not edits:
                continue        # equal after normalisation, or not comparable
            changed += 1
            for kind, old, new in edits:
                what = {"expression": f"`{old}` became `{new}`", "operator": f"operator {old} became {new}", "token": f"`{old}` became `{new}`",
                        "early-exit-added": f"new early exit `{new}`", "statement-deleted": f"`{old}` was removed",
                        "made-conditional": f"`{old}` now runs only if `{new}`"}[kind]
                text = (f"{qn} ({'/'.join(sorted(set(sources)))} of {prop}) differs from the form confirmed on the reference tree by a small edit "
                        f"(operator / bound / constant / variable / lost statement / new shortcut): {what[:200]}")
                if os.environ.get("BNPSA_T2_VERDICT") == "1":
                    ctx.ob(fi.where, text, False, what[:200], key=f"{prop}-T2|{kind}|{mod}|{qn}|{old[:40]}|{new[:40]}", definite=True)
                else:
                    # an observation, not a verdict: a small edit of a mechanism function changes behaviour, but whether the property survives it is what the
                    # site rules decide; it is printed (NOTE) and recorded in the evidence so that a reviewer sees every such edit
                    ctx.note(f"{prop}-T2 {fi.where}: {text}")
                    ctx.count("small edits of mechanism functions (observations)")
        ctx.count("mechanism functions compared with their confirmed form", n)
        ctx.count("mechanism functions that changed by a small edit", changed)
        ctx.floor("mechanism functions of the property present in the tree", n, 8)
    return rule
