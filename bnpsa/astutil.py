"""Small AST helpers shared by the rules."""
from __future__ import annotations
import ast
from typing import Dict, Iterator, List, Optional, Tuple

_SCOPES = (ast.FunctionDef, ast.AsyncFunctionDef, ast.Lambda, ast.ClassDef)


def walk_local(node: ast.AST, include_root: bool = True) -> Iterator[ast.AST]:
    """ast.walk that does not descend into nested function / class / lambda bodies."""
    todo = [node]
    first = True
    while todo:
        n = todo.pop()
        if not first and isinstance(n, _SCOPES):
            continue
        if include_root or not first:
            yield n
        first = False
        todo.extend(reversed(list(ast.iter_child_nodes(n))))


def body_walk(func: ast.AST) -> Iterator[ast.AST]:
    """All nodes in the body of a function (not nested scopes, not the signature)."""
    for st in getattr(func, "body", []) if not isinstance(func, ast.Lambda) else [func.body]:
        if isinstance(st, _SCOPES):
            continue
        yield from walk_local(st)


def parents(root: ast.AST) -> Dict[ast.AST, ast.AST]:
    p = {}
    for n in ast.walk(root):
        for c in ast.iter_child_nodes(n):
            p[c] = n
    return p


def u(node: ast.AST) -> str:
    try:
        return ast.unparse(node)
    except Exception:
        return ast.dump(node)


def call_name(call: ast.Call) -> str:
    return u(call.func)


def calls(node: ast.AST, name: Optional[str] = None, local: bool = True) -> List[ast.Call]:
    it = walk_local(node) if local else ast.walk(node)
    out = []
    for n in it:
        if isinstance(n, ast.Call):
            if name is None or call_name(n) == name or call_name(n).endswith("." + name):
                out.append(n)
    return out


def func_calls(func: ast.AST, name: Optional[str] = None) -> List[ast.Call]:
    out = []
    for n in body_walk(func):
        if isinstance(n, ast.Call) and (name is None or call_name(n) == name or call_name(n).endswith("." + name)):
            out.append(n)
    return out


def statements(func: ast.AST) -> Iterator[ast.stmt]:
    for n in body_walk(func):
        if isinstance(n, ast.stmt):
            yield n


def _target_names(t: ast.AST) -> List[str]:
    if isinstance(t, ast.Name):
        return [t.id]
    if isinstance(t, (ast.Tuple, ast.List)):
        out = []
        for e in t.elts:
            out += _target_names(e)
        return out
    if isinstance(t, ast.Starred):
        return _target_names(t.value)
    return []


def assigned_names(func: ast.AST) -> Dict[str, int]:
    """How many times each local name is bound in the function body (assign, aug, for, with, comprehension excluded)."""
    cnt: Dict[str, int] = {}
    for n in body_walk(func):
        names: List[str] = []
        if isinstance(n, ast.Assign):
            for t in n.targets:
                names += _target_names(t)
        elif isinstance(n, (ast.AugAssign, ast.AnnAssign)):
            names += _target_names(n.target)
        elif isinstance(n, ast.For):
            names += _target_names(n.target)
        elif isinstance(n, ast.With):
            for it in n.items:
                if it.optional_vars is not None:
                    names += _target_names(it.optional_vars)
        elif isinstance(n, ast.NamedExpr):
            names += _target_names(n.target)
        elif isinstance(n, ast.ExceptHandler) and n.name:
            names.append(n.name)
        for x in names:
            cnt[x] = cnt.get(x, 0) + 1
    return cnt


def local_env(func: ast.AST, allow_params_rebound: bool = False) -> Dict[str, ast.AST]:
    """name -> defining expression, for locals bound exactly once by a plain assignment
    (tuple unpacking of a tuple/call gives element expressions / synthetic subscripts)."""
    cnt = assigned_names(func)
    params = set()
    if hasattr(func, "args"):
        a = func.args
        params = {x.arg for x in a.posonlyargs + a.args + a.kwonlyargs}
        if a.vararg:
            params.add(a.vararg.arg)
        if a.kwarg:
            params.add(a.kwarg.arg)
    env: Dict[str, ast.AST] = {}
    for n in body_walk(func):
        if isinstance(n, ast.Assign) and len(n.targets) == 1:
            t = n.targets[0]
            if isinstance(t, ast.Name):
                if cnt.get(t.id) == 1 and t.id not in params:
                    env[t.id] = n.value
            elif isinstance(t, (ast.Tuple, ast.List)):
                for i, e in enumerate(t.elts):
                    if isinstance(e, ast.Name) and cnt.get(e.id) == 1 and e.id not in params:
                        if isinstance(n.value, (ast.Tuple, ast.List)) and len(n.value.elts) == len(t.elts):
                            env[e.id] = n.value.elts[i]
                        else:
                            env[e.id] = ast.Subscript(value=n.value, slice=ast.Constant(value=i), ctx=ast.Load())
        elif isinstance(n, ast.AnnAssign) and isinstance(n.target, ast.Name) and n.value is not None:
            if cnt.get(n.target.id) == 1 and n.target.id not in params:
                env[n.target.id] = n.value
    return env


def always_terminates(stmts: List[ast.stmt]) -> bool:
    """Every path through the block ends in return/raise (syntactic, conservative: False when unsure)."""
    for s in stmts:
        if isinstance(s, (ast.Return, ast.Raise)):
            return True
        if isinstance(s, ast.If):
            if s.orelse and always_terminates(s.body) and always_terminates(s.orelse):
                return True
        if isinstance(s, ast.Try):
            body_ok = always_terminates(s.body) or (s.orelse and always_terminates(s.orelse))
            if s.finalbody and always_terminates(s.finalbody):
                return True
            if body_ok and all(always_terminates(h.body) for h in s.handlers):
                return True
        if isinstance(s, ast.With) and always_terminates(s.body):
            return True
        if isinstance(s, ast.Assert) and isinstance(s.test, ast.Constant) and s.test.value is False:
            return True
    return False


def always_raises(stmts: List[ast.stmt]) -> bool:
    """Every path through the block ends in `raise` and none returns (syntactic)."""
    for s in stmts:
        for n in walk_local(s):
            if isinstance(n, (ast.Return, ast.Break, ast.Continue)):
                return False
    for s in stmts:
        if isinstance(s, ast.Raise):
            return True
        if isinstance(s, ast.If) and s.orelse and always_raises(s.body) and always_raises(s.orelse):
            return True
        if isinstance(s, ast.Assert) and isinstance(s.test, ast.Constant) and s.test.value is False:
            return True
    return False


def raise_name(r: ast.Raise) -> str:
    e = r.exc
    if e is None:
        return ""
    if isinstance(e, ast.Call):
        return u(e.func).split(".")[-1]
    return u(e).split(".")[-1]


def is_self_attr(n: ast.AST, attr: Optional[str] = None, selfname: str = "self") -> bool:
    return isinstance(n, ast.Attribute) and isinstance(n.value, ast.Name) and n.value.id == selfname and \
        (attr is None or n.attr == attr)


def root_name(n: ast.AST) -> Optional[str]:
    """x for x.a.b[c].d(...)"""
    while True:
        if isinstance(n, ast.Name):
            return n.id
        if isinstance(n, (ast.Attribute, ast.Subscript, ast.Starred)):
            n = n.value
        elif isinstance(n, ast.Call):
            n = n.func
        else:
            return None


def names_in(n: ast.AST) -> set:
    return {x.id for x in ast.walk(n) if isinstance(x, ast.Name)}


def const_str(n: ast.AST) -> Optional[str]:
    if isinstance(n, ast.Constant) and isinstance(n.value, str):
        return n.value
    return None


def kw(call: ast.Call, name: str) -> Optional[ast.AST]:
    for k in call.keywords:
        if k.arg == name:
            return k.value
    return None


def arg(call: ast.Call, pos: int, name: Optional[str] = None) -> Optional[ast.AST]:
    if pos < len(call.args) and not any(isinstance(a, ast.Starred) for a in call.args[: pos + 1]):
        return call.args[pos]
    if name:
        return kw(call, name)
    return None


class _Subst(ast.NodeTransformer):
    def __init__(self, env, depth=0):
        self.env = env
        self.depth = depth

    def visit_Name(self, node):
        if isinstance(node.ctx, ast.Load) and node.id in self.env and self.env[node.id] is not None and self.depth < 25:
            import copy
            sub = {k: v for k, v in self.env.items() if k != node.id}
            return _Subst(sub, self.depth + 1).visit(copy.deepcopy(self.env[node.id]))
        return node


def inline_locals(expr: ast.AST, env: Dict[str, ast.AST]) -> ast.AST:
    """A copy of expr with single-assignment locals replaced by their defining expressions."""
    import copy
    return ast.fix_missing_locations(_Subst(env).visit(copy.deepcopy(expr)))


def single_return_expr(func: ast.AST) -> Optional[ast.AST]:
    """The returned expression of a function that has exactly one `return E` (locals inlined), else None."""
    rets = [n for n in body_walk(func) if isinstance(n, ast.Return)]
    if len(rets) != 1 or rets[0].value is None:
        return None
    return inline_locals(rets[0].value, local_env(func))


def class_inline_env(index, cls, selfname: str = "self") -> Dict[str, ast.AST]:
    """'self.m' (properties / cached properties) and 'self.m()' (argument-less methods) -> their single returned expression."""
    env: Dict[str, ast.AST] = {}
    for c in reversed(index.mro(cls)):
        for name, fi in c.methods.items():
            a = fi.node.args
            if len(a.args) != 1 or a.vararg or a.kwarg or a.kwonlyargs:
                continue
            e = straightline_return(fi.node)
            if e is None:
                e = single_return_expr(fi.node)
            if e is None:
                continue
            decs = " ".join(fi.decorators)
            if "property" in decs:
                env[f"{selfname}.{name}"] = e
            else:
                env[f"{selfname}.{name}()"] = e
    return env


def straightline_return(func: ast.AST) -> Optional[ast.AST]:
    """Returned expression of a function whose body is straight-line (assignments, asserts, docstring, one final return):
    assignments are applied in order, so re-bound names are handled.  None if the body has control flow."""
    env: Dict[str, ast.AST] = {}
    body = list(func.body)
    for s in body:
        if isinstance(s, ast.Expr) and isinstance(s.value, ast.Constant):
            continue
        if isinstance(s, ast.Assert):
            continue
        if isinstance(s, ast.Expr) and isinstance(s.value, ast.Call):
            continue  # a call for its effect (validation); it does not rebind a local
        if isinstance(s, ast.Assign) and len(s.targets) == 1:
            t = s.targets[0]
            v = inline_locals(s.value, env)
            if isinstance(t, ast.Name):
                env[t.id] = v
                continue
            if isinstance(t, (ast.Tuple, ast.List)) and all(isinstance(e, ast.Name) for e in t.elts):
                for i, e in enumerate(t.elts):
                    if isinstance(v, (ast.Tuple, ast.List)) and len(v.elts) == len(t.elts):
                        env[e.id] = v.elts[i]
                    else:
                        env[e.id] = ast.Subscript(value=v, slice=ast.Constant(value=i), ctx=ast.Load())
                continue
            if isinstance(t, ast.Subscript) and isinstance(t.value, ast.Name):
                # in-place store into a local array: model as a new value __store__(old, index, value)
                old = env.get(t.value.id, ast.Name(id=t.value.id, ctx=ast.Load()))
                env[t.value.id] = ast.Call(func=ast.Name(id="__store__", ctx=ast.Load()),
                                           args=[old, inline_locals(t.slice, env), v], keywords=[])
                continue
            return None
        if isinstance(s, ast.Return) and s.value is not None:
            return inline_locals(s.value, env)
        return None
    return None


def symbolic_state_after(func: ast.AST, selfname: str = "self"):
    """Symbolically run a straight-line method body: returns (attrs, locals) where attrs maps 'self.x' -> final expression in terms of the
    *initial* attribute values (written `self.x`) and parameters.  None if the body has control flow other than asserts / docstring / calls."""
    env: Dict[str, ast.AST] = {}
    attrs: Dict[str, ast.AST] = {}

    def cur(expr):
        # 1. attribute reads see the current value (or INIT.x, the value on entry); 2. locals are inlined (they are already in INIT terms)
        import copy

        class A(ast.NodeTransformer):
            def visit_Attribute(self, node):
                if isinstance(node.value, ast.Name) and node.value.id == selfname:
                    key = u(node)
                    if key in attrs:
                        return copy.deepcopy(attrs[key])
                    return ast.Attribute(value=ast.Name(id="INIT", ctx=ast.Load()), attr=node.attr, ctx=ast.Load())
                self.generic_visit(node)
                return node
        e = ast.fix_missing_locations(A().visit(copy.deepcopy(expr)))
        return inline_locals(e, env)
    for s in func.body:
        if isinstance(s, ast.Expr) and isinstance(s.value, (ast.Constant, ast.Call)):
            continue
        if isinstance(s, ast.Assert):
            continue
        if isinstance(s, ast.Assign) and len(s.targets) == 1:
            t = s.targets[0]
            v = cur(s.value)
            if isinstance(t, ast.Name):
                env[t.id] = v
                continue
            if isinstance(t, ast.Attribute) and isinstance(t.value, ast.Name) and t.value.id == selfname:
                attrs[u(t)] = v
                continue
            return None
        if isinstance(s, ast.AugAssign) and isinstance(s.target, (ast.Name, ast.Attribute)):
            # value-wise `t op= e` is `t = t op e`; whether the write is in place is the ownership rules' question (C20), not this one's
            t = s.target
            load = ast.Name(id=t.id, ctx=ast.Load()) if isinstance(t, ast.Name) else ast.Attribute(value=t.value, attr=t.attr, ctx=ast.Load())
            v = cur(ast.BinOp(left=load, op=s.op, right=s.value))
            if isinstance(t, ast.Name):
                env[t.id] = v
                continue
            if isinstance(t.value, ast.Name) and t.value.id == selfname:
                attrs[u(t)] = v
                continue
            return None
        if isinstance(s, ast.Return):
            break
        return None
    return attrs, env


def _ends(stmts) -> bool:
    if not stmts:
        return False
    last = stmts[-1]
    if isinstance(last, (ast.Return, ast.Raise, ast.Continue, ast.Break)):
        return True
    if isinstance(last, ast.If) and last.orelse:
        return _ends(last.body) and _ends(last.orelse)
    return False


def linear_body(node) -> list:
    """The main line of a function in the comparison normal form: an early exit `if c: ...return` is followed, in the `else`, by the rest of the function
    (bnpsa.normalize); this lists the statements as a reader sees them: the early-exit `if`, then the statements of its else branch, and so on."""
    out = []
    body = getattr(node, "body", node)
    if isinstance(node, ast.ClassDef) or not isinstance(body, list):
        return list(body) if isinstance(body, list) else []
    todo = list(body)
    while todo:
        s = todo.pop(0)
        out.append(s)
        if isinstance(s, ast.If) and s.orelse and _ends(s.body) and not (len(s.orelse) == 1 and isinstance(s.orelse[0], ast.If) and False):
            todo = list(s.orelse) + todo
    return out
