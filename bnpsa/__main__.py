import sys
from .cli import main
sys.exit(main())
