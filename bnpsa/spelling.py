"""Spellings that never change what a function computes, and the alignment of the current tree's spelling with the reference tree's.

`_Canon` maps to one form: the wording of exception messages, the orientation of an ordering comparison, the operand order of == / !=, the spelling of an
emptiness test (len(x) > 0, len(x) != 0, len(x), not len(x) == 0 ...), `not a is b`, list vs tuple literals handed to numpy's sequence functions, an explicit 0
as lower slice bound, annotations of locals.  `_alpha` renames the variables bound by lambdas and comprehensions positionally.

`spell_align(fn, ref_src)` walks the current function and its reference form in parallel and replaces every statement (or statement header) of the current
function whose canonical form equals the reference's by the reference statement itself.  After it, a rule sees the reference spelling wherever nothing but the
spelling changed, and the real text wherever something else changed."""
from __future__ import annotations
import ast
import copy


def _u(n):
    if n is None:
        return "<none>"
    try:
        return ast.unparse(n)
    except Exception:
        return ast.dump(n)[:80]


def _alpha(fn):
    """copy of the function with the bound variables of lambdas and comprehensions renamed positionally (their names never matter)"""
    import copy
    fn = copy.deepcopy(fn)
    counter = [0]

    def rename(node, mapping):
        skip = set()
        if isinstance(node, (ast.ListComp, ast.SetComp, ast.DictComp, ast.GeneratorExp)):
            skip = {id(y) for y in ast.walk(node.generators[0].iter)}        # evaluated in the enclosing scope
        for x in ast.walk(node):
            if id(x) in skip:
                continue
            if isinstance(x, ast.Name) and x.id in mapping:
                x.id = mapping[x.id]
            elif isinstance(x, ast.arg) and x.arg in mapping:
                x.arg = mapping[x.arg]
    for n in ast.walk(fn):
        if isinstance(n, ast.Lambda):
            a = n.args
            if a.kwonlyargs or a.vararg or a.kwarg:
                continue
            names = [x.arg for x in a.posonlyargs + a.args]
            m = {}
            for nm in names:
                m[nm] = f"_p{counter[0]}"
                counter[0] += 1
            rename(n, m)
        elif isinstance(n, (ast.ListComp, ast.SetComp, ast.DictComp, ast.GeneratorExp)):
            m = {}
            for g in n.generators:
                for x in ast.walk(g.target):
                    if isinstance(x, ast.Name) and x.id not in m:
                        m[x.id] = f"_c{counter[0]}"
                        counter[0] += 1
            rename(n, m)
    return fn


class _Canon(ast.NodeTransformer):
    """Spellings that do not change what is computed are mapped to one form before two versions of a function are compared: the wording of exception
    messages, the orientation of a comparison, the operand order of == / !=, the spelling of an emptiness test, list vs tuple literals handed to numpy's
    sequence functions, an explicit 0 as lower slice bound, annotations of locals."""
    SEQ_FUNCS = {"np.concatenate", "np.hstack", "np.vstack", "np.stack", "np.column_stack"}

    @staticmethod
    def _is_msg(a) -> bool:
        if isinstance(a, ast.JoinedStr) or (isinstance(a, ast.Constant) and isinstance(a.value, str)):
            return True
        if isinstance(a, ast.BinOp) and isinstance(a.op, (ast.Mod, ast.Add)) and (_Canon._is_msg(a.left) or _Canon._is_msg(a.right)):
            return True
        if isinstance(a, ast.Call) and isinstance(a.func, ast.Attribute) and a.func.attr == "format" and _Canon._is_msg(a.func.value):
            return True
        return False

    GENERIC_ERRORS = {"Exception", "ValueError", "TypeError", "RuntimeError"}

    def visit_Raise(self, node):
        self.generic_visit(node)
        if isinstance(node.exc, ast.Call):
            node.exc.args = [ast.Constant(value="<msg>") if self._is_msg(a) else a for a in node.exc.args]
            if isinstance(node.exc.func, ast.Name) and node.exc.func.id in self.GENERIC_ERRORS:
                node.exc.func = ast.Name(id="<Error>", ctx=ast.Load())       # which of the generic built-in errors is raised is not part of any property
        elif isinstance(node.exc, ast.Name) and node.exc.id in self.GENERIC_ERRORS:
            node.exc = ast.Call(func=ast.Name(id="<Error>", ctx=ast.Load()), args=[], keywords=[])
        return node

    def visit_Return(self, node):
        self.generic_visit(node)
        if isinstance(node.value, ast.Constant) and node.value.value is None:
            node.value = None
        return node

    def visit_AnnAssign(self, node):
        self.generic_visit(node)
        if node.value is not None and node.simple:
            return ast.copy_location(ast.Assign(targets=[node.target], value=node.value), node)
        return node

    def visit_Slice(self, node):
        self.generic_visit(node)
        if isinstance(node.lower, ast.Constant) and node.lower.value == 0 and type(node.lower.value) is int:
            node.lower = None
        return node

    def visit_Call(self, node):
        self.generic_visit(node)
        if isinstance(node.func, ast.Name) and node.func.id in ("dict", "list", "tuple") and not node.args and not node.keywords:
            return ast.copy_location({"dict": ast.Dict(keys=[], values=[]), "list": ast.List(elts=[], ctx=ast.Load()), "tuple": ast.Tuple(elts=[], ctx=ast.Load())}[node.func.id], node)
        if _u(node.func) in self.SEQ_FUNCS and node.args and isinstance(node.args[0], ast.List):
            node.args[0] = ast.Tuple(elts=node.args[0].elts, ctx=ast.Load())
        fn = _u(node.func)
        # element-wise functions that are symmetric in their two operands: one operand order
        if fn in self.SYMMETRIC and len(node.args) == 2 and not node.keywords and not any(isinstance(a, ast.Starred) for a in node.args):
            if ast.dump(node.args[0]) > ast.dump(node.args[1]):
                node.args = [node.args[1], node.args[0]]
        # np.where(~m, a, b) == np.where(m, b, a); np.where(x != y, a, b) == np.where(x == y, b, a)
        if fn == "np.where" and len(node.args) == 3 and not node.keywords:
            c = node.args[0]
            inner, wrap = c, None
            if isinstance(c, ast.Subscript) and self._is_newaxis(c.slice):
                inner, wrap = c.value, c
            flipped = None
            if isinstance(inner, ast.UnaryOp) and isinstance(inner.op, ast.Invert):
                flipped = inner.operand
            elif isinstance(inner, ast.Compare) and len(inner.ops) == 1 and isinstance(inner.ops[0], ast.NotEq):
                flipped = ast.Compare(left=inner.left, ops=[ast.Eq()], comparators=inner.comparators)
            if flipped is not None:
                cond = flipped if wrap is None else ast.Subscript(value=flipped, slice=wrap.slice, ctx=ast.Load())
                node.args = [cond, node.args[2], node.args[1]]
        return node

    SYMMETRIC = {"np.maximum", "np.minimum", "np.logical_and", "np.logical_or", "np.logical_xor", "np.bitwise_and", "np.bitwise_or", "np.add", "np.multiply",
                 "np.equal", "np.not_equal", "np.fmax", "np.fmin"}

    @staticmethod
    def _is_newaxis(sl) -> bool:
        t = _u(sl)
        return t in ("(:, None)", "(:, np.newaxis)", ":, None", ":, np.newaxis", "(..., None)", "(..., np.newaxis)")

    @staticmethod
    def _nonempty(x):
        return ast.Call(func=ast.Name(id="__nonempty__", ctx=ast.Load()), args=[x], keywords=[])

    def visit_Compare(self, node):
        self.generic_visit(node)
        if len(node.ops) != 1:
            return node
        l, r, op = node.left, node.comparators[0], node.ops[0]
        if isinstance(op, (ast.Gt, ast.GtE)):
            l, r, op = r, l, (ast.Lt() if isinstance(op, ast.Gt) else ast.LtE())
        is_len = lambda e: isinstance(e, ast.Call) and isinstance(e.func, ast.Name) and e.func.id == "len" and len(e.args) == 1
        const = lambda e, v: isinstance(e, ast.Constant) and type(e.value) is int and e.value == v
        # emptiness tests
        if is_len(r) and ((isinstance(op, ast.Lt) and const(l, 0)) or (isinstance(op, ast.LtE) and const(l, 1)) or (isinstance(op, ast.NotEq) and const(l, 0))):
            return self._nonempty(r.args[0])
        if is_len(l) and isinstance(op, ast.NotEq) and const(r, 0):
            return self._nonempty(l.args[0])
        if (is_len(l) and ((isinstance(op, ast.Eq) and const(r, 0)) or (isinstance(op, ast.Lt) and const(r, 1)) or (isinstance(op, ast.LtE) and const(r, 0)))):
            return ast.UnaryOp(op=ast.Not(), operand=self._nonempty(l.args[0]))
        if is_len(r) and isinstance(op, ast.Eq) and const(l, 0):
            return ast.UnaryOp(op=ast.Not(), operand=self._nonempty(r.args[0]))
        if isinstance(op, (ast.Eq, ast.NotEq)) and ast.dump(l) > ast.dump(r):
            l, r = r, l
        return ast.copy_location(ast.Compare(left=l, ops=[op], comparators=[r]), node)

    def visit_UnaryOp(self, node):
        self.generic_visit(node)
        if isinstance(node.op, ast.Not):
            o = node.operand
            if isinstance(o, ast.Compare) and len(o.ops) == 1 and isinstance(o.ops[0], (ast.Is, ast.IsNot, ast.In, ast.NotIn)):
                flip = {ast.Is: ast.IsNot, ast.IsNot: ast.Is, ast.In: ast.NotIn, ast.NotIn: ast.In}[type(o.ops[0])]
                return ast.copy_location(ast.Compare(left=o.left, ops=[flip()], comparators=o.comparators), node)
            if isinstance(o, ast.Call) and isinstance(o.func, ast.Name) and o.func.id == "len" and len(o.args) == 1:
                return ast.copy_location(ast.UnaryOp(op=ast.Not(), operand=self._nonempty(o.args[0])), node)
        return node

    def _test(self, t):
        if isinstance(t, ast.Call) and isinstance(t.func, ast.Name) and t.func.id == "len" and len(t.args) == 1:
            return self._nonempty(t.args[0])
        if isinstance(t, ast.Call) and isinstance(t.func, ast.Name) and t.func.id == "bool" and len(t.args) == 1:
            return self._test(t.args[0])
        if isinstance(t, ast.BoolOp):
            t.values = [self._test(v) for v in t.values]
        return t

    def visit_If(self, node):
        self.generic_visit(node)
        node.test = self._test(node.test)
        return node
    visit_While = visit_If
    visit_IfExp = visit_If


def _canon_fn(fn):
    fn = _Canon().visit(fn)
    ast.fix_missing_locations(fn)
    return fn



def canon_dump(node) -> str:
    n = copy.deepcopy(node)
    n = _alpha(n)
    n = _Canon().visit(n)
    if isinstance(n, ast.Call):
        n.keywords = sorted(n.keywords, key=lambda k: k.arg or "")
    for x in ast.walk(n):
        if isinstance(x, ast.Call):
            x.keywords = sorted(x.keywords, key=lambda k: k.arg or "")
    return ast.dump(n)


def _relocate(ref_node, cur_node):
    """the reference node, reported at the current node's position"""
    n = copy.deepcopy(ref_node)
    ln = getattr(cur_node, "lineno", None)
    if ln is not None:
        base = getattr(n, "lineno", ln)
        for x in ast.walk(n):
            if hasattr(x, "lineno"):
                x.lineno = ln + max(0, x.lineno - base)
                if getattr(x, "end_lineno", None) is not None:
                    x.end_lineno = max(x.lineno, ln + max(0, x.end_lineno - base))
    return n


def _is_doc(st) -> bool:
    return isinstance(st, ast.Expr) and isinstance(st.value, ast.Constant) and isinstance(st.value.value, str)


_BLOCKS = {ast.If: ("body", "orelse"), ast.For: ("body", "orelse"), ast.AsyncFor: ("body", "orelse"), ast.While: ("body", "orelse"), ast.With: ("body",),
           ast.AsyncWith: ("body",), ast.Try: ("body", "orelse", "finalbody")}
_HEADERS = {ast.If: ("test",), ast.While: ("test",), ast.For: ("target", "iter"), ast.AsyncFor: ("target", "iter")}


def _other_conditional_form(st):
    """`x = a if c else b`  <->  `if c: x = a` / `else: x = b` (x a plain name): the other form of the statement, or None"""
    if isinstance(st, ast.Assign) and len(st.targets) == 1 and isinstance(st.targets[0], ast.Name) and isinstance(st.value, ast.IfExp):
        v = st.value
        mk = lambda e: ast.Assign(targets=[ast.Name(id=st.targets[0].id, ctx=ast.Store())], value=e, lineno=st.lineno)
        return ast.fix_missing_locations(ast.If(test=v.test, body=[mk(v.body)], orelse=[mk(v.orelse)], lineno=st.lineno, col_offset=0))
    if isinstance(st, ast.If) and len(st.body) == 1 and len(st.orelse) == 1:
        a, b = st.body[0], st.orelse[0]
        if isinstance(a, ast.Assign) and isinstance(b, ast.Assign) and len(a.targets) == 1 and len(b.targets) == 1 and isinstance(a.targets[0], ast.Name) and \
                isinstance(b.targets[0], ast.Name) and a.targets[0].id == b.targets[0].id:
            return ast.fix_missing_locations(ast.Assign(targets=[ast.Name(id=a.targets[0].id, ctx=ast.Store())], value=ast.IfExp(test=st.test, body=a.value, orelse=b.value),
                                                        lineno=st.lineno, col_offset=0))
    return None


class _Aligner:
    def __init__(self):
        self.n = 0

    def same(self, a, b) -> bool:
        try:
            return canon_dump(a) == canon_dump(b)
        except Exception:
            return False

    def _negation_of(self, a, b) -> bool:
        """test a is the negation of test b (canonically)"""
        def t(e):
            w = ast.If(test=copy.deepcopy(e), body=[ast.Pass()], orelse=[])
            ast.fix_missing_locations(w)
            return ast.dump(_Canon().visit(_alpha(w)).test)
        try:
            na = ast.UnaryOp(op=ast.Not(), operand=copy.deepcopy(a))
            nb = ast.UnaryOp(op=ast.Not(), operand=copy.deepcopy(b))
            return t(na) == t(b) or t(a) == t(nb)
        except Exception:
            return False

    def pair(self, cur, ref):
        """the statement to keep for `cur`, given its counterpart `ref`; None if they are not counterparts"""
        if ast.dump(cur) == ast.dump(ref):
            return cur
        if isinstance(cur, (ast.FunctionDef, ast.AsyncFunctionDef, ast.ClassDef)):
            return cur if type(cur) is type(ref) and cur.name == ref.name else None
        if self.same(cur, ref):
            self.n += 1
            return _relocate(ref, cur)
        if isinstance(cur, ast.If) and isinstance(ref, ast.If) and cur.orelse and ref.orelse and self._negation_of(cur.test, ref.test):
            # the same decision with the branches the other way round (`if not len(x): A else: B` against `if len(x) == 0` ... the polarity step of the normal
            # form un-negates `not e` only): take the reference's test and order
            cur.test, cur.body, cur.orelse = copy.deepcopy(ref.test), cur.orelse, cur.body
            self.n += 1
        alt = _other_conditional_form(cur)
        if alt is not None and type(alt) is type(ref) and self.same(alt, ref):
            self.n += 1
            return _relocate(ref, cur)
        if type(cur) is type(ref) and type(cur) in _BLOCKS:
            for h in _HEADERS.get(type(cur), ()):
                a, b = getattr(cur, h), getattr(ref, h)
                if ast.dump(a) != ast.dump(b) and self.same(a, b):
                    setattr(cur, h, _relocate(b, a))
                    self.n += 1
            if isinstance(cur, (ast.With, ast.AsyncWith)) and len(cur.items) == len(ref.items):
                for i, (a, b) in enumerate(zip(cur.items, ref.items)):
                    same_vars = (a.optional_vars is None and b.optional_vars is None) or (a.optional_vars is not None and b.optional_vars is not None and
                                                                                                  ast.dump(a.optional_vars) == ast.dump(b.optional_vars))
                    if ast.dump(a) != ast.dump(b) and same_vars and self.same(a.context_expr, b.context_expr):
                        cur.items[i] = copy.deepcopy(b)
                        self.n += 1
            for f in _BLOCKS[type(cur)]:
                setattr(cur, f, self.block(getattr(cur, f), getattr(ref, f)))
            if isinstance(cur, ast.Try) and len(cur.handlers) == len(ref.handlers):
                for hc, hr in zip(cur.handlers, ref.handlers):
                    hc.body = self.block(hc.body, hr.body)
            return cur
        return None

    def block(self, cur, ref):
        cur, ref = list(cur), list(ref)
        out_pre, out_suf = [], []
        i = 0
        while i < len(cur) and i < len(ref):
            k = self.pair(cur[i], ref[i])
            if k is None:
                break
            out_pre.append(k)
            i += 1
        j = 0
        while j < len(cur) - i and j < len(ref) - i:
            k = self.pair(cur[-1 - j], ref[-1 - j])
            if k is None:
                break
            out_suf.append(k)
            j += 1
        mid = cur[i:len(cur) - j]
        return out_pre + mid + list(reversed(out_suf))


_ref_cache = {}


def spell_align(fn, ref_src: str) -> int:
    """in place; number of statements / headers whose spelling was replaced by the reference's"""
    ref_fn = _ref_cache.get(ref_src)
    if ref_fn is None:
        try:
            ref_fn = ast.parse(ref_src).body[0]
        except (SyntaxError, IndexError):
            return 0
        _ref_cache[ref_src] = ref_fn
    if not isinstance(ref_fn, (ast.FunctionDef, ast.AsyncFunctionDef)) or not isinstance(fn, (ast.FunctionDef, ast.AsyncFunctionDef)):
        return 0
    cb, rb = list(fn.body), list(ref_fn.body)
    doc = []
    if cb and _is_doc(cb[0]):
        doc, cb = [cb[0]], cb[1:]
    if rb and _is_doc(rb[0]):
        rb = rb[1:]
    al = _Aligner()
    new = al.block(cb, rb)
    fn.body = (doc + new) or fn.body
    return al.n


def changed_lines(ref_src: str, now_fn) -> int:
    """number of source lines (canonical spelling, no docstring / annotations / decorators) in which the function differs from its reference form: the larger of
    the removed and the added line counts of a line diff"""
    import difflib
    try:
        r = ast.parse(ref_src).body[0]
    except (SyntaxError, IndexError):
        return 10 ** 6

    def lines(fn):
        fn = _canon_fn(_alpha(fn))
        b = fn.body
        if b and isinstance(b[0], ast.Expr) and isinstance(b[0].value, ast.Constant) and isinstance(b[0].value.value, str):
            fn.body = b[1:] or [ast.Pass()]
        fn.decorator_list = []
        fn.returns = None
        for a in fn.args.args + fn.args.kwonlyargs + fn.args.posonlyargs:
            a.annotation = None
        return ast.unparse(fn).split("\n")
    a, b = lines(r), lines(now_fn)
    rem = add = 0
    for tag, i1, i2, j1, j2 in difflib.SequenceMatcher(None, a, b, autojunk=False).get_opcodes():
        if tag != "equal":
            rem += i2 - i1
            add += j2 - j1
    return max(rem, add)
