"""E5: schemas - ordered field lists of bnpdataclasses, buffer-class -> dataclass bindings, type -> handler tables read from the code."""
from __future__ import annotations
import ast
from typing import Dict, List, Optional, Tuple

from .index import Index, ClassInfo, AnchorMissing
from .astutil import u, body_walk


def is_bnpdataclass(ci: ClassInfo) -> bool:
    return any(u(d).split("(")[0].split(".")[-1] == "bnpdataclass" for d in ci.node.decorator_list)


def fields_of(ix: Index, ci: ClassInfo) -> List[Tuple[str, str, ast.AST]]:
    """(name, type text, annotation node) in dataclass order: base-class fields first, overrides keep their first position."""
    order: List[str] = []
    types: Dict[str, Tuple[str, ast.AST]] = {}
    for c in reversed(ix.mro(ci)):
        for s in c.node.body:
            if isinstance(s, ast.AnnAssign) and isinstance(s.target, ast.Name):
                if s.target.id not in types:
                    order.append(s.target.id)
                types[s.target.id] = (u(s.annotation), s.annotation)
    return [(n, types[n][0], types[n][1]) for n in order]


def resolve_dataclass(ix: Index, owner: ClassInfo, expr: ast.AST) -> Optional[ClassInfo]:
    r = ix.resolve_name(owner.module, u(expr))
    return r if isinstance(r, ClassInfo) else None


def buffer_bindings(ix: Index) -> List[Tuple[ClassInfo, ClassInfo]]:
    """All FileBuffer subclasses that bind a dataclass (own or inherited `dataclass = X`)."""
    base = ix.cls("bionumpy.io.file_buffers", "FileBuffer")
    out = []
    for c in ix.subclasses(base, strict=True):
        if c.module.name.startswith("bionumpy._legacy") or c.module.name.endswith("._legacy"):
            continue
        owner = None
        for k in ix.mro(c):
            if "dataclass" in k.attrs:
                owner = k
                break
        if owner is None:
            continue
        dc = resolve_dataclass(ix, owner, owner.attrs["dataclass"])
        if dc is not None:
            out.append((c, dc))
    return out


PRIMITIVES = {"int", "str", "float", "bool", "SequenceID", "Optional[int]", "Optional[float]", "List[int]", "List[float]", "List[bool]", "List[str]"}


def is_encoding_type(ix: Index, mi, text: str) -> bool:
    """A field annotated with an Encoding *instance* (StrandEncoding, QualityEncoding, ...)."""
    if text in PRIMITIVES or "[" in text:
        return False
    seen = 0
    name = text
    cur = mi
    while seen < 8:
        seen += 1
        if name in cur.imports:
            m, attr = cur.imports[name]
            full = m if attr is None else m
            if attr is None or m not in ix.modules:
                return name.endswith("Encoding")
            cur = ix.modules[m]
            name = attr
            continue
        if name in cur.globals_:
            v = cur.globals_[name]
            if isinstance(v, ast.Name):
                name = v.id
                continue
            if isinstance(v, ast.Call):
                r = ix.resolve_name(cur, u(v.func))
                if isinstance(r, ClassInfo):
                    return any(k.name in ("Encoding", "OneToOneEncoding") for k in ix.mro(r))
                return u(v.func).endswith("Encoding") or u(v.func).endswith("EncodingFactory")
            return False
        break
    return text.endswith("Encoding")


def union_alternatives(node: ast.AST) -> Optional[List[str]]:
    if isinstance(node, ast.Subscript) and u(node.value) in ("Union", "typing.Union"):
        sl = node.slice
        elts = sl.elts if isinstance(sl, ast.Tuple) else [sl]
        return [u(e) for e in elts]
    return None


def parser_table_types(ix: Index) -> List[str]:
    f = ix.func("bionumpy.io.file_buffers", "FileBuffer._get_parser")
    for n in body_walk(f.node):
        if isinstance(n, ast.Assign) and u(n.targets[0]) == "parsers" and isinstance(n.value, ast.List):
            out = []
            for e in n.value.elts:
                if isinstance(e, ast.Tuple) and len(e.elts) == 2:
                    out.append(u(e.elts[0]))
            return out
    raise AnchorMissing("parser table `parsers` not found in FileBuffer._get_parser")


def writer_table_types(ix: Index) -> List[str]:
    f = ix.func("bionumpy.io.dump_csv", "get_column.<locals>.get_func_for_datatype")
    for n in body_walk(f.node):
        if isinstance(n, ast.Assign) and u(n.targets[0]) == "funcs" and isinstance(n.value, ast.Dict):
            return [u(k) for k in n.value.keys]
    raise AnchorMissing("writer table `funcs` not found in dump_csv.get_column")
