"""Idioms whose correctness depends on a side condition that is easy to forget.

DELTA ARRAY: `a = np.zeros/ones/full(total)`, then point stores at positions derived from row starts (`a[starts] = jump`, `a[np.cumsum(lengths)[:-1]] += step`), then
`np.cumsum(a)`.  Rows of length 0 have the same start as their neighbour: NumPy keeps only one of the stores (also for `+=`), so the idiom is right only when no row
is empty - or when the code filters / handles empty rows explicitly.  The instances of the reference tree were read (CONFIRMED, with the reason rows cannot be
empty there); a new instance without any visible treatment of empty rows is reported."""
from __future__ import annotations
import ast

from .astutil import u

CONFIRMED = {
    ("bionumpy.io.file_buffers", "move_intervals_to_right_padded_array"): "rows without padding are removed first (np.flatnonzero(z_lens))",
    ("bionumpy.io.file_buffers", "wierd_padding"): "unused helper; same construction over non-zero padding lengths",
    ("bionumpy.io.strops", "_build_power_array"): "rows are number texts: never empty (empty fields are masked out by parse_with_missing before parsing)",
    ("bionumpy.util.ascii_hash", "column_index_array"): "outside the 20 properties; used for hashing non-empty names",
}
_ALLOC = ("np.zeros", "np.ones", "np.full", "np.empty", "np.zeros_like", "np.ones_like", "np.full_like")
_ROWISH = ("starts", "ends", "cumsum", "offsets", "lengths", "row_starts", "row_ends")
_EMPTY_AWARE = ("flatnonzero", "nonzero(", "np.repeat", "np.add.at", "np.unique", "lengths > 0", "lengths != 0", "lengths == 0", "lens > 0", "lens != 0", "np.maximum.accumulate")


def delta_array_sites(ix, modules):
    out, scanned = [], 0
    for mod in modules:
        if mod not in ix.modules:
            continue
        for fi in ix.module(mod).functions.values():
            if isinstance(fi.node, ast.Lambda):
                continue
            scanned += 1
            allocs = {}
            for n in ast.walk(fi.node):
                if isinstance(n, ast.Assign) and len(n.targets) == 1 and isinstance(n.targets[0], ast.Name) and isinstance(n.value, ast.Call) and u(n.value.func) in _ALLOC:
                    allocs[n.targets[0].id] = n
            if not allocs:
                continue
            for name in allocs:
                stores = []
                for n in ast.walk(fi.node):
                    tg = None
                    if isinstance(n, ast.Assign) and isinstance(n.targets[0], ast.Subscript) and u(n.targets[0].value) == name:
                        tg = n.targets[0]
                    elif isinstance(n, ast.AugAssign) and isinstance(n.target, ast.Subscript) and u(n.target.value) == name:
                        tg = n.target
                    if tg is not None and any(k in u(tg.slice) for k in _ROWISH):
                        stores.append(n)
                if not stores:
                    continue
                acc = [c for c in ast.walk(fi.node) if isinstance(c, ast.Call) and ((u(c.func) in ("np.cumsum", "np.add.accumulate") and c.args and u(c.args[0]) == name) or
                                                                                   (isinstance(c.func, ast.Attribute) and c.func.attr == "cumsum" and u(c.func.value) == name))]
                if not acc:
                    continue
                text = u(fi.node)
                aware = any(k in text for k in _EMPTY_AWARE)
                out.append((fi, name, stores, aware))
    return out, scanned


def check_delta_arrays(ctx, modules, prefix):
    sites, scanned = delta_array_sites(ctx.index, modules)
    for fi, name, stores, aware in sites:
        key = (fi.module.name, fi.qualname)
        if key in CONFIRMED:
            ctx.ob(fi.where, f"cumulative-sum construction of `{name}` from point stores at row starts: confirmed instance ({CONFIRMED[key]})", True, "", key=f"{prefix}|delta-array|{key[0]}|{key[1]}", definite=True)
            continue
        ctx.ob(fi.where, f"`{name}` is filled by point stores at row starts and then accumulated: two rows with the same start (an EMPTY row and its neighbour) get one store "
               "instead of two, so every later row is shifted; the construction must remove or handle empty rows", aware, "; ".join(u(s)[:80] for s in stores),
               key=f"{prefix}|delta-array|{key[0]}|{key[1]}", definite=True)
    ctx.count("functions scanned for the delta-array idiom", scanned)
    return len(sites)


def uniformity_shortcut_sites(ix, modules):
    """`if np.all(W == W[0]): ... Z[0] ...`: a shortcut for "all records alike" that checks one per-record array (W) but then uses the first element of
    ANOTHER per-record array (Z) for every record.  Uniform W does not make Z uniform unless Z is a function of W (two read lengths 9 and 10 pack into the
    same number of bytes)."""
    out, scanned = [], 0
    for mod in modules:
        if mod not in ix.modules:
            continue
        for fi in ix.module(mod).functions.values():
            if isinstance(fi.node, ast.Lambda):
                continue
            scanned += 1
            for t in [x for x in ast.walk(fi.node) if isinstance(x, ast.If)]:
                ws = set()
                for c in ast.walk(t.test):
                    if isinstance(c, ast.Call) and u(c.func) in ("np.all", "all") and c.args and isinstance(c.args[0], ast.Compare) and isinstance(c.args[0].ops[0], ast.Eq):
                        l, r = c.args[0].left, c.args[0].comparators[0]
                        for a, b in ((l, r), (r, l)):
                            if isinstance(a, ast.Name) and isinstance(b, ast.Subscript) and u(b.value) == a.id and u(b.slice) == "0":
                                ws.add(a.id)
                if not ws:
                    continue
                for st in t.body:
                    for z in ast.walk(st):
                        if isinstance(z, ast.Subscript) and isinstance(z.value, ast.Name) and u(z.slice) == "0" and z.value.id not in ws and isinstance(z.ctx, ast.Load):
                            out.append((fi, sorted(ws), z.value.id, t))
    return out, scanned


def check_uniformity_shortcuts(ctx, modules, prefix):
    from .astutil import local_env
    sites, scanned = uniformity_shortcut_sites(ctx.index, modules)
    for fi, ws, z, t in sites:
        env = local_env(fi.node)
        # Z determined by W alone (Z = f(W)) is fine; W = f(Z) is not (f need not be injective)
        zdef = env.get(z)
        z_from_w = zdef is not None and {n.id for n in ast.walk(zdef) if isinstance(n, ast.Name)} & set(ws) and not any(
            isinstance(n, ast.Name) and n.id not in ws and n.id in env for n in ast.walk(zdef))
        ctx.ob(fi.where, f"the all-records-alike shortcut tests `{', '.join(ws)}` and then uses `{z}[0]` for every record: `{z}` must be determined by the tested array "
               f"(equal `{ws[0]}` does not imply equal `{z}`)", bool(z_from_w), u(t.test)[:100], key=f"{prefix}|uniformity-shortcut|{fi.module.name}|{fi.qualname}|{z}", definite=True)
    ctx.count("functions scanned for all-alike shortcuts", scanned)
    return len(sites)
