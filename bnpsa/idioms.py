"""Idioms whose correctness depends on a side condition that is easy to forget.

DELTA ARRAY: `a = np.zeros/ones/full(total)`, then point stores at positions derived from row starts (`a[starts] = jump`, `a[np.cumsum(lengths)[:-1]] += step`), then
`np.cumsum(a)`.  Rows of length 0 have the same start as their neighbour: NumPy keeps only one of the stores (also for `+=`), so the idiom is right only when no row
is empty - or when the code filters / handles empty rows explicitly.  The instances of the reference tree were read (CONFIRMED, with the reason rows cannot be
empty there); a new instance without any visible treatment of empty rows is reported."""
from __future__ import annotations
import ast

from .astutil import u

CONFIRMED = {
    ("bionumpy.io.file_buffers", "move_intervals_to_right_padded_array"): "rows without padding are removed first (np.flatnonzero(z_lens))",
    ("bionumpy.io.file_buffers", "wierd_padding"): "unused helper; same construction over non-zero padding lengths",
    ("bionumpy.io.strops", "_build_power_array"): "rows are number texts: never empty (empty fields are masked out by parse_with_missing before parsing)",
    ("bionumpy.util.ascii_hash", "column_index_array"): "outside the 20 properties; used for hashing non-empty names",
}
_ALLOC = ("np.zeros", "np.ones", "np.full", "np.empty", "np.zeros_like", "np.ones_like", "np.full_like")
_ROWISH = ("starts", "ends", "cumsum", "offsets", "lengths", "row_starts", "row_ends")
_EMPTY_AWARE = ("flatnonzero", "nonzero(", "np.repeat", "np.add.at", "np.unique", "lengths > 0", "lengths != 0", "lengths == 0", "lens > 0", "lens != 0", "np.maximum.accumulate")


def delta_array_sites(ix, modules):
    out, scanned = [], 0
    for mod in modules:
        if mod not in ix.modules:
            continue
        for fi in ix.module(mod).functions.values():
            if isinstance(fi.node, ast.Lambda):
                continue
            scanned += 1
            allocs = {}
            for n in ast.walk(fi.node):
                if isinstance(n, ast.Assign) and len(n.targets) == 1 and isinstance(n.targets[0], ast.Name) and isinstance(n.value, ast.Call) and u(n.value.func) in _ALLOC:
                    allocs[n.targets[0].id] = n
            if not allocs:
                continue
            for name in allocs:
                stores = []
                for n in ast.walk(fi.node):
                    tg = None
                    if isinstance(n, ast.Assign) and isinstance(n.targets[0], ast.Subscript) and u(n.targets[0].value) == name:
                        tg = n.targets[0]
                    elif isinstance(n, ast.AugAssign) and isinstance(n.target, ast.Subscript) and u(n.target.value) == name:
                        tg = n.target
                    if tg is not None and any(k in u(tg.slice) for k in _ROWISH):
                        stores.append(n)
                if not stores:
                    continue
                acc = [c for c in ast.walk(fi.node) if isinstance(c, ast.Call) and ((u(c.func) in ("np.cumsum", "np.add.accumulate") and c.args and u(c.args[0]) == name) or
                                                                                   (isinstance(c.func, ast.Attribute) and c.func.attr == "cumsum" and u(c.func.value) == name))]
                if not acc:
                    continue
                text = u(fi.node)
                aware = any(k in text for k in _EMPTY_AWARE)
                out.append((fi, name, stores, aware))
    return out, scanned


def check_delta_arrays(ctx, modules, prefix):
    sites, scanned = delta_array_sites(ctx.index, modules)
    for fi, name, stores, aware in sites:
        key = (fi.module.name, fi.qualname)
        if key in CONFIRMED:
            ctx.ob(fi.where, f"cumulative-sum construction of `{name}` from point stores at row starts: confirmed instance ({CONFIRMED[key]})", True, "", key=f"{prefix}|delta-array|{key[0]}|{key[1]}", definite=True)
            continue
        ctx.ob(fi.where, f"`{name}` is filled by point stores at row starts and then accumulated: two rows with the same start (an EMPTY row and its neighbour) get one store "
               "instead of two, so every later row is shifted; the construction must remove or handle empty rows", aware, "; ".join(u(s)[:80] for s in stores),
               key=f"{prefix}|delta-array|{key[0]}|{key[1]}", definite=True)
    ctx.count("functions scanned for the delta-array idiom", scanned)
    return len(sites)


def uniformity_shortcut_sites(ix, modules):
    """`if np.all(W == W[0]): ... Z[0] ...`: a shortcut for "all records alike" that checks one per-record array (W) but then uses the first element of
    ANOTHER per-record array (Z) for every record.  Uniform W does not make Z uniform unless Z is a function of W (two read lengths 9 and 10 pack into the
    same number of bytes)."""
    out, scanned = [], 0
    for mod in modules:
        if mod not in ix.modules:
            continue
        for fi in ix.module(mod).functions.values():
            if isinstance(fi.node, ast.Lambda):
                continue
            scanned += 1
            for t in [x for x in ast.walk(fi.node) if isinstance(x, ast.If)]:
                ws = set()
                for c in ast.walk(t.test):
                    if isinstance(c, ast.Call) and u(c.func) in ("np.all", "all") and c.args and isinstance(c.args[0], ast.Compare) and isinstance(c.args[0].ops[0], ast.Eq):
                        l, r = c.args[0].left, c.args[0].comparators[0]
                        for a, b in ((l, r), (r, l)):
                            if isinstance(a, ast.Name) and isinstance(b, ast.Subscript) and u(b.value) == a.id and u(b.slice) == "0":
                                ws.add(a.id)
                if not ws:
                    continue
                for st in t.body:
                    for z in ast.walk(st):
                        if isinstance(z, ast.Subscript) and isinstance(z.value, ast.Name) and u(z.slice) == "0" and z.value.id not in ws and isinstance(z.ctx, ast.Load):
                            out.append((fi, sorted(ws), z.value.id, t))
    return out, scanned


def check_uniformity_shortcuts(ctx, modules, prefix):
    from .astutil import local_env
    sites, scanned = uniformity_shortcut_sites(ctx.index, modules)
    for fi, ws, z, t in sites:
        env = local_env(fi.node)
        # Z determined by W alone (Z = f(W)) is fine; W = f(Z) is not (f need not be injective)
        zdef = env.get(z)
        z_from_w = zdef is not None and {n.id for n in ast.walk(zdef) if isinstance(n, ast.Name)} & set(ws) and not any(
            isinstance(n, ast.Name) and n.id not in ws and n.id in env for n in ast.walk(zdef))
        ctx.ob(fi.where, f"the all-records-alike shortcut tests `{', '.join(ws)}` and then uses `{z}[0]` for every record: `{z}` must be determined by the tested array "
               f"(equal `{ws[0]}` does not imply equal `{z}`)", bool(z_from_w), u(t.test)[:100], key=f"{prefix}|uniformity-shortcut|{fi.module.name}|{fi.qualname}|{z}", definite=True)
    ctx.count("functions scanned for all-alike shortcuts", scanned)
    return len(sites)


# ---------------------------------------------------------------------------------------------------------------------------------------------------------------
# ENDPOINT SAMPLE: `if x[0] == x[-1]: <treat every record like x[0]>`.  First == last says something about the records in between only when the column is known
# to be grouped / sorted.  The instances of the reference tree were read; a new one is reported (the caller's records need not be grouped).
ENDPOINT_CONFIRMED = {
    ("bionumpy.streams.groupby_func", "groupby"): "the key column of a group-by is grouped by contract (documented: 'must be sorted'); first == last there means a single group",
}


def endpoint_sample_sites(ix, modules):
    out, scanned = [], 0
    for mod in modules:
        if mod not in ix.modules:
            continue
        for fi in ix.module(mod).functions.values():
            if isinstance(fi.node, ast.Lambda):
                continue
            scanned += 1
            for t in [x for x in ast.walk(fi.node) if isinstance(x, (ast.If, ast.IfExp))]:
                for c in ast.walk(t.test):
                    if isinstance(c, ast.Compare) and len(c.ops) == 1 and isinstance(c.ops[0], ast.Eq):
                        l, r = c.left, c.comparators[0]
                        if isinstance(l, ast.Subscript) and isinstance(r, ast.Subscript) and u(l.value) == u(r.value) and {u(l.slice), u(r.slice)} == {"0", "-1"}:
                            out.append((fi, u(l.value), t))
    return out, scanned


def check_endpoint_samples(ctx, modules, prefix):
    sites, scanned = endpoint_sample_sites(ctx.index, modules)
    for fi, base, t in sites:
        key = (fi.module.name, fi.qualname)
        if key in ENDPOINT_CONFIRMED:
            ctx.ob(fi.where, f"first == last of `{base}` taken as 'all alike': confirmed instance ({ENDPOINT_CONFIRMED[key]})", True, "", key=f"{prefix}|endpoint-sample|{key[0]}|{key[1]}", definite=True)
            continue
        # an exhaustive test in the same condition (np.all over the whole column) makes the sample redundant, hence harmless
        exhaustive = any(isinstance(c, ast.Call) and u(c.func) in ("np.all", "all") and base in u(c) and "[-1]" not in u(c) for c in ast.walk(t.test))
        ctx.ob(fi.where, f"`{base}[0] == {base}[-1]` is taken to mean that every record has that value: true only for a grouped / sorted column, and nothing makes the "
               f"records handed to `{fi.qualname}` grouped (a record of another group between two of the same group gets the first one's value)", exhaustive,
               u(t.test)[:120], key=f"{prefix}|endpoint-sample|{key[0]}|{key[1]}", definite=True)
    ctx.count("functions scanned for first == last shortcuts", scanned)
    return len(sites)


# ---------------------------------------------------------------------------------------------------------------------------------------------------------------
# INDEX CAST: inside `__getitem__` / `__setitem__` the index is converted to an integer array (`np.asarray(idx, dtype=int)`, `idx.astype(int)`) without first
# excluding boolean masks.  A mask written as a list ([True, False, ...]) then becomes the fancy index [1, 0, ...]: no error, wrong rows.  npstructures uses the
# cast only for EMPTY lists (a float array otherwise); the same guard (len(idx) == 0) or a dtype / bool test makes it safe.
_CASTS = ("np.asarray", "np.asanyarray", "np.array")
_INT = ("int", "np.int64", "np.int32", "np.intp", "'int'", "np.int_")


def index_cast_sites(ix, modules):
    out, scanned = [], 0
    for mod in modules:
        if mod not in ix.modules:
            continue
        for fi in ix.module(mod).functions.values():
            if isinstance(fi.node, ast.Lambda) or fi.qualname.split(".")[-1] not in ("__getitem__", "__setitem__", "_get_row", "_get_rows"):
                continue
            scanned += 1
            if len(fi.params) < 2:
                continue
            idx = fi.params[1]

            def visit(stmts, guards):
                for s in stmts:
                    if isinstance(s, ast.If):
                        g = u(s.test)
                        visit(s.body, guards + [g])
                        visit(s.orelse, guards + ["not (" + g + ")"])
                        continue
                    for c in ast.walk(s):
                        cast = None
                        if isinstance(c, ast.Call) and u(c.func) in _CASTS and c.args and u(c.args[0]) == idx and any(k.arg == "dtype" and u(k.value) in _INT for k in c.keywords):
                            cast = c
                        if isinstance(c, ast.Call) and isinstance(c.func, ast.Attribute) and c.func.attr == "astype" and u(c.func.value) == idx and c.args and u(c.args[0]) in _INT:
                            cast = c
                        if cast is not None:
                            out.append((fi, idx, cast, list(guards)))
                    for blk in ("body", "orelse", "finalbody"):
                        if hasattr(s, blk) and not isinstance(s, ast.If) and isinstance(getattr(s, blk), list):
                            visit([x for x in getattr(s, blk) if isinstance(x, ast.stmt)], guards)
            visit(fi.node.body, [])
    return out, scanned


def check_index_casts(ctx, modules, prefix):
    sites, scanned = index_cast_sites(ctx.index, modules)
    for fi, idx, cast, guards in sites:
        g = " and ".join(guards)
        safe = any(t in g for t in (f"len({idx}) == 0", f"len({idx})==0", "bool", ".dtype", f"not {idx}")) and not any(gg.startswith("not (") and ("bool" in gg or "len(" in gg) for gg in guards)
        ctx.ob(fi.where, f"the index `{idx}` is cast to an integer array: a boolean mask given as a Python list would silently become the fancy index of its 0/1 values, "
               "so the cast must be limited to empty lists or to non-boolean data", safe, f"{u(cast)} under [{g}]", key=f"{prefix}|index-cast|{fi.module.name}|{fi.qualname}", definite=True)
    ctx.count("item-access methods scanned for integer casts of the index", scanned)
    return len(sites)


# ---------------------------------------------------------------------------------------------------------------------------------------------------------------
# PANDAS LABELS: `s[i] for i in range(len(s))` on something that may be a pandas Series (the branch is entered through `hasattr(x, 'to_numpy')` or
# isinstance(x, pd.Series)).  Integer subscripts of a Series are LABELS: on a sorted / filtered frame the values come back in label order (or KeyError) while the
# other columns are converted positionally (`to_numpy`, `.values`, `.iloc`).
def pandas_label_sites(ix, modules):
    out, scanned = [], 0
    for mod in modules:
        if mod not in ix.modules:
            continue
        for fi in ix.module(mod).functions.values():
            if isinstance(fi.node, ast.Lambda):
                continue
            scanned += 1
            for t in [x for x in ast.walk(fi.node) if isinstance(x, ast.If)]:
                gt = u(t.test)
                m = None
                for c in ast.walk(t.test):
                    if isinstance(c, ast.Call) and u(c.func) == "hasattr" and len(c.args) == 2 and isinstance(c.args[1], ast.Constant) and c.args[1].value in ("to_numpy", "iloc", "loc"):
                        m = u(c.args[0])
                    if isinstance(c, ast.Call) and u(c.func) == "isinstance" and len(c.args) == 2 and ("Series" in u(c.args[1]) or "DataFrame" in u(c.args[1])):
                        m = u(c.args[0])
                if m is None or gt.startswith("not "):
                    continue
                for st in t.body:
                    for comp in [x for x in ast.walk(st) if isinstance(x, (ast.ListComp, ast.GeneratorExp, ast.For))]:
                        gens = comp.generators if not isinstance(comp, ast.For) else [comp]
                        for g in gens:
                            it = g.iter
                            if isinstance(it, ast.Call) and u(it.func) == "range" and it.args and f"len({m})" in u(it.args[-1]) and isinstance(g.target, ast.Name):
                                body = [comp.elt] if not isinstance(comp, ast.For) else comp.body
                                for b in body:
                                    for s in ast.walk(b):
                                        if isinstance(s, ast.Subscript) and u(s.value) == m and u(s.slice) == g.target.id:
                                            out.append((fi, m, s))
    return out, scanned


def check_pandas_labels(ctx, modules, prefix):
    sites, scanned = pandas_label_sites(ctx.index, modules)
    for fi, m, s in sites:
        ctx.ob(fi.where, f"`{u(s)}` with a position from range(len({m})) on a pandas object looks the value up by index LABEL: after sort_values / filtering the labels are "
               "not 0..n-1 in order, so this column is read in another order than the columns converted positionally (use .to_numpy() / .iloc)", False, u(s),
               key=f"{prefix}|pandas-label|{fi.module.name}|{fi.qualname}", definite=True)
    ctx.count("functions scanned for label-based reads of pandas columns", scanned)
    return len(sites)
