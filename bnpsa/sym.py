"""Symbolic normal forms: polynomials over opaque atoms (own code, no sympy).

`poly(node, env)` turns an arithmetic expression into a canonical polynomial whose atoms are the
canonical texts of non-arithmetic sub-expressions (names, attributes, calls, subscripts, //, %, >>).
Local names are inlined through `env` (name -> defining expression) so that renaming or introducing
temporaries does not change the normal form.  Two expressions are *proved equal* when their normal
forms coincide; when they differ by a non-zero polynomial whose atoms are all shared the difference
is positively established.
"""
from __future__ import annotations
import ast
from fractions import Fraction
from typing import Dict, Optional, Tuple

Mono = Tuple[Tuple[str, int], ...]


class Poly:
    __slots__ = ("t",)

    def __init__(self, terms: Optional[Dict[Mono, Fraction]] = None):
        self.t = {m: c for m, c in (terms or {}).items() if c != 0}

    @staticmethod
    def const(c) -> "Poly":
        return Poly({(): Fraction(c)})

    @staticmethod
    def atom(a: str) -> "Poly":
        return Poly({((a, 1),): Fraction(1)})

    def __add__(self, o):
        t = dict(self.t)
        for m, c in o.t.items():
            t[m] = t.get(m, 0) + c
        return Poly(t)

    def __neg__(self):
        return Poly({m: -c for m, c in self.t.items()})

    def __sub__(self, o):
        return self + (-o)

    def __mul__(self, o):
        t: Dict[Mono, Fraction] = {}
        for m1, c1 in self.t.items():
            for m2, c2 in o.t.items():
                d: Dict[str, int] = {}
                for a, p in m1 + m2:
                    d[a] = d.get(a, 0) + p
                m = tuple(sorted((a, p) for a, p in d.items() if p != 0))
                t[m] = t.get(m, 0) + c1 * c2
        return Poly(t)

    def __pow__(self, n: int):
        r = Poly.const(1)
        for _ in range(n):
            r = r * self
        return r

    def __eq__(self, o):
        return isinstance(o, Poly) and self.t == o.t

    def __hash__(self):
        return hash(frozenset(self.t.items()))

    def is_const(self):
        return all(m == () for m in self.t)

    def const_value(self):
        return self.t.get((), Fraction(0))

    def atoms(self):
        return {a for m in self.t for a, _ in m}

    def __str__(self):
        if not self.t:
            return "0"
        parts = []
        for m, c in sorted(self.t.items(), key=lambda kv: (len(kv[0]), kv[0])):
            mono = "*".join(a if p == 1 else f"{a}**{p}" for a, p in m)
            cs = str(c.numerator) if c.denominator == 1 else f"({c})"
            if not mono:
                parts.append(cs)
            elif c == 1:
                parts.append(mono)
            elif c == -1:
                parts.append("-" + mono)
            else:
                parts.append(f"{cs}*{mono}")
        return " + ".join(parts).replace("+ -", "- ")

    __repr__ = __str__


def _seq_like(n: ast.AST) -> bool:
    """Syntactically a list / tuple / string (or a concatenation / repetition involving one)."""
    if isinstance(n, (ast.List, ast.Tuple, ast.ListComp, ast.JoinedStr)):
        return True
    if isinstance(n, ast.Constant) and isinstance(n.value, (str, bytes)):
        return True
    if isinstance(n, ast.BinOp) and isinstance(n.op, (ast.Add, ast.Mult)):
        return _seq_like(n.left) or _seq_like(n.right)
    if isinstance(n, ast.Call) and isinstance(n.func, ast.Name) and n.func.id in ("list", "tuple", "str", "bytes"):
        return True
    return False


def _base(node: ast.AST, env, depth) -> str:
    """Canonical text of an expression used as the base of an attribute / subscript / call: parenthesised unless it is a single atom."""
    p = poly(node, env, depth)
    single = len(p.t) == 1 and all(len(m) == 1 and m[0][1] == 1 and c == 1 for m, c in p.t.items())
    t = str(p)
    return t if single else f"({t})"


def canon(node: ast.AST, env: Optional[Dict[str, ast.AST]] = None, _depth: int = 0) -> str:
    """Canonical text of any expression (arithmetic parts in polynomial normal form)."""
    return str(poly(node, env, _depth))


def poly(node: ast.AST, env: Optional[Dict[str, ast.AST]] = None, _depth: int = 0) -> Poly:
    env = env or {}
    if _depth > 40:
        return Poly.atom("<deep>")
    rec = lambda n: poly(n, env, _depth + 1)
    if isinstance(node, ast.Constant):
        if isinstance(node.value, bool):
            return Poly.atom(repr(node.value))
        if isinstance(node.value, (int, float)):
            return Poly.const(Fraction(node.value))
        return Poly.atom(repr(node.value))
    if isinstance(node, ast.Name):
        if node.id in env and env[node.id] is not None:
            d = env[node.id]
            sub = {k: v for k, v in env.items() if k != node.id}
            return poly(d, sub, _depth + 1)
        return Poly.atom(node.id)
    if isinstance(node, ast.UnaryOp):
        if isinstance(node.op, ast.USub):
            return -rec(node.operand)
        if isinstance(node.op, ast.UAdd):
            return rec(node.operand)
        if isinstance(node.op, ast.Invert):
            return Poly.atom(f"~({rec(node.operand)})")
        if isinstance(node.op, ast.Not):
            return Poly.atom(f"not({rec(node.operand)})")
    if isinstance(node, ast.BinOp):
        if isinstance(node.op, ast.Add) and (_seq_like(node.left) or _seq_like(node.right)):
            # list / tuple / string concatenation is not commutative
            return Poly.atom(f"concat({canon(node.left, env, _depth + 1)}, {canon(node.right, env, _depth + 1)})")
        if isinstance(node.op, ast.Mult) and (_seq_like(node.left) or _seq_like(node.right)):
            return Poly.atom(f"repeat({canon(node.left, env, _depth + 1)}, {canon(node.right, env, _depth + 1)})")
        l, r = rec(node.left), rec(node.right)
        if isinstance(node.op, ast.Add):
            return l + r
        if isinstance(node.op, ast.Sub):
            return l - r
        if isinstance(node.op, ast.Mult):
            return l * r
        if isinstance(node.op, ast.Pow) and r.is_const() and r.const_value().denominator == 1 and 0 <= r.const_value() <= 6:
            return l ** int(r.const_value())
        if l.is_const() and r.is_const():
            a, b = l.const_value(), r.const_value()
            try:
                if isinstance(node.op, ast.FloorDiv):
                    return Poly.const(a // b)
                if isinstance(node.op, ast.Mod):
                    return Poly.const(a % b)
                if isinstance(node.op, ast.Div):
                    return Poly.const(a / b)
                if a.denominator == 1 and b.denominator == 1:
                    if isinstance(node.op, ast.LShift):
                        return Poly.const(int(a) << int(b))
                    if isinstance(node.op, ast.RShift):
                        return Poly.const(int(a) >> int(b))
                    if isinstance(node.op, ast.BitAnd):
                        return Poly.const(int(a) & int(b))
                    if isinstance(node.op, ast.BitOr):
                        return Poly.const(int(a) | int(b))
                    if isinstance(node.op, ast.Pow) and b >= 0:
                        return Poly.const(int(a) ** int(b))
            except ZeroDivisionError:
                pass
        if isinstance(node.op, ast.Div) and r.is_const() and r.const_value() != 0:
            return l * Poly.const(1 / r.const_value())
        opn = {ast.FloorDiv: "//", ast.Mod: "%", ast.Div: "/", ast.LShift: "<<", ast.RShift: ">>", ast.BitAnd: "&",
               ast.BitOr: "|", ast.BitXor: "^", ast.Pow: "**", ast.MatMult: "@"}.get(type(node.op), "?")
        if opn in ("&", "|", "^"):
            a, b = sorted([str(l), str(r)])
            return Poly.atom(f"(({a}){opn}({b}))")
        return Poly.atom(f"(({l}){opn}({r}))")
    if isinstance(node, (ast.Call, ast.Attribute)) and env:
        try:
            key = ast.unparse(node)
        except Exception:
            key = None
        if key is not None and key in env and env[key] is not None and (isinstance(node, ast.Attribute) or not (node.args or node.keywords)):
            sub = {k: v for k, v in env.items() if k != key}
            return poly(env[key], sub, _depth + 1)
    if isinstance(node, ast.Call):
        f = node.func
        fname = ast.unparse(f)
        if fname == "ord" and len(node.args) == 1 and isinstance(node.args[0], ast.Constant) and isinstance(node.args[0].value, str) \
                and len(node.args[0].value) == 1:
            return Poly.const(ord(node.args[0].value))
        if fname in ("int",) and len(node.args) == 1:
            return rec(node.args[0])
        if isinstance(f, ast.Attribute):
            fn = f"{_base(f.value, env, _depth + 1)}.{f.attr}"
        else:
            fn = canon(f, env, _depth + 1)
        args = [canon(a.value, env, _depth + 1) if isinstance(a, ast.Starred) else canon(a, env, _depth + 1) for a in node.args]
        args = [("*" + s) if isinstance(a, ast.Starred) else s for a, s in zip(node.args, args)]
        kws = sorted((f"{k.arg}=" if k.arg else "**") + canon(k.value, env, _depth + 1) for k in node.keywords)
        return Poly.atom(f"{fn}({', '.join(args + kws)})")
    if isinstance(node, ast.Attribute):
        return Poly.atom(f"{_base(node.value, env, _depth + 1)}.{node.attr}")
    if isinstance(node, ast.Subscript):
        return Poly.atom(f"{_base(node.value, env, _depth + 1)}[{canon(node.slice, env, _depth + 1)}]")
    if isinstance(node, ast.Slice):
        lo = canon(node.lower, env, _depth + 1) if node.lower else ""
        hi = canon(node.upper, env, _depth + 1) if node.upper else ""
        st = canon(node.step, env, _depth + 1) if node.step else ""
        return Poly.atom(f"{lo}:{hi}" + (f":{st}" if st else ""))
    if isinstance(node, (ast.Tuple, ast.List)):
        br = "()" if isinstance(node, ast.Tuple) else "[]"
        return Poly.atom(br[0] + ", ".join(canon(e, env, _depth + 1) for e in node.elts) + br[1])
    if isinstance(node, ast.Compare) and len(node.ops) == 1:
        l, r = rec(node.left), rec(node.comparators[0])
        op = type(node.ops[0])
        # normalise a > b  ==  b < a ; a >= b == b <= a
        sym = {ast.Lt: "<", ast.LtE: "<=", ast.Gt: ">", ast.GtE: ">=", ast.Eq: "==", ast.NotEq: "!=", ast.In: "in",
               ast.NotIn: "not in", ast.Is: "is", ast.IsNot: "is not"}[op]
        if sym in (">", ">="):
            l, r = r, l
            sym = "<" if sym == ">" else "<="
        if sym in ("==", "!="):
            a, b = sorted([str(l), str(r)])
            return Poly.atom(f"({a}){sym}({b})")
        return Poly.atom(f"({l}){sym}({r})")
    if isinstance(node, ast.BoolOp):
        opn = "and" if isinstance(node.op, ast.And) else "or"
        return Poly.atom("(" + f" {opn} ".join(canon(v, env, _depth + 1) for v in node.values) + ")")
    if isinstance(node, ast.IfExp):
        return Poly.atom(f"({canon(node.body, env, _depth + 1)} if {canon(node.test, env, _depth + 1)} else {canon(node.orelse, env, _depth + 1)})")
    if isinstance(node, ast.Starred):
        return Poly.atom("*" + canon(node.value, env, _depth + 1))
    try:
        return Poly.atom(ast.unparse(node))
    except Exception:
        return Poly.atom(ast.dump(node))


def parse_expr(text: str) -> ast.AST:
    return ast.parse(text, mode="eval").body


def equal(a: ast.AST, b_text: str, env=None, rename: Optional[Dict[str, str]] = None) -> bool:
    """Is expression `a` (with locals inlined via env) equal, as a polynomial, to the expected form `b_text`?
    `rename` maps role names used in b_text to atom names in the code."""
    pb = poly(parse_expr(b_text), {k: parse_expr(v) for k, v in (rename or {}).items()})
    return poly(a, env) == pb


def same(node: ast.AST, expected_text: str, env=None) -> bool:
    """canon(node with locals inlined) == canon(expected expression text)."""
    if node is None:
        return False
    return canon(node, env) == canon(parse_expr(expected_text))


def same_any(node: ast.AST, expected_texts, env=None) -> bool:
    if node is None:
        return False
    c = canon(node, env)
    return any(c == canon(parse_expr(t)) for t in expected_texts)
