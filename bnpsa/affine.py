"""Index maps of array expressions built from ONE flat array by slicing, reshaping to rows of n, column selection and adding constants.

`index_map(expr, base, n)` returns (idx, const, rank): the value of the expression at row r (and column c when rank == 2) is base[idx] + const, where idx is
a polynomial in the symbols r, c and n.  Extents (where a slice stops) are not part of the map: the callers use it only to recognise another spelling of a
confirmed index formula, and shapes are still fixed by the constructor that receives the arrays.  Anything outside the small language raises Unrecognised."""
from __future__ import annotations
import ast

from . import sym
from .index import Unrecognised

R, C = sym.Poly.atom("r"), sym.Poly.atom("c")


def _subst(p: "sym.Poly", name: str, q: "sym.Poly") -> "sym.Poly":
    out = sym.Poly()
    for mono, cf in p.t.items():
        term = sym.Poly.const(cf)
        for a, e in mono:
            term = term * ((q if a == name else sym.Poly.atom(a)) ** e)
        out = out + term
    return out


def _int(e):
    return isinstance(e, ast.Constant) and type(e.value) is int


def index_map(e: ast.AST, base: str, n: str, env=None, _depth=0):
    env = env or {}
    N = sym.Poly.atom(n)
    if _depth > 12:
        raise Unrecognised("index map: too deep")
    if isinstance(e, ast.Name):
        if e.id == base:
            return R, sym.Poly(), 1           # 1-D: position r
        if e.id in env:
            return index_map(env[e.id], base, n, {k: v for k, v in env.items() if k != e.id}, _depth + 1)
        raise Unrecognised(f"index map: unknown name {e.id}")
    if isinstance(e, ast.BinOp) and isinstance(e.op, (ast.Add, ast.Sub)):
        for arr, k, sign in ((e.left, e.right, 1), (e.right, e.left, 1 if isinstance(e.op, ast.Add) else None)):
            if sign is None:
                continue
            try:
                kp = sym.poly(k)
            except Exception:
                continue
            if kp.is_const():
                idx, cst, rank = index_map(arr, base, n, env, _depth + 1)
                return idx, (cst + kp) if isinstance(e.op, ast.Add) else (cst - kp), rank
        raise Unrecognised(f"index map: {ast.unparse(e)}")
    if isinstance(e, ast.Call) and isinstance(e.func, ast.Attribute) and e.func.attr == "reshape" and len(e.args) == 2:
        idx, cst, rank = index_map(e.func.value, base, n, env, _depth + 1)
        a0, a1 = e.args
        if rank != 1 or not (isinstance(a0, ast.UnaryOp) and _int(a0.operand) and a0.operand.value == 1) or ast.unparse(a1) != n:
            raise Unrecognised(f"index map: {ast.unparse(e)}")
        return _subst(idx, "r", R * N + C), cst, 2
    if isinstance(e, ast.Subscript):
        idx, cst, rank = index_map(e.value, base, n, env, _depth + 1)
        sl = e.slice
        if rank == 1 and isinstance(sl, ast.Slice):
            lo = sym.poly(sl.lower) if sl.lower is not None else sym.Poly()
            st = sym.poly(sl.step) if sl.step is not None else sym.Poly.const(1)
            if sl.lower is not None and isinstance(sl.lower, ast.UnaryOp):
                raise Unrecognised("index map: negative lower bound")
            return _subst(idx, "r", lo + st * R), cst, 1
        if rank == 2 and isinstance(sl, ast.Tuple) and len(sl.elts) == 2 and isinstance(sl.elts[0], ast.Slice) and sl.elts[0].lower is None and sl.elts[0].upper is None and sl.elts[0].step is None:
            col = sl.elts[1]
            if _int(col):
                return _subst(idx, "c", sym.Poly.const(col.value)), cst, 1
            if isinstance(col, ast.UnaryOp) and isinstance(col.op, ast.USub) and _int(col.operand):
                return _subst(idx, "c", N - sym.Poly.const(col.operand.value)), cst, 1
            if isinstance(col, ast.Slice) and col.step is None and (col.lower is None or _int(col.lower)):
                lo = sym.Poly.const(col.lower.value) if col.lower is not None else sym.Poly()
                return _subst(idx, "c", lo + C), cst, 2
        raise Unrecognised(f"index map: {ast.unparse(e)}")
    raise Unrecognised(f"index map: {ast.unparse(e)[:80]}")


def same_map(e: ast.AST, base: str, n: str, want_idx: "sym.Poly", want_const: int, want_rank: int, env=None) -> bool:
    try:
        idx, cst, rank = index_map(e, base, n, env)
    except Unrecognised:
        return False
    except Exception:
        return False
    return rank == want_rank and idx == want_idx and cst == sym.Poly.const(want_const)
