"""E4: constant evaluator over finite domains.

Evaluates *table-building* code (initialisers made of literals, comprehensions over literals,
ord/chr/upper/lower, integer arithmetic, small NumPy vectors built from literals, subscript loads and
stores into such vectors) exactly, so that two tables in the source -- or a table and an embedded
specification -- can be compared entry by entry for *all* keys at once.

It is a constant propagator, not an executor of bionumpy: nothing is imported from the analysed tree,
only a whitelisted set of pure operations is understood, and anything else raises `Unrecognised`
(=> ANALYSIS-ERROR, never a guess).  Small vectors are represented by NumPy arrays so that dtype
semantics (uint8 wrap-around, boolean masks, fancy stores) are exactly NumPy's.
"""
from __future__ import annotations
import ast
import operator
from typing import Any, Dict, Optional, Callable

import numpy as np

from .index import Unrecognised


class Obj:
    """An abstract instance: a bag of attributes (used for `self`)."""

    def __init__(self, cls=None, **attrs):
        self.__dict__["_cls"] = cls
        self.__dict__["_attrs"] = dict(attrs)

    def __getattr__(self, k):
        a = self.__dict__["_attrs"]
        if k in a:
            return a[k]
        raise AttributeError(k)

    def __setattr__(self, k, v):
        self.__dict__["_attrs"][k] = v

    def attrs(self):
        return self.__dict__["_attrs"]


class _Return(Exception):
    def __init__(self, value):
        self.value = value


class EvalRaised(Exception):
    """The evaluated code raises (name of the exception class)."""

    def __init__(self, name):
        super().__init__(name)
        self.name = name


_BIN = {
    ast.Add: operator.add, ast.Sub: operator.sub, ast.Mult: operator.mul, ast.FloorDiv: operator.floordiv,
    ast.Mod: operator.mod, ast.Pow: operator.pow, ast.LShift: operator.lshift, ast.RShift: operator.rshift,
    ast.BitAnd: operator.and_, ast.BitOr: operator.or_, ast.BitXor: operator.xor, ast.Div: operator.truediv,
}
_CMP = {
    ast.Eq: operator.eq, ast.NotEq: operator.ne, ast.Lt: operator.lt, ast.LtE: operator.le, ast.Gt: operator.gt,
    ast.GtE: operator.ge, ast.In: lambda a, b: a in b, ast.NotIn: lambda a, b: a not in b,
    ast.Is: operator.is_, ast.IsNot: operator.is_not,
}
_UN = {ast.USub: operator.neg, ast.UAdd: operator.pos, ast.Invert: operator.invert, ast.Not: operator.not_}

_NP_FUNCS = {
    "array": np.array, "asarray": np.asarray, "asanyarray": np.asanyarray, "arange": np.arange, "full": np.full,
    "zeros": np.zeros, "ones": np.ones, "zeros_like": np.zeros_like, "cumsum": np.cumsum, "concatenate": np.concatenate,
    "append": np.append, "insert": np.insert, "flatnonzero": np.flatnonzero, "where": np.where, "any": np.any, "all": np.all,
    "maximum": np.maximum, "minimum": np.minimum, "abs": np.abs, "sum": np.sum, "dot": np.dot, "frombuffer": np.frombuffer,
    "argsort": np.argsort, "lexsort": np.lexsort, "searchsorted": np.searchsorted, "log2": np.log2, "prod": np.prod,
    "uint8": np.uint8, "uint16": np.uint16, "uint32": np.uint32, "uint64": np.uint64,
    "int8": np.int8, "int16": np.int16, "int32": np.int32, "int64": np.int64, "bool_": np.bool_,
}
_NP_CONSTS = {"uint8": np.uint8, "uint16": np.uint16, "uint32": np.uint32, "uint64": np.uint64, "int8": np.int8,
              "int16": np.int16, "int32": np.int32, "int64": np.int64, "bool_": np.bool_, "float32": np.float32,
              "float64": np.float64, "newaxis": None, "nan": float("nan"), "inf": float("inf")}

_BUILTINS: Dict[str, Callable] = {
    "ord": ord, "chr": chr, "len": len, "range": range, "list": list, "tuple": tuple, "dict": dict, "set": set,
    "zip": zip, "enumerate": enumerate, "sorted": sorted, "reversed": reversed, "int": int, "str": str, "bool": bool,
    "min": min, "max": max, "sum": sum, "abs": abs, "bytes": bytes, "float": float, "any": any, "all": all,
    "frozenset": frozenset, "slice": slice, "isinstance": None,
}

_SAFE_METHODS = {
    str: {"upper", "lower", "join", "split", "replace", "encode", "strip", "index", "find", "startswith", "endswith",
          "isalpha", "isupper", "islower", "format", "count"},
    bytes: {"decode"},
    list: {"index", "count", "copy"},
    tuple: {"index", "count"},
    dict: {"items", "keys", "values", "get", "copy"},
    np.ndarray: {"astype", "copy", "ravel", "tolist", "view", "reshape", "sum", "max", "min", "flatten", "any", "all",
                 "cumsum", "argsort"},
}


class Evaluator:
    def __init__(self, env: Optional[Dict[str, Any]] = None, resolver: Optional[Callable[[str], Any]] = None,
                 call_hook: Optional[Callable] = None, max_steps: int = 200000):
        self.env: Dict[str, Any] = dict(env or {})
        self.resolver = resolver  # name -> value for names not in env (module globals); raise Unrecognised if unknown
        self.call_hook = call_hook  # (func_node, evaluated func or None, args, kwargs, evaluator) -> value or NotImplemented
        self.steps = 0
        self.max_steps = max_steps
        self.check_asserts = False

    # -------------------------------------------------------------- expressions
    def ev(self, n: ast.AST):
        self.steps += 1
        if self.steps > self.max_steps:
            raise Unrecognised("constant evaluation step budget exceeded")
        m = getattr(self, "ev_" + type(n).__name__, None)
        if m is None:
            raise Unrecognised(f"cannot evaluate {type(n).__name__}: {ast.unparse(n)[:80]}")
        return m(n)

    def ev_Constant(self, n):
        return n.value

    def ev_Name(self, n):
        if n.id in self.env:
            return self.env[n.id]
        if n.id in ("True", "False", "None"):
            return {"True": True, "False": False, "None": None}[n.id]
        if self.resolver is not None:
            try:
                return self.resolver(n.id)
            except Unrecognised:
                if n.id not in _BUILTINS or _BUILTINS[n.id] is None:
                    raise
        if n.id in _BUILTINS and _BUILTINS[n.id] is not None:
            return _BUILTINS[n.id]
        raise Unrecognised(f"unknown name {n.id}")

    def ev_List(self, n):
        return [self.ev(e) for e in n.elts]

    def ev_Tuple(self, n):
        return tuple(self.ev(e) for e in n.elts)

    def ev_Set(self, n):
        return set(self.ev(e) for e in n.elts)

    def ev_Dict(self, n):
        d = {}
        for k, v in zip(n.keys, n.values):
            if k is None:
                d.update(self.ev(v))
            else:
                d[self.ev(k)] = self.ev(v)
        return d

    def ev_JoinedStr(self, n):
        out = []
        for v in n.values:
            if isinstance(v, ast.Constant):
                out.append(str(v.value))
            else:
                out.append(str(self.ev(v.value)))
        return "".join(out)

    def ev_BinOp(self, n):
        op = _BIN.get(type(n.op))
        if op is None:
            raise Unrecognised(f"operator {type(n.op).__name__}")
        return op(self.ev(n.left), self.ev(n.right))

    def ev_UnaryOp(self, n):
        return _UN[type(n.op)](self.ev(n.operand))

    def ev_BoolOp(self, n):
        if isinstance(n.op, ast.And):
            v = True
            for e in n.values:
                v = self.ev(e)
                if not v:
                    return v
            return v
        v = False
        for e in n.values:
            v = self.ev(e)
            if v:
                return v
        return v

    def ev_Compare(self, n):
        left = self.ev(n.left)
        res = True
        for op, c in zip(n.ops, n.comparators):
            right = self.ev(c)
            r = _CMP[type(op)](left, right)
            if isinstance(r, np.ndarray):
                if len(n.ops) != 1:
                    raise Unrecognised("chained array comparison")
                return r
            if not r:
                return False
            left = right
        return res

    def ev_IfExp(self, n):
        return self.ev(n.body) if self.ev(n.test) else self.ev(n.orelse)

    def ev_Slice(self, n):
        return slice(self.ev(n.lower) if n.lower else None, self.ev(n.upper) if n.upper else None,
                     self.ev(n.step) if n.step else None)

    def ev_Subscript(self, n):
        return self.ev(n.value)[self.ev(n.slice)]

    def ev_Starred(self, n):
        raise Unrecognised("starred")

    def ev_Attribute(self, n):
        if isinstance(n.value, ast.Name) and n.value.id in ("np", "numpy") and n.value.id not in self.env:
            if n.attr in _NP_CONSTS:
                return _NP_CONSTS[n.attr]
            if n.attr in _NP_FUNCS:
                return _NP_FUNCS[n.attr]
            raise Unrecognised(f"numpy attribute {n.attr} not whitelisted")
        v = self.ev(n.value)
        if isinstance(v, Obj):
            try:
                return getattr(v, n.attr)
            except AttributeError:
                raise Unrecognised(f"abstract object has no attribute {n.attr}")
        if isinstance(v, np.ndarray) and n.attr in ("size", "shape", "dtype", "T", "ndim"):
            return getattr(v, n.attr)
        for t, names in _SAFE_METHODS.items():
            if isinstance(v, t) and n.attr in names:
                return getattr(v, n.attr)
        raise Unrecognised(f"attribute {n.attr} of {type(v).__name__}")

    def _comp(self, generators, emit):
        def rec(i):
            if i == len(generators):
                emit()
                return
            g = generators[i]
            for item in self.ev(g.iter):
                self.assign(g.target, item)
                if all(self.ev(c) for c in g.ifs):
                    rec(i + 1)
        rec(0)

    def ev_ListComp(self, n):
        out = []
        saved = dict(self.env)
        self._comp(n.generators, lambda: out.append(self.ev(n.elt)))
        self.env = saved
        return out

    ev_GeneratorExp = ev_ListComp

    def ev_SetComp(self, n):
        return set(self.ev_ListComp(n))

    def ev_DictComp(self, n):
        out = {}
        saved = dict(self.env)

        def emit():
            out[self.ev(n.key)] = self.ev(n.value)
        self._comp(n.generators, emit)
        self.env = saved
        return out

    def ev_Lambda(self, n):
        def f(*args):
            sub = Evaluator(dict(self.env), self.resolver, self.call_hook, self.max_steps)
            for p, a in zip(n.args.args, args):
                sub.env[p.arg] = a
            return sub.ev(n.body)
        return f

    def ev_Call(self, n):
        args = []
        for a in n.args:
            if isinstance(a, ast.Starred):
                args.extend(self.ev(a.value))
            else:
                args.append(self.ev(a))
        kwargs = {}
        for k in n.keywords:
            if k.arg is None:
                kwargs.update(self.ev(k.value))
            else:
                kwargs[k.arg] = self.ev(k.value)
        f = None
        try:
            f = self.ev(n.func)
        except Unrecognised:
            if self.call_hook is None:
                raise
        if self.call_hook is not None:
            r = self.call_hook(n, f, args, kwargs, self)
            if r is not NotImplemented:
                return r
        if f is None or not callable(f):
            raise Unrecognised(f"call of unknown function {ast.unparse(n.func)[:60]}")
        return f(*args, **kwargs)

    # -------------------------------------------------------------- statements
    def assign(self, target, value):
        if isinstance(target, ast.Name):
            self.env[target.id] = value
        elif isinstance(target, (ast.Tuple, ast.List)):
            vals = list(value)
            if len(vals) != len(target.elts):
                raise Unrecognised("unpack length mismatch")
            for t, v in zip(target.elts, vals):
                self.assign(t, v)
        elif isinstance(target, ast.Attribute):
            o = self.ev(target.value)
            if not isinstance(o, Obj):
                raise Unrecognised("attribute store on non-abstract object")
            setattr(o, target.attr, value)
        elif isinstance(target, ast.Subscript):
            o = self.ev(target.value)
            o[self.ev(target.slice)] = value
        else:
            raise Unrecognised(f"assignment target {type(target).__name__}")

    def run(self, stmts):
        """Execute a list of statements; returns the value of `return` or None."""
        try:
            self._block(stmts)
        except _Return as r:
            return r.value
        return None

    def _block(self, stmts):
        for s in stmts:
            self.steps += 1
            if isinstance(s, ast.Assign):
                v = self.ev(s.value)
                for t in s.targets:
                    self.assign(t, v)
            elif isinstance(s, ast.AnnAssign):
                if s.value is not None:
                    self.assign(s.target, self.ev(s.value))
            elif isinstance(s, ast.AugAssign):
                load = ast.fix_missing_locations(ast.copy_location(_to_load(s.target), s.target))
                cur = self.ev(load)
                v = _BIN[type(s.op)](cur, self.ev(s.value))
                self.assign(s.target, v)
            elif isinstance(s, ast.Return):
                raise _Return(self.ev(s.value) if s.value is not None else None)
            elif isinstance(s, ast.If):
                branch = s.body if self.ev(s.test) else s.orelse
                from .astutil import always_raises, raise_name
                if branch and always_raises(branch):
                    # the branch cannot complete normally: report the raise without evaluating message building
                    last = [x for x in branch if isinstance(x, (ast.Raise, ast.Assert, ast.If))][-1]
                    nm = raise_name(last) if isinstance(last, ast.Raise) else "AssertionError"
                    raise EvalRaised(nm)
                self._block(branch)
            elif isinstance(s, ast.Raise):
                from .astutil import raise_name
                raise EvalRaised(raise_name(s))
            elif isinstance(s, ast.For):
                for item in self.ev(s.iter):
                    self.assign(s.target, item)
                    self._block(s.body)
            elif isinstance(s, ast.Expr):
                if isinstance(s.value, ast.Constant):
                    continue
                self.ev(s.value)
            elif isinstance(s, ast.Assert):
                if self.check_asserts and not self.ev(s.test):
                    raise EvalRaised("AssertionError")
            elif isinstance(s, (ast.Pass, ast.Import, ast.ImportFrom)):
                continue
            else:
                raise Unrecognised(f"statement {type(s).__name__} not evaluable")


def _to_load(t):
    import copy
    t2 = copy.deepcopy(t)
    for n in ast.walk(t2):
        if hasattr(n, "ctx"):
            n.ctx = ast.Load()
    return t2


def const(node: ast.AST, env=None):
    """Evaluate a closed constant expression."""
    return Evaluator(env).ev(node)


class MethodRunner:
    """Runs methods of repo classes on abstract `Obj` instances (self-calls and super() resolved through the index)."""

    def __init__(self, index, resolver_for_module=None, extra_hook=None, max_depth=12):
        self.index = index
        self.resolver_for_module = resolver_for_module
        self.extra_hook = extra_hook
        self.max_depth = max_depth
        self.depth = 0

    def bind_args(self, fnode, args, kwargs, skip_self=True):
        a = fnode.args
        params = [x.arg for x in a.posonlyargs + a.args]
        if skip_self and params:
            params = params[1:]
        env = {}
        defaults = a.defaults
        dstart = len(a.posonlyargs + a.args) - len(defaults)
        allp = [x.arg for x in a.posonlyargs + a.args]
        for i, d in enumerate(defaults):
            try:
                env[allp[dstart + i]] = const(d)
            except Unrecognised:
                pass
        rest = list(args)
        for pname in params:
            if rest:
                env[pname] = rest.pop(0)
        if rest:
            if a.vararg is None:
                raise Unrecognised("too many positional arguments")
            env[a.vararg.arg] = tuple(rest)
        elif a.vararg is not None:
            env[a.vararg.arg] = ()
        kw = dict(kwargs)
        for x, d in zip(a.kwonlyargs, a.kw_defaults):
            if x.arg in kw:
                env[x.arg] = kw.pop(x.arg)
            elif d is not None:
                env[x.arg] = const(d)
        for k in list(kw):
            if k in allp:
                env[k] = kw.pop(k)
        if a.kwarg is not None:
            env[a.kwarg.arg] = kw
        elif kw:
            raise Unrecognised(f"unexpected keyword arguments {list(kw)}")
        return env

    def call(self, obj: Obj, cls, name: str, args=(), kwargs=None, after=None):
        """Call method `name` looked up in the MRO of `cls` (after class `after` if given: super())."""
        kwargs = kwargs or {}
        mro = self.index.mro(cls)
        if after is not None:
            idx = [i for i, c in enumerate(mro) if c is after]
            mro = mro[idx[0] + 1:] if idx else []
        fi = None
        owner = None
        for c in mro:
            if name in c.methods:
                fi, owner = c.methods[name], c
                break
        if fi is None:
            raise Unrecognised(f"method {name} not found in {cls.qualname} hierarchy")
        self.depth += 1
        if self.depth > self.max_depth:
            raise Unrecognised("method call depth exceeded")
        try:
            env = self.bind_args(fi.node, args, kwargs)
            selfname = fi.node.args.args[0].arg if fi.node.args.args else "self"
            env[selfname] = obj
            resolver = self.resolver_for_module(fi.module) if self.resolver_for_module else None

            def hook(n, f, a, k, evaluator):
                fn = n.func
                if isinstance(fn, ast.Attribute):
                    if isinstance(fn.value, ast.Name) and fn.value.id == selfname and self.index.lookup_method(cls, fn.attr):
                        return self.call(obj, cls, fn.attr, a, k)
                    if isinstance(fn.value, ast.Call) and isinstance(fn.value.func, ast.Name) and fn.value.func.id == "super":
                        return self.call(obj, cls, fn.attr, a, k, after=owner)
                if self.extra_hook is not None:
                    return self.extra_hook(n, f, a, k, evaluator)
                return NotImplemented
            e = Evaluator(env, resolver, hook)
            # property access on self is not modelled (attributes only)
            return e.run(fi.node.body)
        finally:
            self.depth -= 1
