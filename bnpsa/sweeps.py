"""Thorough tier: package-wide sweeps of the generic rule families.  Findings outside the property's own scope are *observations*: they are
written to the evidence (coverage.notes / counters) and never change the verdict of the property being checked."""
from __future__ import annotations
import ast

from . import resolve, memo
from .astutil import u, body_walk


def package_wide(ctx):
    ix = ctx.index
    n_funcs = 0
    unresolved = []
    cmp_stmts = []
    for mi in ix.modules.values():
        if "_legacy" in mi.name or mi.name.startswith("bionumpy.tests"):
            continue
        for fi in mi.functions.values():
            if isinstance(fi.node, ast.Lambda):
                continue
            n_funcs += 1
            for name, line in resolve.unresolved_names(ix, fi):
                unresolved.append(f"{mi.relpath}:{line} {fi.qualname}: name {name}")
            for attr, line in resolve.unresolved_self_attrs(ix, fi):
                unresolved.append(f"{mi.relpath}:{line} {fi.qualname}: self.{attr}")
            for s in body_walk(fi.node):
                if isinstance(s, ast.Expr) and isinstance(s.value, ast.Compare):
                    cmp_stmts.append(f"{mi.relpath}:{s.lineno} {fi.qualname}: {u(s)[:60]}")
    ctx.count("sweep_functions", n_funcs)
    ctx.count("sweep_unresolved_uses", len(unresolved))
    ctx.count("sweep_comparison_statements", len(cmp_stmts))
    ctx.note("package-wide F-RESOLVE observations (out of this property's scope unless also reported above): " + "; ".join(sorted(set(unresolved))[:40]))
    if cmp_stmts:
        ctx.note("package-wide comparison-as-statement observations: " + "; ".join(cmp_stmts[:20]))
    mods = [m for m in ix.modules if "_legacy" not in m and not m.startswith("bionumpy.tests")]
    caches = {m: sorted(memo.find_cache_names(ix.module(m))) for m in mods}
    caches = {m: c for m, c in caches.items() if c}
    ctx.note("dict caches in the package (each checked by the memo-key rule of the property that owns its module): " + str(caches))
    ctx.count("sweep_dict_caches", sum(len(c) for c in caches.values()))
    # idiom sweeps over every module (the property checks apply them to their own modules only)
    stale = []
    for mi in ix.modules.values():
        if "_legacy" in mi.name:
            continue
        for fi in mi.functions.values():
            if isinstance(fi.node, ast.Lambda):
                continue
            saved = {}
            for s in getattr(fi.node, "body", []):
                if isinstance(s, ast.Assign) and isinstance(s.targets[0], ast.Name) and isinstance(s.value, ast.Attribute) and s.value.attr == "_shape" and isinstance(s.value.value, ast.Name):
                    saved[s.targets[0].id] = (s.value.value.id, s.lineno)
            for var, (obj, line) in saved.items():
                rav = [c for c in ast.walk(fi.node) if isinstance(c, ast.Call) and u(c.func) == f"{obj}.ravel" and c.lineno > line]
                use = [x for x in ast.walk(fi.node) if isinstance(x, ast.Name) and x.id == var and isinstance(x.ctx, ast.Load) and rav and x.lineno >= min(r.lineno for r in rav)]
                if rav and use:
                    stale.append(f"{mi.relpath}:{line} {fi.qualname}")
    ctx.count("sweep_stale_shape_sites", len(stale))
    if stale:
        ctx.note("package-wide stale-shape observations (shape captured before ravel() and used after it): " + "; ".join(stale))
    try:
        from .rules.c17 import slot_memo_sites
        from .rules.c14 import permute_twice_sites
        sm, _ = slot_memo_sites(ix, mods)
        pt, _ = permute_twice_sites(ix, mods)
        ctx.count("sweep_slot_memos_reading_a_parameter", len(sm))
        ctx.count("sweep_permute_twice_sites", len(pt))
        if sm:
            ctx.note("single-slot memos that read a parameter: " + "; ".join(f"{fi.module.relpath} {fi.qualname}.{a}" for fi, a, _, _ in sm))
        if pt:
            ctx.note("permute-twice sites: " + "; ".join(f"{fi.module.relpath} {fi.qualname}" for fi, _, _, _ in pt))
    except Exception as e:      # an observation must never break a verdict
        ctx.note(f"idiom sweeps skipped: {type(e).__name__}: {e}")
