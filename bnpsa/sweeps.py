"""Thorough tier: package-wide sweeps of the generic rule families.  Findings outside the property's own scope are *observations*: they are
written to the evidence (coverage.notes / counters) and never change the verdict of the property being checked."""
from __future__ import annotations
import ast

from . import resolve, memo
from .astutil import u, body_walk


def package_wide(ctx):
    ix = ctx.index
    n_funcs = 0
    unresolved = []
    cmp_stmts = []
    for mi in ix.modules.values():
        if "_legacy" in mi.name or mi.name.startswith("bionumpy.tests"):
            continue
        for fi in mi.functions.values():
            if isinstance(fi.node, ast.Lambda):
                continue
            n_funcs += 1
            for name, line in resolve.unresolved_names(ix, fi):
                unresolved.append(f"{mi.relpath}:{line} {fi.qualname}: name {name}")
            for attr, line in resolve.unresolved_self_attrs(ix, fi):
                unresolved.append(f"{mi.relpath}:{line} {fi.qualname}: self.{attr}")
            for s in body_walk(fi.node):
                if isinstance(s, ast.Expr) and isinstance(s.value, ast.Compare):
                    cmp_stmts.append(f"{mi.relpath}:{s.lineno} {fi.qualname}: {u(s)[:60]}")
    ctx.count("sweep_functions", n_funcs)
    ctx.count("sweep_unresolved_uses", len(unresolved))
    ctx.count("sweep_comparison_statements", len(cmp_stmts))
    ctx.note("package-wide F-RESOLVE observations (out of this property's scope unless also reported above): " + "; ".join(sorted(set(unresolved))[:40]))
    if cmp_stmts:
        ctx.note("package-wide comparison-as-statement observations: " + "; ".join(cmp_stmts[:20]))
    mods = [m for m in ix.modules if "_legacy" not in m and not m.startswith("bionumpy.tests")]
    caches = {m: sorted(memo.find_cache_names(ix.module(m))) for m in mods}
    caches = {m: c for m, c in caches.items() if c}
    ctx.note("dict caches in the package (each checked by the memo-key rule of the property that owns its module): " + str(caches))
    ctx.count("sweep_dict_caches", sum(len(c) for c in caches.values()))
