"""E2: statement-level control-flow graph for one function, with branch polarity kept on edges.

Node kinds
  entry, exit (normal completion: return / fall off the end / generator end), raise (abnormal exit),
  stmt  (simple statement: Assign, AugAssign, Expr, Return, Raise, Assert, Pass, Delete, ...),
  test  (condition of if / while; out-edges labelled 'T' and 'F'),
  for   (loop head of a for; out-edges 'iter' (one more item) and 'done' (exhausted)),
  with  (context entry), handler (except clause entry), join-less otherwise.
Exception edges: every node inside a `try` body has an 'exc' edge to each handler entry of that try
(and to `raise` exit if no bare/Exception handler catches everything).  `raise` statements go to the
innermost enclosing handlers or to the raise exit.  Calls outside a try are *not* given implicit
exception edges (abnormal termination discharges every pending-data obligation by raising).
"""
from __future__ import annotations
import ast
from dataclasses import dataclass, field
from typing import Callable, Dict, List, Optional, Set, Tuple


@dataclass
class Node:
    id: int
    kind: str
    ast: Optional[ast.AST] = None
    note: str = ""

    def __hash__(self):
        return self.id

    def text(self) -> str:
        if self.ast is None:
            return self.kind
        try:
            if self.kind == "test":
                return "test " + ast.unparse(self.ast)
            if self.kind == "for":
                return f"for {ast.unparse(self.ast.target)} in {ast.unparse(self.ast.iter)}"
            if self.kind == "handler":
                return "except " + (ast.unparse(self.ast.type) if self.ast.type is not None else "")
            if self.kind == "with":
                return "with " + ", ".join(ast.unparse(i) for i in self.ast.items)
            return ast.unparse(self.ast).split("\n")[0]
        except Exception:
            return self.kind

    @property
    def line(self) -> int:
        return getattr(self.ast, "lineno", 0) if self.ast is not None else 0


class CFG:
    def __init__(self, func: ast.AST):
        self.func = func
        self.nodes: List[Node] = []
        self.succ: Dict[int, List[Tuple[int, str]]] = {}
        self.pred: Dict[int, List[Tuple[int, str]]] = {}
        self.entry = self._new("entry")
        self.exit = self._new("exit")
        self.raise_exit = self._new("raise")
        self._loop_stack: List[Tuple[int, List[int]]] = []  # (continue target, list collecting break sources)
        self._try_stack: List[List[int]] = []  # handler entry ids per enclosing try
        body = func.body if not isinstance(func, ast.Lambda) else [ast.Return(value=func.body)]
        ends = self._block(body, [(self.entry.id, "")])
        for e, lab in ends:
            self._edge(e, self.exit.id, lab or "fall")
        self._stmt_node: Dict[ast.AST, Node] = {n.ast: n for n in self.nodes if n.ast is not None}

    # ------------------------------------------------------------------ construction
    def _new(self, kind, a=None, note="") -> Node:
        n = Node(len(self.nodes), kind, a, note)
        self.nodes.append(n)
        self.succ[n.id] = []
        self.pred[n.id] = []
        return n

    def _edge(self, a: int, b: int, label: str = ""):
        if (b, label) not in self.succ[a]:
            self.succ[a].append((b, label))
            self.pred[b].append((a, label))

    def _connect(self, froms, to: int):
        for f, lab in froms:
            self._edge(f, to, lab)

    def _exc_edges(self, n: Node):
        if self._try_stack:
            for h in self._try_stack[-1]:
                self._edge(n.id, h, "exc")

    def _block(self, stmts, froms):
        """froms: list of (node id, edge label) dangling ends; returns new dangling ends."""
        cur = froms
        for s in stmts:
            if not cur:
                break  # unreachable code
            cur = self._stmt(s, cur)
        return cur

    def _stmt(self, s, froms):
        if isinstance(s, (ast.FunctionDef, ast.AsyncFunctionDef, ast.ClassDef)):
            n = self._new("stmt", s, "def")
            self._connect(froms, n.id)
            return [(n.id, "")]
        if isinstance(s, ast.If):
            t = self._new("test", s.test)
            t.stmt = s
            self._connect(froms, t.id)
            self._exc_edges(t)
            a = self._block(s.body, [(t.id, "T")])
            b = self._block(s.orelse, [(t.id, "F")]) if s.orelse else [(t.id, "F")]
            return a + b
        if isinstance(s, ast.While):
            t = self._new("test", s.test)
            t.stmt = s
            self._connect(froms, t.id)
            self._exc_edges(t)
            breaks: List[Tuple[int, str]] = []
            self._loop_stack.append((t.id, breaks))
            body_end = self._block(s.body, [(t.id, "T")])
            self._loop_stack.pop()
            self._connect(body_end, t.id)
            const_true = isinstance(s.test, ast.Constant) and bool(s.test.value)
            out = [] if const_true else [(t.id, "F")]
            if s.orelse and out:
                out = self._block(s.orelse, out)
            return out + breaks
        if isinstance(s, (ast.For, ast.AsyncFor)):
            h = self._new("for", s)
            self._connect(froms, h.id)
            self._exc_edges(h)
            breaks = []
            self._loop_stack.append((h.id, breaks))
            body_end = self._block(s.body, [(h.id, "iter")])
            self._loop_stack.pop()
            self._connect(body_end, h.id)
            out = [(h.id, "done")]
            if s.orelse:
                out = self._block(s.orelse, out)
            return out + breaks
        if isinstance(s, ast.Try):
            handlers = [self._new("handler", h) for h in s.handlers]
            catches_all = any(h.type is None or (isinstance(h.type, ast.Name) and h.type.id in ("Exception", "BaseException")) for h in s.handlers)
            targets = [h.id for h in handlers]
            outer = self._try_stack[-1] if self._try_stack else []
            if not catches_all:
                targets = targets + (outer if outer else [self.raise_exit.id])
            self._try_stack.append(targets)
            body_end = self._block(s.body, froms)
            self._try_stack.pop()
            if s.orelse:
                body_end = self._block(s.orelse, body_end)
            ends = list(body_end)
            for hn, h in zip(handlers, s.handlers):
                ends += self._block(h.body, [(hn.id, "")])
            if s.finalbody:
                ends = self._block(s.finalbody, ends)
            return ends
        if isinstance(s, (ast.With, ast.AsyncWith)):
            w = self._new("with", s)
            self._connect(froms, w.id)
            self._exc_edges(w)
            return self._block(s.body, [(w.id, "")])
        if isinstance(s, ast.Match):
            t = self._new("test", s.subject)
            self._connect(froms, t.id)
            ends = []
            for c in s.cases:
                ends += self._block(c.body, [(t.id, "case")])
            return ends + [(t.id, "nomatch")]
        # simple statements
        n = self._new("stmt", s)
        self._connect(froms, n.id)
        if isinstance(s, ast.Return):
            self._exc_edges(n)
            self._edge(n.id, self.exit.id, "return")
            return []
        if isinstance(s, ast.Raise):
            if self._try_stack:
                for h in self._try_stack[-1]:
                    self._edge(n.id, h, "exc")
            else:
                self._edge(n.id, self.raise_exit.id, "raise")
            return []
        if isinstance(s, ast.Break):
            if self._loop_stack:
                self._loop_stack[-1][1].append((n.id, "break"))
            return []
        if isinstance(s, ast.Continue):
            if self._loop_stack:
                self._edge(n.id, self._loop_stack[-1][0], "continue")
            return []
        if isinstance(s, ast.Assert):
            self._exc_edges(n)
            if isinstance(s.test, ast.Constant) and not s.test.value:
                if not self._try_stack:
                    self._edge(n.id, self.raise_exit.id, "raise")
                return []
            if not self._try_stack:
                self._edge(n.id, self.raise_exit.id, "assert-fails")
            return [(n.id, "")]
        self._exc_edges(n)
        return [(n.id, "")]

    # ------------------------------------------------------------------ queries
    def node_of(self, a: ast.AST) -> Optional[Node]:
        return self._stmt_node.get(a)

    def find(self, pred: Callable[[Node], bool]) -> List[Node]:
        return [n for n in self.nodes if pred(n)]

    def stmt_nodes(self, typ=None) -> List[Node]:
        return [n for n in self.nodes if n.ast is not None and (typ is None or isinstance(n.ast, typ))]

    def path(self, sources, targets, blocked: Optional[Callable[[Node], bool]] = None,
             blocked_edge: Optional[Callable[[Node, str, Node], bool]] = None, start_after: bool = True) -> Optional[List[Tuple[Node, str]]]:
        """A path from any source node to any target node that never *enters* a blocked node nor takes a blocked edge.
        With start_after=True the path starts with the out-edges of the source (the source itself is not tested).
        Returns the list of (node, label of edge taken to reach it) or None."""
        tgt = {n.id if isinstance(n, Node) else n for n in targets}
        src = [n.id if isinstance(n, Node) else n for n in sources]
        prev: Dict[int, Tuple[Optional[int], str]] = {}
        todo = []
        for s in src:
            if not start_after:
                if blocked and blocked(self.nodes[s]):
                    continue
                if s in tgt:
                    return [(self.nodes[s], "")]
            prev[("s", s)] = (None, "")
            todo.append(("s", s))
        seen = set()
        while todo:
            key = todo.pop(0)
            cur = key[1] if isinstance(key, tuple) else key
            for nxt, lab in self.succ[cur]:
                nn = self.nodes[nxt]
                if blocked_edge and blocked_edge(self.nodes[cur], lab, nn):
                    continue
                if blocked and blocked(nn) and nxt not in tgt:
                    continue
                if blocked and blocked(nn) and nxt in tgt:
                    continue
                if nxt in seen:
                    continue
                seen.add(nxt)
                prev[nxt] = (key, lab)
                if nxt in tgt:
                    out = []
                    k = nxt
                    while k is not None:
                        p, l = prev[k]
                        node = self.nodes[k[1] if isinstance(k, tuple) else k]
                        out.append((node, l))
                        k = p
                    return list(reversed(out))
                todo.append(nxt)
        return None

    def reachable(self, sources, blocked=None, blocked_edge=None) -> Set[int]:
        seen: Set[int] = set()
        todo = [n.id if isinstance(n, Node) else n for n in sources]
        while todo:
            cur = todo.pop()
            for nxt, lab in self.succ[cur]:
                nn = self.nodes[nxt]
                if blocked_edge and blocked_edge(self.nodes[cur], lab, nn):
                    continue
                if blocked and blocked(nn):
                    continue
                if nxt not in seen:
                    seen.add(nxt)
                    todo.append(nxt)
        return seen

    def dominates(self, a: Node, b: Node) -> bool:
        """Every path entry -> b passes through a (a != b allowed to be equal)."""
        if a.id == b.id:
            return True
        return self.path([self.entry], [b], blocked=lambda n: n.id == a.id) is None

    def postdominates(self, a: Node, b: Node, exits=None) -> bool:
        """Every path b -> normal exit passes through a."""
        if a.id == b.id:
            return True
        exits = exits or [self.exit]
        return self.path([b], exits, blocked=lambda n: n.id == a.id) is None

    def edge_dominates(self, t: Node, label: str, n: Node) -> bool:
        """Every path entry -> n takes the out-edge `label` of test node t."""
        if not self.path([self.entry], [n]):
            return False
        return self.path([self.entry], [n], blocked_edge=lambda a, l, b: a.id == t.id and l == label) is None

    def guards(self, n: Node):
        """[(test node, 'T'|'F'|'iter'|...)] : branch edges that every path to n must take."""
        out = []
        for t in self.nodes:
            if t.kind in ("test", "for"):
                for lab in {l for _, l in self.succ[t.id]}:
                    if lab in ("T", "F", "iter", "done") and self.edge_dominates(t, lab, n):
                        out.append((t, lab))
        return out

    def guard_texts(self, n: Node, env=None):
        """Normalised guard conditions of node n as strings: 'cond' or 'not(cond)'."""
        from . import sym
        res = set()
        for t, lab in self.guards(n):
            if t.kind != "test":
                continue
            c = sym.canon(t.ast, env)
            neg = lab == "F"
            while c.startswith("not(") and c.endswith(")"):
                c = c[4:-1]
                neg = not neg
            res.add(f"not({c})" if neg else c)
        return res

    @staticmethod
    def show(path) -> str:
        if not path:
            return ""
        parts = []
        for n, lab in path:
            parts.append((f"-{lab}-> " if lab else "") + f"[{n.line}] {n.text()[:70]}")
        return " ".join(parts)
