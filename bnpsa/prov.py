"""E3: ownership / provenance analysis (F-OWN).

Flow-sensitive, per function: every local name is mapped to a set of provenance tags
    'F'            fresh memory allocated in this function (or a value that cannot alias an argument)
    'C'            copy-on-write view (npstructures RaggedArray over a RaggedView shape): reads alias, writes copy first
    ('P', name)    (a view of / a column of / the object of) parameter `name`           -- a *definite* chain of aliasing steps
    ('S', attr)    (a view of) self.<attr>
    'U'            unknown (unresolved call, index of unknown kind): neither reported nor trusted
Interprocedural summaries (returns-alias-of-parameter, mutates-parameter) are computed to a fixpoint over the package through
resolved calls (module functions, self./cls./super() methods).  The NumPy / npstructures effect model is the frozen table of
DESIGN.md section 4.  A write is reported only when the written base carries a ('P', p) tag, i.e. every step from the parameter
to the write is an aliasing step of the model; 'U' never produces a report (the one unsound direction, stated in the evidence).
"""
from __future__ import annotations
import ast
from dataclasses import dataclass, field
from typing import Dict, FrozenSet, List, Optional, Set, Tuple

from .astutil import u, walk_local

F, C, U = "F", "C", "U"
Tags = FrozenSet
FRESH = frozenset([F])
UNK = frozenset([U])
COW = frozenset([C])

NP_ALIAS_FUNCS = {"asarray", "asanyarray", "atleast_1d", "atleast_2d", "ravel", "reshape", "squeeze", "transpose", "broadcast_to",
                  "sliding_window_view", "as_strided", "swapaxes", "moveaxis", "expand_dims", "ascontiguousarray"}
ALIAS_METHODS = {"ravel", "reshape", "view", "raw", "squeeze", "transpose", "swapaxes", "as_strided", "get_data_object"}
COPY_METHODS = {"copy", "astype", "flatten", "tolist", "to_numpy", "sum", "mean", "cumsum", "max", "min", "argsort", "any", "all", "dot", "nonzero",
                "to_string", "decode", "encode", "to_numpy_array", "cumprod", "argmax", "argmin", "std", "var", "round", "clip", "repeat", "take"}
WRAP_ALIAS_FUNCS = {"EncodedArray", "as_encoded_array", "EncodedRaggedArray", "RaggedArray", "as_string_array", "StringArray", "get_NPSArray"}
NON_ALIAS_ATTRS = {"size", "shape", "dtype", "ndim", "encoding", "nbytes", "itemsize", "strides", "lengths", "_shape", "starts", "ends", "n_fields", "__class__",
                   "dataclass", "header_data", "_header_data", "n_lines", "name_"}
INPLACE_METHODS = {"sort", "fill", "partition", "resize", "put", "itemset", "setfield", "byteswap"}
CONTAINER_MUTATORS = {"update", "append", "extend", "add", "pop", "remove", "clear", "setdefault", "insert", "discard", "popitem", "__setitem__", "__delitem__"}
INPLACE_NP = {"put", "place", "copyto", "putmask", "put_along_axis", "fill_diagonal"}
REPLACE_FUNCS = {"dataclasses.replace", "replace", "bnp.replace"}
INT_FUNCS = {"len", "int", "range", "sum", "max", "min", "abs", "ord"}


def _is_basic_index(n: ast.AST, kinds: Dict[str, str]) -> Optional[bool]:
    """True: basic (view); False: advanced (copy); None: unknown."""
    if isinstance(n, ast.Slice):
        return True
    if isinstance(n, ast.Constant):
        return True if (n.value is None or n.value is Ellipsis or isinstance(n.value, int)) else None
    if isinstance(n, ast.UnaryOp) and isinstance(n.op, ast.USub) and isinstance(n.operand, ast.Constant):
        return True
    if isinstance(n, ast.UnaryOp) and isinstance(n.op, ast.Invert):
        return False
    if isinstance(n, ast.Tuple):
        res = [_is_basic_index(e, kinds) for e in n.elts]
        if any(r is False for r in res):
            return False
        if all(r is True for r in res):
            return True
        return None
    if isinstance(n, ast.Name):
        k = kinds.get(n.id)
        if k == "int":
            return True
        if k == "array":
            return False
        return None
    if isinstance(n, (ast.Compare, ast.BoolOp, ast.List, ast.ListComp)):
        return False
    if isinstance(n, ast.BinOp):
        l, r = _is_basic_index(n.left, kinds), _is_basic_index(n.right, kinds)
        if l is True and r is True:
            return True
        if l is False or r is False:
            return False
        return None
    if isinstance(n, ast.Call):
        fn = u(n.func)
        if fn in INT_FUNCS:
            return True
        if fn.startswith("np.") or fn.endswith(".raw") or fn.endswith(".ravel") or fn.endswith("flatnonzero") or fn.endswith("argsort"):
            return False
        return None
    if isinstance(n, ast.Attribute):
        if n.attr in ("size", "ndim"):
            return True
        return None
    if isinstance(n, ast.Subscript):
        return None
    return None


def _scalar_valued(v) -> bool:
    """The expression is a Python number whatever its operands are: a numeric constant, len()/int()/float()/bool(), a str/list .count/.index/.find, or a
    conditional / arithmetic combination of such."""
    if isinstance(v, ast.UnaryOp) and isinstance(v.op, (ast.USub, ast.UAdd, ast.Not)):
        return isinstance(v.op, ast.Not) or _scalar_valued(v.operand)
    if isinstance(v, ast.Constant):
        return isinstance(v.value, (int, float, bool)) and v.value is not None
    if isinstance(v, ast.IfExp):
        return _scalar_valued(v.body) and _scalar_valued(v.orelse)
    if isinstance(v, ast.BinOp):
        return _scalar_valued(v.left) and _scalar_valued(v.right)
    if isinstance(v, ast.Call):
        if isinstance(v.func, ast.Name) and v.func.id in ("len", "int", "float", "bool"):
            return True
        if isinstance(v.func, ast.Attribute) and v.func.attr in ("count", "index", "find", "rfind") and len(v.args) == 1 and isinstance(v.args[0], ast.Constant) and isinstance(v.args[0].value, (str, bytes)):
            return True
    return False


@dataclass
class WriteSite:
    func: str
    where: str
    stmt: str
    target: str  # ('P', name) / ('S', attr)
    kind: str    # 'store', 'augassign', 'setattr', 'out=', 'inplace-call', 'callee-mutates'
    via: str = ""


@dataclass
class Summary:
    returns: Set = field(default_factory=set)   # tags with ('P', i) as parameter *indices*, or F/C/U
    mutates: Dict[int, WriteSite] = field(default_factory=dict)  # parameter index -> first site


class Analyzer:
    def __init__(self, index):
        self.index = index
        self.summaries: Dict[Tuple[str, str], Summary] = {}
        self.sites: Dict[Tuple[str, str], List[WriteSite]] = {}
        self.unresolved_calls = 0
        self.resolved_calls = 0
        self.funcs = {}
        for mi in index.modules.values():
            if mi.name.startswith("bionumpy._legacy") or ".tests" in mi.name:
                continue
            for qn, fi in mi.functions.items():
                if isinstance(fi.node, ast.Lambda):
                    continue
                self.funcs[(mi.name, qn)] = fi
                self.summaries[(mi.name, qn)] = Summary()

    # ------------------------------------------------------------------ fixpoint
    def run(self, max_rounds: int = 6):
        for rnd in range(max_rounds):
            changed = False
            self.unresolved_calls = self.resolved_calls = 0
            for key, fi in self.funcs.items():
                old = self.summaries[key]
                new, sites = self._analyse(fi)
                self.sites[key] = sites
                if new.returns != old.returns or set(new.mutates) != set(old.mutates):
                    changed = True
                self.summaries[key] = new
            if not changed:
                break
        return self

    # ------------------------------------------------------------------ call resolution
    def _resolve_call(self, fi, call: ast.Call):
        """-> (key of callee, index offset: 1 if bound method call (self implicit), else 0) or None"""
        f = call.func
        mi = fi.module
        if isinstance(f, ast.Name):
            r = self.index.resolve_name(mi, f.id)
            from .index import FuncInfo, ClassInfo
            if isinstance(r, FuncInfo):
                return (r.module.name, r.qualname), 0
            # nested function in the same enclosing function
            q = fi.qualname + ".<locals>." + f.id
            if (mi.name, q) in self.funcs:
                return (mi.name, q), 0
            return None
        if isinstance(f, ast.Attribute):
            base = f.value
            if isinstance(base, ast.Name) and base.id in ("self", "cls") and fi.cls is not None:
                m = self.index.lookup_method(fi.cls, f.attr)
                if m is not None:
                    return (m.module.name, m.qualname), 1
                return None
            if isinstance(base, ast.Call) and isinstance(base.func, ast.Name) and base.func.id == "super" and fi.cls is not None:
                mro = self.index.mro(fi.cls)[1:]
                for c in mro:
                    if f.attr in c.methods:
                        m = c.methods[f.attr]
                        return (m.module.name, m.qualname), 1
                return None
            if isinstance(base, ast.Name):
                r = self.index.resolve_name(mi, f"{base.id}.{f.attr}")
                from .index import FuncInfo
                if isinstance(r, FuncInfo):
                    return (r.module.name, r.qualname), 0
            if isinstance(base, ast.Attribute) and isinstance(base.value, ast.Name) and base.value.id == "self" and fi.cls is not None:
                tcls = self._attr_type(fi.cls, base.attr)
                if tcls is not None:
                    m = self.index.lookup_method(tcls, f.attr)
                    if m is not None:
                        return (m.module.name, m.qualname), 1
        return None

    def dict_attrs(self, cls) -> Set[str]:
        """Attributes of the class (and its ancestors) that are bound to dicts somewhere (class level, __init__, lazy `self._x = {}`)."""
        if cls is None:
            return set()
        if not hasattr(self, "_dict_attrs"):
            self._dict_attrs = {}
        k = (cls.module.name, cls.qualname)
        if k in self._dict_attrs:
            return self._dict_attrs[k]
        names = set()
        for c in self.index.mro(cls):
            for nm, v in c.attrs.items():
                if isinstance(v, ast.Dict) or (isinstance(v, ast.Call) and u(v.func) == "dict"):
                    names.add(nm)
            for fi in c.methods.values():
                for x in ast.walk(fi.node):
                    if isinstance(x, ast.Assign) and isinstance(x.targets[0], ast.Attribute) and u(x.targets[0].value) == "self":
                        v = x.value
                        if isinstance(v, (ast.Dict, ast.DictComp)) or (isinstance(v, ast.Call) and u(v.func) == "dict") or \
                                (isinstance(v, ast.IfExp) and isinstance(v.orelse, ast.Dict)) or (isinstance(v, ast.BoolOp) and any(isinstance(y, ast.Dict) for y in v.values)):
                            names.add(x.targets[0].attr)
        self._dict_attrs[k] = names
        return names

    def scalar_attrs(self, cls) -> Set[str]:
        """Attributes of the class (and its ancestors) that are bound to a numeric / boolean / None constant somewhere: counters and flags.
        `self.x += 1` on those rebinds an immutable number; on anything else an augmented assignment writes into the array in place."""
        if cls is None:
            return set()
        if not hasattr(self, "_scalar_attrs"):
            self._scalar_attrs = {}
        k = (cls.module.name, cls.qualname)
        if k in self._scalar_attrs:
            return self._scalar_attrs[k]
        names = set()
        for c in self.index.mro(cls):
            for nm, v in c.attrs.items():
                if isinstance(v, ast.Constant) and isinstance(v.value, (int, float, bool)):
                    names.add(nm)
            for fi in c.methods.values():
                for x in ast.walk(fi.node):
                    if isinstance(x, ast.Assign) and isinstance(x.targets[0], ast.Attribute) and u(x.targets[0].value) == "self":
                        if _scalar_valued(x.value):
                            names.add(x.targets[0].attr)
        self._scalar_attrs[k] = names
        return names

    def _attr_type(self, cls, attr):
        """Class of self.<attr> when __init__ stores an annotated parameter there."""
        key = (cls.qualname, attr)
        if not hasattr(self, "_attr_types"):
            self._attr_types = {}
        if key in self._attr_types:
            return self._attr_types[key]
        res = None
        for c in self.index.mro(cls):
            init = c.methods.get("__init__")
            if init is None:
                continue
            ann = {a.arg: a.annotation for a in init.node.args.args if a.annotation is not None}
            for n in ast.walk(init.node):
                if isinstance(n, ast.Assign) and len(n.targets) == 1 and u(n.targets[0]) == f"self.{attr}" and isinstance(n.value, ast.Name) and n.value.id in ann:
                    r = self.index.resolve_name(c.module, u(ann[n.value.id]).strip("'\""))
                    from .index import ClassInfo
                    if isinstance(r, ClassInfo):
                        res = r
            if res is not None:
                break
        self._attr_types[key] = res
        return res

    # ------------------------------------------------------------------ per function
    def _analyse(self, fi):
        node = fi.node
        a = node.args
        params = [x.arg for x in a.posonlyargs + a.args]
        is_method = fi.cls is not None and params and params[0] in ("self", "cls") and not any("staticmethod" in d for d in fi.decorators)
        state: Dict[str, Tags] = {}
        kinds: Dict[str, str] = {}
        for i, p in enumerate(params):
            if is_method and i == 0:
                state[p] = frozenset([("S", "")]) if p == "self" else FRESH
            else:
                state[p] = frozenset([("P", p)])
        for x in a.kwonlyargs:
            state[x.arg] = frozenset([("P", x.arg)])
        # a parameter annotated `int` indexes like an integer (basic indexing: x[:, i] is a view), one annotated as an array like an array
        for x in a.posonlyargs + a.args + a.kwonlyargs:
            if x.annotation is not None:
                at = u(x.annotation)
                if at in ("int", "np.integer", "numbers.Integral"):
                    kinds[x.arg] = "int"
                elif at in ("np.ndarray", "numpy.ndarray", "np.array", "ArrayLike", "List[int]"):
                    kinds[x.arg] = "array"
        if a.vararg:
            state[a.vararg.arg] = UNK
        if a.kwarg:
            state[a.kwarg.arg] = FRESH
        summ = Summary()
        sites: List[WriteSite] = []
        ctx = _Ctx(self, fi, params, is_method, summ, sites, kinds)
        ctx.block(node.body, state, {})
        return summ, sites


class _Ctx:
    def __init__(self, an: Analyzer, fi, params, is_method, summ: Summary, sites, kinds):
        self.an = an
        self.fi = fi
        self.params = params
        self.is_method = is_method
        self.summ = summ
        self.sites = sites
        self.kinds = kinds
        self.seen_sites = set()
        # names bound to the *same Python object* as a parameter (Name-to-Name copies only), and names that may be scalars
        self.same_obj = {p: p for p in params}
        self.bare = set(params)

    # ---------------------------------------------------------- provenance of expressions
    def prov(self, n: ast.AST, st, objs) -> Tags:
        if n is None:
            return FRESH
        if isinstance(n, ast.Name):
            return st.get(n.id, FRESH if n.id not in ("self",) else frozenset([("S", "")]))
        if isinstance(n, ast.Constant):
            return FRESH
        if isinstance(n, (ast.List, ast.Tuple, ast.Set)):
            out = set()
            for e in n.elts:
                out |= self.prov(e.value if isinstance(e, ast.Starred) else e, st, objs)
            return frozenset(out or {F})
        if isinstance(n, ast.BoolOp):
            out = set()
            for v in n.values:
                out |= self.prov(v, st, objs)
            return frozenset(out or {F})
        if isinstance(n, (ast.BinOp, ast.Compare, ast.UnaryOp, ast.Dict, ast.ListComp, ast.SetComp, ast.DictComp, ast.GeneratorExp, ast.JoinedStr, ast.Lambda)):
            return FRESH
        if isinstance(n, ast.IfExp):
            return self.prov(n.body, st, objs) | self.prov(n.orelse, st, objs)
        if isinstance(n, ast.Starred):
            return self.prov(n.value, st, objs)
        if isinstance(n, ast.Attribute):
            base = n.value
            if isinstance(base, ast.Name) and base.id in objs:
                o = objs[base.id]
                if n.attr in o["attrs"]:
                    return o["attrs"][n.attr]
                return self._attr_of(o["base"], n.attr)
            b = self.prov(base, st, objs)
            return self._attr_of(b, n.attr)
        if isinstance(n, ast.Subscript):
            b = self.prov(n.value, st, objs)
            if not any(isinstance(t, tuple) for t in b) and C not in b:
                return b if U in b else FRESH
            basic = _is_basic_index(n.slice, self.kinds)
            if any(isinstance(t, tuple) and t[0] == "S" and t[1] in self.an.dict_attrs(self.fi.cls) for t in b):
                basic = True  # looking a value up in a dict held by the receiver returns the stored object itself
            if basic is True:
                return b
            if basic is False:
                return FRESH
            return frozenset({U} | {t for t in b if t in (F, C)})
        if isinstance(n, ast.Call):
            return self.call_prov(n, st, objs)
        if isinstance(n, ast.NamedExpr):
            return self.prov(n.value, st, objs)
        if isinstance(n, ast.Await):
            return UNK
        return UNK

    def _attr_of(self, b: Tags, attr: str) -> Tags:
        if attr in NON_ALIAS_ATTRS:
            return FRESH
        out = set()
        for t in b:
            if isinstance(t, tuple) and t[0] == "S" and t[1] == "":
                out.add(("S", attr))
            elif isinstance(t, tuple):
                out.add(t)
            elif t == C:
                out.add(C)
            elif t == U:
                out.add(U)
            else:
                out.add(F)
        return frozenset(out or {F})

    def call_prov(self, n: ast.Call, st, objs) -> Tags:
        fn = u(n.func)
        args = [a.value if isinstance(a, ast.Starred) else a for a in n.args]
        # out= returns the out array
        for k in n.keywords:
            if k.arg == "out":
                return self.prov(k.value, st, objs)
        if fn in REPLACE_FUNCS:
            return FRESH
        if fn in ("ragged_slice", "npstructures.ragged_slice"):
            return FRESH  # npstructures: gathers the slices into a new contiguous array
        if fn.startswith("np.") or fn.startswith("numpy."):
            name = fn.split(".")[-1]
            if name in NP_ALIAS_FUNCS and args:
                return self.prov(args[0], st, objs)
            return FRESH
        short = fn.split(".")[-1]
        if fn in WRAP_ALIAS_FUNCS or (short in WRAP_ALIAS_FUNCS and isinstance(n.func, ast.Name)):
            if not args:
                return FRESH
            b = self.prov(args[0], st, objs)
            if short in ("EncodedRaggedArray", "RaggedArray") and len(args) >= 2:
                sh = u(args[1])
                if "RaggedView" in sh:
                    return frozenset({C} if any(isinstance(t, tuple) or t == C for t in b) else {F})
                shp = args[1]
                if isinstance(shp, ast.Name) and self.kinds.get(shp.id) == "view":
                    return frozenset({C})
            return b
        if isinstance(n.func, ast.Attribute):
            recv = n.func.value
            meth = n.func.attr
            rb = self.prov(recv, st, objs)
            if meth in COPY_METHODS:
                return FRESH
            if meth in ALIAS_METHODS:
                # ravel() of a copy-on-write view is a fresh flat copy bound privately to the view
                return rb
            if meth == "__class__":
                return FRESH
            if fn == "self.__class__" or fn == "cls":
                return FRESH
        # repo function summaries
        r = self.an._resolve_call(self.fi, n)
        if r is not None:
            key, off = r
            self.an.resolved_calls += 1
            s = self.an.summaries.get(key)
            if s is None:
                return UNK
            out = set()
            for t in s.returns:
                if isinstance(t, tuple) and t[0] == "P":
                    idx = t[1] - off
                    if idx == -1 and off == 1:
                        # alias of the receiver (or of its state)
                        recv = n.func.value if isinstance(n.func, ast.Attribute) else None
                        if recv is not None:
                            if (isinstance(recv, ast.Name) and recv.id == "self") or (isinstance(recv, ast.Call) and u(recv.func) == "super"):
                                out.add(("S", "*"))
                            else:
                                out |= self.prov(recv, st, objs)
                        continue
                    if 0 <= idx < len(args):
                        out |= self.prov(args[idx], st, objs)
                    else:
                        callee = self.an.funcs[key]
                        pnames = [x.arg for x in callee.node.args.posonlyargs + callee.node.args.args]
                        kwv = [k.value for k in n.keywords if t[1] < len(pnames) and k.arg == pnames[t[1]]]
                        if kwv:
                            out |= self.prov(kwv[0], st, objs)
                        else:
                            out.add(U)
                elif isinstance(t, tuple) and t[0] == "S":
                    recv = n.func.value if isinstance(n.func, ast.Attribute) else None
                    if recv is not None and isinstance(recv, ast.Name) and recv.id == "self":
                        out.add(t)
                    else:
                        out.add(U)
                else:
                    out.add(t)
            return frozenset(out or {F})
        self.an.unresolved_calls += 1
        # constructor-like call of a class name: new object
        if isinstance(n.func, ast.Name) and n.func.id[:1].isupper():
            return UNK
        return UNK

    # ---------------------------------------------------------- writes
    def _record(self, tags: Tags, stmt: ast.AST, kind: str, via: str = ""):
        for t in tags:
            if isinstance(t, tuple) and t[0] in ("P", "S"):
                key = (getattr(stmt, "lineno", 0), kind, t)
                if key in self.seen_sites:
                    continue
                self.seen_sites.add(key)
                ws = WriteSite(self.fi.qualname, f"{self.fi.module.relpath}:{getattr(stmt, 'lineno', 0)} {self.fi.qualname}", u(stmt).split("\n")[0][:160], t, kind, via)
                self.sites.append(ws)
                if t[0] == "P" and t[1] in self.params:
                    self.summ.mutates.setdefault(self.params.index(t[1]), ws)
                elif t[0] == "S" and self.is_method:
                    self.summ.mutates.setdefault(0, ws)

    def _check_call_effects(self, n: ast.Call, st, objs, stmt):
        fn = u(n.func)
        args = [a.value if isinstance(a, ast.Starred) else a for a in n.args]
        for k in n.keywords:
            if k.arg == "out":
                self._record(self.prov(k.value, st, objs), stmt, "out=")
        if isinstance(n.func, ast.Attribute):
            if n.func.attr in INPLACE_METHODS and not fn.startswith("np."):
                self._record(self.prov(n.func.value, st, objs), stmt, "inplace-call")
            if n.func.attr in CONTAINER_MUTATORS and not fn.startswith("np."):
                recv = n.func.value
                # only through a local alias or an attribute chain that is known to alias (not a call result)
                self._record(frozenset(t for t in self.prov(recv, st, objs) if isinstance(t, tuple)), stmt,
                             "container-mutation" + ("-via-alias" if isinstance(recv, ast.Name) else ""))
            if n.func.attr == "at" and args and fn.startswith("np."):
                self._record(self.prov(args[0], st, objs), stmt, "inplace-call")
            if fn.startswith("np.") and n.func.attr in INPLACE_NP and args:
                self._record(self.prov(args[0], st, objs), stmt, "inplace-call")
        r = self.an._resolve_call(self.fi, n)
        if r is not None:
            key, off = r
            s = self.an.summaries.get(key)
            if s:
                for idx, ws in s.mutates.items():
                    j = idx - off
                    if j == -1 and off == 1:
                        recv = n.func.value if isinstance(n.func, ast.Attribute) else None
                        if recv is not None and not (isinstance(recv, ast.Name) and recv.id in ("self", "cls")) and not isinstance(recv, ast.Call):
                            self._record(self.prov(recv, st, objs), stmt, "callee-mutates", f"{key[1]} writes {ws.stmt}")
                        continue
                    if 0 <= j < len(args):
                        self._record(self.prov(args[j], st, objs), stmt, "callee-mutates", f"{key[1]} writes `{ws.stmt}`")
                    else:
                        callee = self.an.funcs[key]
                        pnames = [x.arg for x in callee.node.args.posonlyargs + callee.node.args.args]
                        for k in n.keywords:
                            if idx < len(pnames) and k.arg == pnames[idx]:
                                self._record(self.prov(k.value, st, objs), stmt, "callee-mutates", f"{key[1]} writes `{ws.stmt}`")

    def _scan_calls(self, n: ast.AST, st, objs, stmt):
        for x in walk_local(n):
            if isinstance(x, ast.Call):
                self._check_call_effects(x, st, objs, stmt)

    # ---------------------------------------------------------- statements
    def _kind_of(self, v: ast.AST) -> Optional[str]:
        if isinstance(v, ast.Constant) and isinstance(v.value, int):
            return "int"
        if isinstance(v, ast.Call):
            fn = u(v.func)
            if fn in INT_FUNCS:
                return "int"
            if "RaggedView" in fn:
                return "view"
            if fn.startswith("np.") or fn.endswith(".raw") or fn.endswith("argsort") or fn.endswith("flatnonzero"):
                return "array"
        if isinstance(v, (ast.Compare, ast.List, ast.ListComp)):
            return "array"
        if isinstance(v, ast.BinOp):
            l, r = self._kind_of(v.left), self._kind_of(v.right)
            if l == "int" and r == "int":
                return "int"
            if "array" in (l, r):
                return "array"
            if isinstance(v.left, ast.Name) and self.kinds.get(v.left.id) == "int" and r == "int":
                return "int"
        if isinstance(v, ast.Name):
            return self.kinds.get(v.id)
        if isinstance(v, ast.Attribute) and v.attr in ("size", "ndim"):
            return "int"
        return None

    def assign(self, target, value_tags: Tags, value_node, st, objs, stmt):
        if isinstance(target, ast.Name):
            replaced_base = replaced_obj = None
            if value_node is not None and isinstance(value_node, ast.Call) and u(value_node.func) in REPLACE_FUNCS and value_node.args:
                # evaluated BEFORE the target is rebound: `data = dataclasses.replace(data)` copies the object, its columns are still the argument's arrays
                replaced_base = self.prov(value_node.args[0], st, objs)
                a0 = value_node.args[0]
                replaced_obj = dict(objs[a0.id]["attrs"]) if isinstance(a0, ast.Name) and a0.id in objs else {}
                replaced_obj.update({k.arg: self.prov(k.value, st, objs) for k in value_node.keywords if k.arg})
            st[target.id] = value_tags
            objs.pop(target.id, None)
            if isinstance(value_node, ast.Name) and value_node.id in self.same_obj:
                self.same_obj[target.id] = self.same_obj[value_node.id]
            else:
                self.same_obj.pop(target.id, None)
            if isinstance(value_node, ast.Name) and value_node.id in self.bare:
                self.bare.add(target.id)
            else:
                self.bare.discard(target.id)
            k = self._kind_of(value_node) if value_node is not None else None
            if k:
                self.kinds[target.id] = k
            else:
                self.kinds.pop(target.id, None)
            if replaced_base is not None:
                objs[target.id] = {"base": replaced_base, "attrs": replaced_obj}
        elif isinstance(target, (ast.Tuple, ast.List)):
            vals = value_node.elts if isinstance(value_node, (ast.Tuple, ast.List)) and len(value_node.elts) == len(target.elts) else None
            for i, t in enumerate(target.elts):
                if vals is not None:
                    self.assign(t, self.prov(vals[i], st, objs), vals[i], st, objs, stmt)
                else:
                    self.assign(t, value_tags, None, st, objs, stmt)
        elif isinstance(target, ast.Starred):
            self.assign(target.value, value_tags, None, st, objs, stmt)
        elif isinstance(target, ast.Subscript):
            self._record(self.prov(target.value, st, objs), stmt, "store")
        elif isinstance(target, ast.Attribute):
            base = target.value
            if isinstance(base, ast.Name) and base.id in objs:
                objs[base.id]["attrs"][target.attr] = value_tags
                return
            if isinstance(base, ast.Name) and base.id == "self":
                return  # rebinding an attribute of the receiver: object state, handled by memo/alignment rules
            # setattr mutates the caller's object only if the base *is* the parameter object (indexing / wrapping create new objects)
            if isinstance(base, ast.Name) and base.id in self.same_obj:
                self._record(frozenset([("P", self.same_obj[base.id])]), stmt, "setattr")

    def block(self, stmts, st, objs):
        for s in stmts:
            if st is None:
                return None
            st = self.stmt(s, st, objs)
        return st

    def _merge(self, a, b):
        if a is None:
            return b
        if b is None:
            return a
        out = dict(a)
        for k, v in b.items():
            out[k] = (out[k] | v) if k in out else v
        return out

    def stmt(self, s, st, objs):
        if isinstance(s, (ast.FunctionDef, ast.AsyncFunctionDef, ast.ClassDef, ast.Import, ast.ImportFrom, ast.Pass, ast.Global, ast.Nonlocal)):
            return st
        if isinstance(s, ast.Assign):
            self._scan_calls(s.value, st, objs, s)
            vt = self.prov(s.value, st, objs)
            for t in s.targets:
                if isinstance(t, ast.Subscript):
                    self._scan_calls(t, st, objs, s)
                self.assign(t, vt, s.value, st, objs, s)
            return st
        if isinstance(s, ast.AnnAssign):
            if s.value is not None:
                self._scan_calls(s.value, st, objs, s)
                self.assign(s.target, self.prov(s.value, st, objs), s.value, st, objs, s)
            return st
        if isinstance(s, ast.AugAssign):
            self._scan_calls(s.value, st, objs, s)
            t = s.target
            if isinstance(t, ast.Name):
                tags = st.get(t.id, FRESH)
                # in place for arrays; a bare parameter name may be a scalar: only chains through an attribute/subscript/wrapper are array-valued for sure
                if self.kinds.get(t.id) != "int" and t.id not in self.bare:
                    self._record(frozenset(x for x in tags if isinstance(x, tuple)), s, "augassign")
                return st
            if isinstance(t, ast.Subscript):
                self._record(self.prov(t.value, st, objs), s, "augassign")
                return st
            if isinstance(t, ast.Attribute):
                base = t.value
                if isinstance(base, ast.Name) and base.id in objs:
                    o = objs[base.id]
                    cur = o["attrs"].get(t.attr, self._attr_of(o["base"], t.attr))
                    self._record(frozenset(x for x in cur if isinstance(x, tuple)), s, "augassign")
                    return st
                if isinstance(base, ast.Name) and base.id == "self":
                    if t.attr not in self.an.scalar_attrs(self.fi.cls):
                        self._record(frozenset({("S", t.attr)}), s, "augassign")
                    return st
                self._record(frozenset(x for x in self.prov(t, st, objs) if isinstance(x, tuple) and x[0] == "P"), s, "augassign")
                return st
            return st
        if isinstance(s, ast.Expr):
            self._scan_calls(s.value, st, objs, s)
            return st
        if isinstance(s, ast.Return):
            if s.value is not None:
                self._scan_calls(s.value, st, objs, s)
                tags = self.prov(s.value, st, objs)
                for t in tags:
                    if isinstance(t, tuple) and t[0] == "P" and t[1] in self.params:
                        self.summ.returns.add(("P", self.params.index(t[1])))
                    elif isinstance(t, tuple) and t[0] == "S":
                        self.summ.returns.add(("P", 0) if self.is_method else U)
                    else:
                        self.summ.returns.add(t)
            return None
        if isinstance(s, ast.Raise):
            return None
        if isinstance(s, ast.If):
            self._scan_calls(s.test, st, objs, s)
            o1, o2 = dict(objs), dict(objs)
            a = self.block(s.body, dict(st), o1)
            b = self.block(s.orelse, dict(st), o2) if s.orelse else dict(st)
            objs.clear()
            objs.update({k: v for k, v in o1.items() if k in o2})
            return self._merge(a, b)
        if isinstance(s, (ast.For, ast.AsyncFor)):
            self._scan_calls(s.iter, st, objs, s)
            it = self.prov(s.iter, st, objs)
            elem = frozenset({U} if any(isinstance(t, tuple) for t in it) else {F})
            if isinstance(s.iter, ast.Call) and u(s.iter.func) in ("range", "enumerate", "zip"):
                elem = FRESH if u(s.iter.func) == "range" else elem
                if u(s.iter.func) == "range" and isinstance(s.target, ast.Name):
                    self.kinds[s.target.id] = "int"
            cur = dict(st)
            for _ in range(2):
                body_st = dict(cur)
                self.assign(s.target, elem, None, body_st, objs, s)
                out = self.block(s.body, body_st, objs)
                cur = self._merge(cur, out)
            if s.orelse:
                cur = self.block(s.orelse, cur, objs)
            return cur
        if isinstance(s, ast.While):
            self._scan_calls(s.test, st, objs, s)
            cur = dict(st)
            for _ in range(2):
                out = self.block(s.body, dict(cur), objs)
                cur = self._merge(cur, out)
            return cur
        if isinstance(s, ast.Try):
            a = self.block(s.body, dict(st), objs)
            res = a
            for h in s.handlers:
                hs = self._merge(dict(st), a)
                if h.name:
                    hs[h.name] = FRESH
                res = self._merge(res, self.block(h.body, hs, objs))
            if s.orelse and a is not None:
                res = self._merge(res, self.block(s.orelse, dict(a), objs))
            if s.finalbody:
                res = self.block(s.finalbody, res if res is not None else dict(st), objs)
            return res
        if isinstance(s, (ast.With, ast.AsyncWith)):
            for it in s.items:
                self._scan_calls(it.context_expr, st, objs, s)
                if it.optional_vars is not None:
                    self.assign(it.optional_vars, UNK, None, st, objs, s)
            return self.block(s.body, st, objs)
        if isinstance(s, ast.Assert):
            return st
        if isinstance(s, ast.Delete):
            for t in s.targets:
                if isinstance(t, ast.Subscript):
                    self._record(self.prov(t.value, st, objs), s, "store")
            return st
        return st
