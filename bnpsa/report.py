"""E6: obligations, floors, evidence JSON, replay files, known-finding matching, exit codes."""
from __future__ import annotations
import ast
import contextlib
import hashlib
import json
import os
import re
import time
import traceback
from typing import Optional, List, Dict, Any

from .index import Index, AnchorMissing, Unrecognised

VERIF = os.path.dirname(os.path.dirname(os.path.abspath(__file__)))
SMALL_LINES = 4     # a function that differs from its reference form in more lines than this counts as rewritten


def norm_stmt(node_or_text) -> str:
    """Normalised statement text used in finding keys (never line numbers)."""
    if isinstance(node_or_text, ast.AST):
        try:
            t = ast.unparse(node_or_text)
        except Exception:
            t = ast.dump(node_or_text)
    else:
        t = str(node_or_text)
    t = re.sub(r"\s+", " ", t).strip()
    return t[:200]


class Ctx:
    def __init__(self, prop: str, tier: str = "quick", root: str = "/repo", seed: int = 0, write: bool = True):
        self.prop = prop
        self.tier = tier
        self.root = root
        self.seed = seed
        self.write = write
        self.t0 = time.time()
        self.index = Index(root)
        self.obligations: List[Dict[str, Any]] = []
        self.violations: List[Dict[str, Any]] = []
        self.analysis_errors: List[str] = []
        self.notes: List[str] = []
        self.floors: List[Dict[str, Any]] = []
        self.counters: Dict[str, int] = {}
        self.rules_run: List[str] = []
        self.assumptions: List[str] = []
        self.current_rule = "?"
        self.selftest: Optional[dict] = None
        self.known = self._load_known()

    # ------------------------------------------------------------------ known findings
    def _load_known(self):
        p = os.path.join(VERIF, "known_findings.json")
        if not os.path.exists(p):
            return []
        with open(p) as f:
            data = json.load(f)
        return [e for e in data.get("findings", []) if e.get("property") == self.prop]

    # ------------------------------------------------------------------ recording
    def count(self, name: str, n: int = 1):
        self.counters[name] = self.counters.get(name, 0) + n

    def note(self, text: str):
        self.notes.append(text)

    def assume(self, text: str):
        if text not in self.assumptions:
            self.assumptions.append(text)

    @contextlib.contextmanager
    def only(self, *where_parts: str):
        """Run a clause borrowed from another property but keep only its obligations located in constructs that matter for this property
        (`where` must contain one of the given parts); the rest of the borrowed clause is not this property's business."""
        old = getattr(self, "_only", None)
        self._only = tuple(where_parts)
        try:
            yield self
        finally:
            self._only = old

    def function_status(self, where: str) -> str:
        """How the function a construct lies in relates to its form on the reference tree: 'same' (identical up to the comparison normal form and spelling),
        'small' (differs by a small edit: at most two substituted expressions / operators / tokens, a deleted statement, a new early exit), 'rewritten' (anything
        larger), 'new' (no reference form), '' (the construct is not inside a function)."""
        m = re.match(r"(\S+?\.py):\d+ (\S+)", where)
        if not m:
            return ""
        cache = self.__dict__.setdefault("_fn_status", {})
        key = (m.group(1), m.group(2))
        if key in cache:
            return cache[key]
        from . import normalize
        from .through_time import small_edits
        mod = m.group(1)[:-3].replace("/", ".")
        if mod.endswith(".__init__"):
            mod = mod[: -len(".__init__")]
        st = ""
        try:
            mi = self.index.modules.get(mod)
            fi = mi.functions.get(m.group(2)) if mi is not None else None
            if fi is not None and not isinstance(fi.node, ast.Lambda):
                ref = normalize.load_table().get(mod, {}).get(m.group(2))
                if ref is None or not ref.get("src"):
                    st = "new"
                elif ref.get("digest") == normalize.digest(fi.node):
                    st = "same"
                else:
                    from .spelling import changed_lines
                    n = changed_lines(ref["src"], fi.node)
                    st = "same" if n == 0 else ("small" if n <= int(os.environ.get("BNPSA_SMALL_LINES", str(SMALL_LINES))) else "rewritten")
        except Exception:
            st = ""
        cache[key] = st
        return st

    def ob(self, where: str, what: str, ok: bool, detail: str = "", key: Optional[str] = None, rule: Optional[str] = None, definite: bool = False):
        """Record one obligation.  ok=False is a violation when the clause's construct lies in a function that still has its confirmed form or differs from it by a
        small edit (or when the rule positively recognised a wrong form: definite=True).  If the function was REWRITTEN since the reference tree, a clause that compares
        a construct with its confirmed form cannot tell a new correct formulation from a wrong one: that is 'cannot follow' (analysis error, exit 2), not a violation."""
        flt = getattr(self, "_only", None)
        if flt and not any(p in where or p in what for p in flt):
            return ok
        rule = rule or self.current_rule
        if not ok and not definite and os.environ.get("BNPSA_STRICT_FORMS") != "1" and not rule.endswith(("-T1", "-T2")):
            st = self.function_status(where)
            if st in ("rewritten", "new"):
                rec = {"rule": rule, "where": where, "what": what, "verdict": "UNDECIDED (function rewritten)"}
                if detail:
                    rec["detail"] = detail
                self.obligations.append(rec)
                msg = f"{rule}: Unrecognised: {where} was rewritten since the reference tree (not a small edit) and the clause `{what[:120]}` no longer matches the confirmed form: cannot follow"
                if msg not in self.analysis_errors:
                    self.analysis_errors.append(msg)
                return ok
        rec = {"rule": rule, "where": where, "what": what, "verdict": "holds" if ok else "VIOLATED"}
        if detail:
            rec["detail"] = detail
        self.obligations.append(rec)
        if not ok:
            k = key or f"{rule}|{re.sub(r':[0-9]+', '', where)}|{norm_stmt(what)}"
            rec["key"] = k
            self.violations.append(rec)
        return ok

    def floor(self, what: str, found: int, minimum: int, rule: Optional[str] = None):
        rule = rule or self.current_rule
        self.floors.append({"rule": rule, "what": what, "found": found, "floor": minimum})
        if found < minimum:
            raise AnchorMissing(f"{rule}: instance count for '{what}' is {found}, below the hand-confirmed floor {minimum}")

    def need(self, cond, msg: str):
        if not cond:
            raise Unrecognised(msg)

    # ------------------------------------------------------------------ running
    def run_rules(self, rules):
        for rid, fn in rules:
            self.current_rule = rid
            self.rules_run.append(rid)
            try:
                fn(self)
            except (AnchorMissing, Unrecognised) as e:
                self.analysis_errors.append(f"{rid}: {type(e).__name__}: {e}")
            except Exception as e:  # a crash in the checker is an analysis error, never a verdict
                tb = traceback.format_exc(limit=6)
                self.analysis_errors.append(f"{rid}: checker exception {type(e).__name__}: {e}\n{tb}")
        self.current_rule = "?"

    # ------------------------------------------------------------------ finishing
    def finish(self, level_explanation: str) -> int:
        unlisted, listed = [], []
        for v in self.violations:
            m = [k for k in self.known if k.get("key") == v["key"]]
            (listed if m else unlisted).append((v, m[0] if m else None))
        out_lines = []
        seen_known = set()
        for v, k in listed:
            if v["key"] in seen_known:
                continue
            seen_known.add(v["key"])
            out_lines.append(f"KNOWN-FINDING: property={self.prop} {k.get('what', v['what'])} [{v['rule']} at {v['where']}]")
        replay_paths = []
        for v, _ in unlisted:
            h = hashlib.sha1(v["key"].encode()).hexdigest()[:12]
            rp = os.path.join(VERIF, "replay", self.prop, f"{h}.json")
            if self.write:
                os.makedirs(os.path.dirname(rp), exist_ok=True)
                with open(rp, "w") as f:
                    json.dump({"property": self.prop, "rule": v["rule"], "key": v["key"], "where": v["where"],
                               "what": v["what"], "detail": v.get("detail", ""), "root": self.root}, f, indent=1)
            replay_paths.append(rp)
            out_lines.append(f"VIOLATION property={self.prop} replay={rp}")
            out_lines.append(f"  rule={v['rule']} at {v['where']}: {v['what']}" + (f" -- {v['detail']}" if v.get("detail") else ""))
        for e in self.analysis_errors:
            out_lines.append(f"ANALYSIS-ERROR property={self.prop} {e}")
        for n in self.notes:
            if "-T2 " in n:
                out_lines.append(f"NOTE property={self.prop} {n[:400]}")
        n_ob = len(self.obligations)
        n_ok = sum(1 for o in self.obligations if o["verdict"] == "holds")
        distinct = len({(o["rule"], o["where"], o["what"]) for o in self.obligations})
        wall = time.time() - self.t0
        samples = self.obligations[:12] + ([o for o in self.obligations if o["verdict"] != "holds"][:8])
        ev = {
            "property_id": self.prop,
            "tier": self.tier,
            "seed": int(self.seed),
            "level": "other",
            "coverage": {
                "explanation": level_explanation,
                "evaluations": n_ob,
                "distinct_nontrivial": distinct,
                "rule": "one evaluation = one rule instance (obligation) located in the current source of /repo/bionumpy and decided; "
                        "distinct = distinct (rule, construct, statement of obligation); an instance counts only when the construct was found and examined",
                "obligations": n_ob,
                "discharged": n_ok,
                "samples": samples if samples else [{"note": "no obligation could be examined"}],
                "rules_run": self.rules_run,
                "floors": self.floors,
                "counters": self.counters,
                "index": self.index.stats(),
                "root_analysed": self.root,
                "known_findings_matched": [v["key"] for v, _ in listed],
                "analysis_errors": self.analysis_errors,
                "notes": self.notes,
                "all_obligations": self.obligations if self.tier == "thorough" else None,
                "selftest": self.selftest,
                "exhaustive": False,
            },
            "assumptions": self.assumptions + [
                "Python's ast module parses the source the interpreter would run",
                "name-based call and class resolution inside the bionumpy package (no type inference available offline)",
                "verdicts concern the decided structural clauses listed in DESIGN.md section 6 for this property, not observed behaviour",
            ],
            "wall_s": round(wall, 3),
            "violations": len(unlisted),
        }
        ev["coverage"] = {k: v for k, v in ev["coverage"].items() if v is not None}
        if self.write:
            os.makedirs(os.path.join(VERIF, "evidence"), exist_ok=True)
            with open(os.path.join(VERIF, "evidence", f"{self.prop}.json"), "w") as f:
                json.dump(ev, f, indent=1, default=str)
        print(f"bnpsa {self.prop} tier={self.tier} root={self.root}: rules={len(self.rules_run)} obligations={n_ob} discharged={n_ok} "
              f"violations={len(unlisted)} known={len(listed)} analysis_errors={len(self.analysis_errors)} wall={wall:.2f}s")
        for l in out_lines:
            print(l)
        if unlisted:
            return 1
        if self.analysis_errors:
            return 2
        return 0
