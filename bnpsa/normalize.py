"""E0b: bring every function into a *comparison normal form* before any rule looks at it, so that edits that cannot change behaviour
do not change what the rules see:

  1. `if not C: A else: B`  ->  `if C: B else: A`                         (branch flip)
  2. local variables are renamed back to the vocabulary the rules are written in (bnpsa/tables/ref_locals.json, generated from the
     tree the rules were confirmed on): a local whose defining expression / binding position matches a reference local that no longer
     exists under its old name is given that name again.  Any bijective renaming of locals is behaviour-preserving, so whatever the
     alignment decides, the renamed view is equivalent to the code under analysis: a wrong or failed alignment can only make a rule
     report an unknown form, it can never hide a violation.
  3. a local that is *not* in the reference vocabulary, is assigned once, read once, and read in the statement that directly follows
     its assignment before any other call is evaluated there, is a freshly introduced temporary: it is substituted into its use
     (`_rv = E; return _rv` -> `return E`).  The restriction keeps evaluation order intact.

Nothing is written back; the normal form exists only inside the analysis.  The report says which functions were renamed / inlined."""
from __future__ import annotations
import ast
import copy
import json
import os
from typing import Dict, List, Optional, Tuple

TABLE_PATH = os.path.join(os.path.dirname(__file__), "tables", "ref_locals.json")
_SCOPES = (ast.FunctionDef, ast.AsyncFunctionDef, ast.Lambda, ast.ListComp, ast.SetComp, ast.DictComp, ast.GeneratorExp, ast.ClassDef)
_COMPS = (ast.ListComp, ast.SetComp, ast.DictComp, ast.GeneratorExp)


# ----------------------------------------------------------------------------------------------- 1. branch flip
class _FlipIfs(ast.NodeTransformer):
    def visit_If(self, node):
        self.generic_visit(node)
        t = node.test
        if node.orelse and isinstance(t, ast.UnaryOp) and isinstance(t.op, ast.Not):
            node.test = t.operand
            node.body, node.orelse = node.orelse, node.body
        return node

    def visit_IfExp(self, node):
        self.generic_visit(node)
        t = node.test
        if isinstance(t, ast.UnaryOp) and isinstance(t.op, ast.Not):
            node.test = t.operand
            node.body, node.orelse = node.orelse, node.body
        return node


def _terminates(stmts) -> bool:
    if not stmts:
        return False
    last = stmts[-1]
    if isinstance(last, (ast.Return, ast.Raise, ast.Continue, ast.Break)):
        return True
    if isinstance(last, ast.If) and last.orelse:
        return _terminates(last.body) and _terminates(last.orelse)
    return False


class _FlattenElse(ast.NodeTransformer):
    """`if c: A (ends in return/raise/continue/break) else: B`  ->  `if c: A` followed by B"""

    def _block(self, body):
        out = []
        for s in body:
            s = self.visit(s)
            out.append(s)
            while isinstance(out[-1], ast.If) and out[-1].orelse and _terminates(out[-1].body):
                last = out[-1]
                tail = last.orelse
                last.orelse = []
                out.extend(tail)
        return out

    def generic_visit(self, node):
        for f in ("body", "orelse", "finalbody"):
            v = getattr(node, f, None)
            if isinstance(v, list) and v and isinstance(v[0], ast.stmt):
                setattr(node, f, self._block(v))
        if isinstance(node, ast.Try):
            for h in node.handlers:
                h.body = self._block(h.body)
        if hasattr(ast, "Match") and isinstance(node, ast.Match):
            for c in node.cases:
                c.body = self._block(c.body)
        return node


class _Elseify(ast.NodeTransformer):
    """`if c: A (ends in return/raise/continue/break)` followed by T  ->  `if c: A else: T`: both sides of an early exit become branches of one test, so
    that it does not matter which side the author put under the test (`if not c: T...; A` becomes the same tree after the polarity flip)."""

    def _block(self, body):
        body = [self.visit(s) for s in body]
        for i, s in enumerate(body[:-1]):
            if isinstance(s, ast.If) and not s.orelse and _terminates(s.body) and not any(isinstance(x, (ast.FunctionDef, ast.AsyncFunctionDef, ast.ClassDef, ast.Global, ast.Nonlocal))
                                                                                         for x in body[i + 1:]):
                s.orelse = self._block_done(body[i + 1:])
                return body[:i + 1]
        return body

    def _block_done(self, body):
        # the tail was already visited statement by statement; only look for further early exits inside it
        for i, s in enumerate(body[:-1]):
            if isinstance(s, ast.If) and not s.orelse and _terminates(s.body) and not any(isinstance(x, (ast.FunctionDef, ast.AsyncFunctionDef, ast.ClassDef, ast.Global, ast.Nonlocal))
                                                                                         for x in body[i + 1:]):
                s.orelse = self._block_done(body[i + 1:])
                return body[:i + 1]
        return body

    def generic_visit(self, node):
        for f in ("body", "orelse", "finalbody"):
            v = getattr(node, f, None)
            if isinstance(v, list) and v and isinstance(v[0], ast.stmt):
                setattr(node, f, self._block(v))
        if isinstance(node, ast.Try):
            for h in node.handlers:
                h.body = self._block(h.body)
        return node


def _size(stmts) -> int:
    return sum(1 for s in stmts for _ in ast.walk(s))


class _GuardFirst(ast.NodeTransformer):
    """`if c: A; T` with A and T both ending in return/raise/... is the same as `if not c: T; A`.  NOT part of the normal form (which side is smaller
    changes with ordinary edits, so it would not be stable); kept for the guard-swap refactoring variant of tools/refactor_variants.py, which checks
    that the rules do not depend on which side an author put under the test."""

    always = False

    def _block(self, body):
        body = [self.visit(s) for s in body]
        for i, s in enumerate(body):
            if isinstance(s, ast.If) and not s.orelse and _terminates(s.body):
                tail = body[i + 1:]
                if tail and _terminates(tail) and not any(isinstance(x, (ast.FunctionDef, ast.AsyncFunctionDef, ast.ClassDef)) for x in tail) and (self.always or _size(s.body) > _size(tail)):
                    t = s.test
                    s.test = t.operand if isinstance(t, ast.UnaryOp) and isinstance(t.op, ast.Not) else ast.copy_location(ast.UnaryOp(op=ast.Not(), operand=t), t)
                    new_tail = s.body
                    s.body = tail
                    return body[:i + 1] + self._block(new_tail)
        return body

    def generic_visit(self, node):
        for f in ("body", "orelse", "finalbody"):
            v = getattr(node, f, None)
            if isinstance(v, list) and v and isinstance(v[0], ast.stmt):
                setattr(node, f, self._block(v))
        if isinstance(node, ast.Try):
            for h in node.handlers:
                h.body = self._block(h.body)
        return node


class _NotSpelling(ast.NodeTransformer):
    """negations that have a positive spelling of their own are written that way before polarity is decided: `not a is b` -> `a is not b`,
    `not a in b` -> `a not in b`"""

    def visit_UnaryOp(self, node):
        self.generic_visit(node)
        if isinstance(node.op, ast.Not):
            o = node.operand
            if isinstance(o, ast.Compare) and len(o.ops) == 1 and isinstance(o.ops[0], (ast.Is, ast.IsNot, ast.In, ast.NotIn)):
                flip = {ast.Is: ast.IsNot, ast.IsNot: ast.Is, ast.In: ast.NotIn, ast.NotIn: ast.In}[type(o.ops[0])]
                return ast.copy_location(ast.Compare(left=o.left, ops=[flip()], comparators=o.comparators), node)
        return node


def flip_ifs(tree: ast.AST) -> None:
    _NotSpelling().visit(tree)
    ast.fix_missing_locations(tree)
    _Elseify().visit(tree)
    _FlipIfs().visit(tree)


# ----------------------------------------------------------------------------------------------- scopes
def params_of(fn) -> set:
    a = fn.args
    return {x.arg for x in a.posonlyargs + a.args + a.kwonlyargs} | ({a.vararg.arg} if a.vararg else set()) | ({a.kwarg.arg} if a.kwarg else set())


def _local_nodes(fn):
    """nodes of the function body that belong to its own scope (the first iterable of a comprehension does, the rest of it does not)"""
    todo = list(reversed(fn.body))
    while todo:
        n = todo.pop()
        if isinstance(n, (ast.FunctionDef, ast.AsyncFunctionDef, ast.ClassDef)):
            for d in n.decorator_list:
                todo.append(d)
            continue
        if isinstance(n, ast.Lambda):
            continue
        if isinstance(n, _COMPS):
            todo.append(n.generators[0].iter)
            continue
        yield n
        todo.extend(reversed(list(ast.iter_child_nodes(n))))


def unsafe_names(fn) -> set:
    """names bound by something other than a Name store (import alias, except-as, nested def, global/nonlocal, walrus, match capture)"""
    out = set()
    for n in ast.walk(fn):
        if n is fn:
            continue
        if isinstance(n, (ast.Import, ast.ImportFrom)):
            for a in n.names:
                out.add((a.asname or a.name).split(".")[0])
        elif isinstance(n, ast.ExceptHandler) and n.name:
            out.add(n.name)
        elif isinstance(n, (ast.Global, ast.Nonlocal)):
            out.update(n.names)
        elif isinstance(n, (ast.FunctionDef, ast.AsyncFunctionDef, ast.ClassDef)):
            out.add(n.name)
        elif isinstance(n, ast.NamedExpr):
            out.add(n.target.id)
        elif hasattr(ast, "MatchAs") and isinstance(n, (ast.MatchAs, ast.MatchStar)) and n.name:
            out.add(n.name)
    return out


def binding_sites(fn) -> List[Tuple[str, str, Optional[ast.AST]]]:
    """(name, kind, defining expression) for every Name store of the function's own scope, in source order"""
    out = []

    def tgt(t, kind, val, path=""):
        if isinstance(t, ast.Name):
            out.append((t.id, kind + path, val))
        elif isinstance(t, (ast.Tuple, ast.List)):
            for i, e in enumerate(t.elts):
                tgt(e, kind, val, f"{path}.{i}")
        elif isinstance(t, ast.Starred):
            tgt(t.value, kind, val, path + "*")

    for n in _local_nodes(fn):
        if isinstance(n, ast.Assign):
            for t in n.targets:
                tgt(t, "assign", n.value)
        elif isinstance(n, ast.AnnAssign) and n.value is not None:
            tgt(n.target, "assign", n.value)
        elif isinstance(n, (ast.For, ast.AsyncFor)):
            tgt(n.target, "for", n.iter)
        elif isinstance(n, (ast.With, ast.AsyncWith)):
            for it in n.items:
                if it.optional_vars is not None:
                    tgt(it.optional_vars, "with", it.context_expr)
    return out


def local_names(fn) -> List[str]:
    bad = unsafe_names(fn) | params_of(fn)
    seen = []
    for name, _, _ in binding_sites(fn):
        if name not in bad and name not in seen:
            seen.append(name)
    return seen


def uses_dynamic_scope(fn) -> bool:
    return any(isinstance(n, ast.Call) and isinstance(n.func, ast.Name) and n.func.id in ("locals", "vars", "eval", "exec", "globals") for n in ast.walk(fn))


# ----------------------------------------------------------------------------------------------- renaming
class _Renamer(ast.NodeTransformer):
    """apply a renaming of one function's locals; nested scopes that rebind a name keep their own variable"""

    def __init__(self, mapping):
        self.stack = [dict(mapping)]

    def _bound(self, node) -> set:
        out = set()
        if isinstance(node, (ast.FunctionDef, ast.AsyncFunctionDef, ast.Lambda)):
            out |= params_of(node)
        if isinstance(node, (ast.FunctionDef, ast.AsyncFunctionDef)):
            out |= {n for n, _, _ in binding_sites(node)} | unsafe_names(node)
        if isinstance(node, _COMPS):
            for g in node.generators:
                out |= {x.id for x in ast.walk(g.target) if isinstance(x, ast.Name)}
        return out

    def _scoped(self, node, inner):
        cur = {k: v for k, v in self.stack[-1].items() if k not in self._bound(node)}
        self.stack.append(cur)
        try:
            inner()
        finally:
            self.stack.pop()
        return node

    def visit_FunctionDef(self, node):
        node.decorator_list = [self.visit(d) for d in node.decorator_list]
        a = node.args
        a.defaults = [self.visit(d) for d in a.defaults]
        a.kw_defaults = [self.visit(d) if d is not None else None for d in a.kw_defaults]

        def inner():
            node.body = [self.visit(s) for s in node.body]
        return self._scoped(node, inner)
    visit_AsyncFunctionDef = visit_FunctionDef

    def visit_Lambda(self, node):
        a = node.args
        a.defaults = [self.visit(d) for d in a.defaults]
        a.kw_defaults = [self.visit(d) if d is not None else None for d in a.kw_defaults]

        def inner():
            node.body = self.visit(node.body)
        return self._scoped(node, inner)

    def visit_ClassDef(self, node):
        node.decorator_list = [self.visit(d) for d in node.decorator_list]
        node.bases = [self.visit(b) for b in node.bases]
        body_bound = {n for n, _, _ in binding_sites(node)} | unsafe_names(node)
        outer = self.stack[-1]
        new_body = []
        for s in node.body:
            if isinstance(s, (ast.FunctionDef, ast.AsyncFunctionDef)):
                new_body.append(self.visit(s))          # methods do not see class-body names
            else:
                self.stack.append({k: v for k, v in outer.items() if k not in body_bound})
                new_body.append(self.visit(s))
                self.stack.pop()
        node.body = new_body
        return node

    def _comp(self, node):
        first = node.generators[0]
        first.iter = self.visit(first.iter)

        def inner():
            first.target = self.visit(first.target)
            first.ifs = [self.visit(i) for i in first.ifs]
            for g in node.generators[1:]:
                g.iter = self.visit(g.iter)
                g.target = self.visit(g.target)
                g.ifs = [self.visit(i) for i in g.ifs]
            if isinstance(node, ast.DictComp):
                node.key = self.visit(node.key)
                node.value = self.visit(node.value)
            else:
                node.elt = self.visit(node.elt)
        return self._scoped(node, inner)
    visit_ListComp = visit_SetComp = visit_DictComp = visit_GeneratorExp = _comp

    def visit_Name(self, node):
        m = self.stack[-1].get(node.id)
        if m:
            node.id = m
        return node


def rename_locals(fn, mapping: Dict[str, str]) -> None:
    """rename locals of `fn` in place (the function's own body; signature untouched)"""
    if not mapping:
        return
    r = _Renamer(mapping)
    fn.body = [r.visit(s) for s in fn.body]


# ----------------------------------------------------------------------------------------------- 2. alignment
def free_names(scope) -> set:
    """names read in the body of `scope` (function / lambda / comprehension) that it does not bind itself; nested scopes contribute
    their own free names"""
    if isinstance(scope, (ast.FunctionDef, ast.AsyncFunctionDef)):
        bound = params_of(scope) | {n for n, _, _ in binding_sites(scope)} | unsafe_names(scope)
        roots = list(scope.body)
    elif isinstance(scope, ast.Lambda):
        bound = params_of(scope)
        roots = [scope.body]
    elif isinstance(scope, _COMPS):
        bound = set()
        for g in scope.generators:
            bound |= {x.id for x in ast.walk(g.target) if isinstance(x, ast.Name)}
        roots = [g.iter for g in scope.generators[1:]] + [i for g in scope.generators for i in g.ifs]
        roots += [scope.key, scope.value] if isinstance(scope, ast.DictComp) else [scope.elt]
    elif isinstance(scope, ast.ClassDef):
        bound = set()
        roots = list(scope.body)
    else:
        return set()
    out = set()
    todo = list(roots)
    while todo:
        n = todo.pop()
        if isinstance(n, (ast.FunctionDef, ast.AsyncFunctionDef)):
            todo.extend(n.decorator_list)
            todo.extend(d for d in n.args.defaults + n.args.kw_defaults if d is not None)
            out |= free_names(n)
            continue
        if isinstance(n, ast.Lambda):
            todo.extend(d for d in n.args.defaults + n.args.kw_defaults if d is not None)
            out |= free_names(n)
            continue
        if isinstance(n, _COMPS):
            todo.append(n.generators[0].iter)
            out |= free_names(n)
            continue
        if isinstance(n, ast.ClassDef):
            todo.extend(n.decorator_list + n.bases)
            out |= free_names(n)
            continue
        if isinstance(n, ast.Name) and isinstance(n.ctx, ast.Load):
            out.add(n.id)
        todo.extend(ast.iter_child_nodes(n))
    return out - bound


def _canon_with(expr: Optional[ast.AST], ren: Dict[str, str], wild: set) -> str:
    from . import sym
    if expr is None:
        return "<none>"
    e = copy.deepcopy(expr)
    for n in ast.walk(e):
        if isinstance(n, ast.Name):
            if n.id in ren:
                n.id = ren[n.id]
            elif n.id in wild:
                n.id = "_"
    try:
        return sym.canon(e)
    except Exception:
        return ast.dump(e)


def digest(fn) -> str:
    import hashlib
    return hashlib.md5(ast.dump(fn).encode()).hexdigest()[:16]


def ref_entry(fn) -> dict:
    """what the reference table stores for one function"""
    names = local_names(fn)
    sites = [(n, k, _canon_with(v, {}, set())) for n, k, v in binding_sites(fn) if n in names]
    return {"locals": names, "sites": sites, "digest": digest(fn), "comps": [names_ for _, names_ in comp_sites(fn)],
            "quants": quantifier_sites(fn), "params_read": params_read(fn), "calls": call_shapes(fn), "call_args": call_args(fn), "stmts": stmt_sequence(fn),
            "params": [x.arg for x in fn.args.posonlyargs + fn.args.args + fn.args.kwonlyargs], "src": _safe_unparse(fn),
            "asserts": sorted({_safe_unparse(x.test) for x in ast.walk(fn) if isinstance(x, ast.Assert)}),
            "n_asserts": sum(1 for x in ast.walk(fn) if isinstance(x, ast.Assert))}


def call_args(fn) -> list:
    """[callee text, [canonical positional arguments]] for calls with 2..6 plain positional arguments, in source order"""
    from . import sym
    out = []
    for n in _own_scope_walk_all(fn):
        if isinstance(n, ast.Call) and 2 <= len(n.args) <= 6 and not any(isinstance(a, ast.Starred) for a in n.args):
            try:
                callee = ast.unparse(n.func)
                if len(callee) > 80:
                    continue
                out.append([callee, [sym.canon(a)[:120] for a in n.args]])
            except Exception:
                continue
    return out


def stmt_sequence(fn) -> list:
    """canonical text, names written and names read of every simple statement of the function's main line (comparison normal form), in order"""
    from .astutil import linear_body
    out = []
    for st in linear_body(fn):
        if isinstance(st, (ast.Assign, ast.AugAssign, ast.AnnAssign, ast.Expr)) and not (isinstance(st, ast.Expr) and isinstance(st.value, ast.Constant)):
            try:
                text = ast.unparse(st)
            except Exception:
                continue
            writes, reads = set(), set()
            for x in ast.walk(st):
                if isinstance(x, (ast.Name, ast.Attribute)):
                    try:
                        t = ast.unparse(x)
                    except Exception:
                        continue
                    if isinstance(getattr(x, "ctx", None), (ast.Store, ast.Del)):
                        writes.add(t)
                    else:
                        reads.add(t)
            if isinstance(st, ast.AugAssign):
                reads.add(ast.unparse(st.target))
            for x in ast.walk(st):      # a store into a[i] / a.b writes `a`'s content
                if isinstance(x, ast.Subscript) and isinstance(x.ctx, ast.Store):
                    writes.add(ast.unparse(x.value))
            # method calls on an object may change it: x.append(..), self._file.seek(..)
            calls_on = {ast.unparse(c.func.value) for c in ast.walk(st) if isinstance(c, ast.Call) and isinstance(c.func, ast.Attribute)}
            out.append([text[:200], sorted(writes), sorted(reads), sorted(calls_on)])
    return out


def call_shapes(fn) -> list:
    """[callee text, number of positional arguments, sorted keyword names, has *args/**kwargs] for every call of the function's own code, in source order"""
    out = []
    for n in _own_scope_walk_all(fn):
        if isinstance(n, ast.Call):
            try:
                callee = ast.unparse(n.func)
            except Exception:
                continue
            if len(callee) > 80:
                continue
            star = any(isinstance(a, ast.Starred) for a in n.args) or any(k.arg is None for k in n.keywords)
            out.append([callee, len(n.args), sorted(k.arg for k in n.keywords if k.arg), star])
    return out


def _own_scope_walk_all(fn):
    todo = list(reversed(fn.body))
    while todo:
        n = todo.pop()
        if isinstance(n, (ast.FunctionDef, ast.AsyncFunctionDef, ast.ClassDef)):
            continue
        yield n
        todo.extend(reversed(list(ast.iter_child_nodes(n))))


def _safe_unparse(fn) -> str:
    try:
        return ast.unparse(fn)
    except Exception:
        return ""


def quantifier_sites(fn) -> list:
    """[quantifier, negated?, canonical argument] for every all()/any()/np.all()/np.any()/x.all()/x.any() of the function (nested scopes included)"""
    from . import sym
    par = {}
    for a in ast.walk(fn):
        for c in ast.iter_child_nodes(a):
            par[c] = a
    out = []
    for n in ast.walk(fn):
        if not isinstance(n, ast.Call):
            continue
        f = n.func
        q = arg = None
        if isinstance(f, ast.Name) and f.id in ("all", "any") and n.args:
            q, arg = f.id, n.args[0]
        elif isinstance(f, ast.Attribute) and f.attr in ("all", "any"):
            if isinstance(f.value, ast.Name) and f.value.id in ("np", "numpy"):
                if n.args:
                    q, arg = f.attr, n.args[0]
            else:
                q, arg = f.attr, f.value
        if q is None:
            continue
        up = par.get(n)
        neg = isinstance(up, ast.UnaryOp) and isinstance(up.op, (ast.Not, ast.Invert))
        try:
            c = sym.canon(arg)
        except Exception:
            c = ast.dump(arg)
        out.append([q, bool(neg), c])
    return out


def params_read(fn) -> list:
    a = fn.args
    names = [x.arg for x in a.posonlyargs + a.args + a.kwonlyargs]
    read = {n.id for st in fn.body for n in ast.walk(st) if isinstance(n, ast.Name) and isinstance(n.ctx, ast.Load)}
    return [p for p in names if p in read]


def align(fn, ref: dict) -> Dict[str, str]:
    """mapping actual-local -> reference-local for reference locals that are no longer present under their own name"""
    if uses_dynamic_scope(fn):
        return {}
    ref_names: List[str] = ref["locals"]
    act_sites = [(n, k, v) for n, k, v in binding_sites(fn)]
    act_names = local_names(fn)
    missing = [r for r in ref_names if r not in act_names]
    if not missing:
        return {}
    extra = [a for a in act_names if a not in ref_names]
    if not extra:
        return {}
    # names read in the function that are not its locals: a reference name that is now used as a global / builtin cannot be re-introduced
    free_reads = free_names(fn) - set(act_names)
    missing = [r for r in missing if r not in free_reads and r not in params_of(fn)]
    ref_sites: List[Tuple[str, str, str]] = [tuple(s) for s in ref["sites"]]
    a2r: Dict[str, str] = {}

    def ref_defs(r, wild):
        out = []
        for n, k, c in ref_sites:
            if n == r:
                out.append((k, c))
        return out

    # reference canon strings are stored with reference names; to wildcard them we need to re-canon: keep parsed copies lazily
    ref_exprs = ref.get("_exprs")

    def act_defs(a, wild, as_name):
        ren = dict(a2r)
        ren[a] = as_name
        return [(k, _canon_with(v, ren, wild)) for n, k, v in act_sites if n == a]

    progress = True
    while progress:
        progress = False
        for r in list(missing):
            if r in a2r.values():
                continue
            rd = ref_defs(r, set())
            cands = [a for a in extra if a not in a2r and act_defs(a, set(), r) == rd]
            if len(cands) == 1:
                a2r[cands[0]] = r
                progress = True
    # positional fallback: the k-th binding site of the same kind sequence
    left_r = [r for r in missing if r not in a2r.values()]
    if left_r:
        rk = [(n, k) for n, k, _ in ref_sites]
        ak = [(n, k) for n, k, _ in act_sites if n in act_names]
        if len(rk) == len(ak) and [k for _, k in rk] == [k for _, k in ak]:
            trial: Dict[str, str] = {}
            ok = True
            for (rn, _), (an, _) in zip(rk, ak):
                want = a2r.get(an, an if an in ref_names else None)
                if want is not None:
                    if want != rn:
                        ok = False
                        break
                    continue
                if trial.setdefault(an, rn) != rn:
                    ok = False
                    break
            if ok and len(set(trial.values())) == len(trial) and all(v in left_r for v in trial.values()):
                a2r.update(trial)
    # keep it a bijection on names
    if len(set(a2r.values())) != len(a2r):
        return {}
    return a2r


# ----------------------------------------------------------------------------------------------- 3. fresh temporaries
def _blocks(fn):
    """statement lists of the function's own scope"""
    todo = [fn]
    while todo:
        n = todo.pop()
        for f in ("body", "orelse", "finalbody"):
            b = getattr(n, f, None)
            if isinstance(b, list) and b and isinstance(b[0], ast.stmt):
                yield b
                todo.extend(s for s in b if not isinstance(s, (ast.FunctionDef, ast.AsyncFunctionDef, ast.ClassDef)))
        if isinstance(n, ast.Try):
            for h in n.handlers:
                yield h.body
                todo.extend(s for s in h.body if not isinstance(s, (ast.FunctionDef, ast.AsyncFunctionDef, ast.ClassDef)))
        if hasattr(ast, "Match") and isinstance(n, ast.Match):
            for c in n.cases:
                yield c.body
                todo.extend(s for s in c.body if not isinstance(s, (ast.FunctionDef, ast.AsyncFunctionDef, ast.ClassDef)))


def inline_fresh_temps(fn, ref_names) -> List[str]:
    """substitute temporaries that are not part of the reference vocabulary into the statement that follows their assignment.
    A name qualifies when every store of it is a plain `name = E` whose next statement (same block) reads it exactly once before any
    other call is evaluated there, and it is read nowhere else."""
    done = []
    if uses_dynamic_scope(fn):
        return done
    for _ in range(50):
        bad = unsafe_names(fn) | params_of(fn) | set(ref_names)
        stores: Dict[str, int] = {}
        loads: Dict[str, int] = {}
        _count_names(fn, set(), stores, loads, top=True)
        pairs: Dict[str, list] = {}
        for block in _blocks(fn):
            for i, st in enumerate(block[:-1]):
                if not (isinstance(st, ast.Assign) and len(st.targets) == 1 and isinstance(st.targets[0], ast.Name)):
                    continue
                name = st.targets[0].id
                if name in bad:
                    continue
                nxt = block[i + 1]
                hdr = None
                if isinstance(nxt, (ast.For, ast.If)):
                    hdr = "iter" if isinstance(nxt, ast.For) else "test"
                    root = getattr(nxt, hdr)
                elif isinstance(nxt, (ast.Return, ast.Assign, ast.AugAssign, ast.AnnAssign, ast.Expr, ast.Raise, ast.Assert, ast.Delete)):
                    root = nxt
                else:
                    continue
                uses = [n for n in _own_scope_walk(root) if isinstance(n, ast.Name) and n.id == name and isinstance(n.ctx, ast.Load)]
                if len(uses) != 1 or _call_before(root, uses[0]):
                    continue
                if any(isinstance(n, ast.Name) and n.id == name for n in ast.walk(st.value)):
                    continue
                pairs.setdefault(name, []).append((block, st, nxt, hdr, uses[0]))
        changed = False
        for name, ps in pairs.items():
            if stores.get(name) != len(ps) or loads.get(name) != len(ps):
                continue
            for block, st, nxt, hdr, use in ps:
                _replace(use, st.value, nxt, hdr)
                block.remove(st)
            done.append(name)
            changed = True
            break           # recount after every substitution
        if not changed:
            break
    return done


def _attr_chain(e):
    """['self', '_itemgetter', 'buffer'] for self._itemgetter.buffer; None for anything else"""
    parts = []
    while isinstance(e, ast.Attribute):
        parts.append(e.attr)
        e = e.value
    if isinstance(e, ast.Name) and parts:
        return [e.id] + parts[::-1]
    return None


def inline_fresh_aliases(fn, ref_names) -> List[str]:
    """a name outside the reference vocabulary that is bound exactly once, in the main line of the function, to an attribute chain `a.b.c` is an alias: every read of
    it is replaced by the chain.  Sound when nothing in the function can rebind a link of the chain: no store to `a` or to an attribute named like one of the links, and
    the base name is a parameter or `self` that is never reassigned."""
    done = []
    if uses_dynamic_scope(fn):
        return done
    bad = unsafe_names(fn) | params_of(fn) | set(ref_names)
    stores: Dict[str, int] = {}
    loads: Dict[str, int] = {}
    _count_names(fn, set(), stores, loads, top=True)
    attr_stores = {t.attr for t in ast.walk(fn) if isinstance(t, ast.Attribute) and isinstance(t.ctx, (ast.Store, ast.Del))}
    body = fn.body
    for st in list(body):
        if not (isinstance(st, ast.Assign) and len(st.targets) == 1 and isinstance(st.targets[0], ast.Name)):
            continue
        name = st.targets[0].id
        chain = _attr_chain(st.value)
        if chain is None or name in bad or stores.get(name) != 1 or not loads.get(name):
            continue
        base = chain[0]
        if stores.get(base, 0) != 0 or base not in params_of(fn):
            continue
        if any(a in attr_stores for a in chain[1:]) or chain[-1] in EXTERNALLY_REBOUND:
            continue
        # nested scopes that bind the same name keep their own variable: only replace in scopes where it is free
        class R(ast.NodeTransformer):
            def visit_Name(self, n):
                if n.id == name and isinstance(n.ctx, ast.Load):
                    import copy
                    return ast.copy_location(copy.deepcopy(st.value), n)
                return n

            def _scope(self, n):
                bound = params_of(n) if not isinstance(n, _COMPS) else set()
                if isinstance(n, (ast.FunctionDef, ast.AsyncFunctionDef)):
                    bound |= {x for x, _, _ in binding_sites(n)}
                if isinstance(n, _COMPS):
                    for g in n.generators:
                        bound |= {x.id for x in ast.walk(g.target) if isinstance(x, ast.Name)}
                if name in bound:
                    return n
                return self.generic_visit(n)
            visit_FunctionDef = visit_AsyncFunctionDef = visit_Lambda = _scope
            visit_ListComp = visit_SetComp = visit_DictComp = visit_GeneratorExp = _scope
        idx = body.index(st)
        for other in body[idx + 1:]:
            R().visit(other)
        body.remove(st)
        done.append(name)
    return done


_PURE_CALL_PREFIXES = ("np.", "numpy.")
_PURE_BUILTINS = {"len", "int", "float", "bool", "abs", "min", "max", "sum", "tuple", "list", "set", "sorted", "range", "zip", "enumerate", "isinstance", "issubclass", "hasattr", "getattr", "type", "str"}


def _pure_expr(e) -> bool:
    """built from names, attributes, constants, subscripts, arithmetic / comparisons and calls of numpy functions or pure built-ins (no method calls on objects: they
    may have effects)"""
    for x in ast.walk(e):
        if isinstance(x, ast.Call):
            try:
                f = ast.unparse(x.func)
            except Exception:
                return False
            if not (f.startswith(_PURE_CALL_PREFIXES) or f in _PURE_BUILTINS):
                return False
        elif isinstance(x, (ast.Yield, ast.YieldFrom, ast.Await, ast.NamedExpr, ast.Lambda, ast.ListComp, ast.SetComp, ast.DictComp, ast.GeneratorExp, ast.Starred)):
            return False
    return True


def _apply_if_closer(fn, ref, step) -> list:
    """run a normalisation step that replaces names by expressions on a copy of the function, and keep its result only if the function then differs from its
    reference form in FEWER lines: such a step is there to undo a refactoring, never to rewrite code the reference tree does not have"""
    import copy
    from .spelling import changed_lines
    if not ref.get("src"):
        return []
    trial = copy.deepcopy(fn)
    done = step(trial)
    if not done:
        return []
    ast.fix_missing_locations(trial)
    try:
        before, after = changed_lines(ref["src"], copy.deepcopy(fn)), changed_lines(ref["src"], copy.deepcopy(trial))
    except Exception:
        return []
    if after <= before - 2 or after == 0:
        # more than the removed definition line: at least one line that used the name is now a line of the reference form
        fn.body = trial.body
        return done
    return []


EXTERNALLY_REBOUND = {"_shape", "shape", "_data", "data"}     # attributes of npstructures objects that their own methods (ravel ...) bind anew


def inline_fresh_cse(fn, ref_names) -> List[str]:
    """"compute once": a name outside the reference vocabulary bound exactly once in the main line to a PURE expression, and read several times, is a common
    sub-expression that the reference form spelled out at every use.  Its reads are replaced by the expression when nothing the expression reads can change
    between the definition and the reads: no name it mentions is stored to, written into (x[...] = / x op= / x.attr =) anywhere in the function."""
    import copy
    done = []
    if uses_dynamic_scope(fn):
        return done
    bad = unsafe_names(fn) | params_of(fn) | set(ref_names)
    stores: Dict[str, int] = {}
    loads: Dict[str, int] = {}
    _count_names(fn, set(), stores, loads, top=True)
    written = set()
    for x in ast.walk(fn):
        tg = x.targets if isinstance(x, ast.Assign) else [x.target] if isinstance(x, (ast.AugAssign, ast.AnnAssign)) else []
        for t in tg:
            for y in ast.walk(t):
                if isinstance(y, (ast.Subscript, ast.Attribute)) and isinstance(y.ctx, ast.Store):
                    r = y
                    while isinstance(r, (ast.Subscript, ast.Attribute)):
                        r = r.value
                    if isinstance(r, ast.Name):
                        written.add(r.id)
            if isinstance(x, ast.AugAssign) and isinstance(x.target, ast.Name):
                written.add(x.target.id)
    body = fn.body
    for st in list(body):
        if not (isinstance(st, ast.Assign) and len(st.targets) == 1 and isinstance(st.targets[0], ast.Name)):
            continue
        name = st.targets[0].id
        if name in bad or stores.get(name) != 1 or loads.get(name, 0) < 2 or name in written:
            continue
        if not _pure_expr(st.value) or len(ast.dump(st.value)) > 1500:
            continue
        reads = {x.id for x in ast.walk(st.value) if isinstance(x, ast.Name)}
        if any(isinstance(x, ast.Attribute) and x.attr in EXTERNALLY_REBOUND for x in ast.walk(st.value)):
            continue
        # a method called on one of the objects the expression reads may change what the expression means (x.ravel() re-lays x): then the value is not re-computable
        called_on = set()
        for x in ast.walk(fn):
            if isinstance(x, ast.Call) and isinstance(x.func, ast.Attribute):
                r = x.func.value
                while isinstance(r, (ast.Attribute, ast.Subscript)):
                    r = r.value
                if isinstance(r, ast.Name):
                    called_on.add(r.id)
        if (reads - {"np", "numpy"}) & called_on and any(isinstance(x, ast.Attribute) for x in ast.walk(st.value)):
            continue
        if name in reads or any(stores.get(r, 0) > (1 if r in params_of(fn) else 1) or r in written for r in reads if r not in ("np", "numpy")):
            continue
        if any(stores.get(r, 0) >= 1 and r not in params_of(fn) and False for r in reads):
            continue

        class R(ast.NodeTransformer):
            def visit_Name(self, n):
                if n.id == name and isinstance(n.ctx, ast.Load):
                    return ast.copy_location(copy.deepcopy(st.value), n)
                return n

            def _scope(self, n):
                bound = params_of(n) if not isinstance(n, _COMPS) else set()
                if isinstance(n, (ast.FunctionDef, ast.AsyncFunctionDef)):
                    bound |= {x for x, _, _ in binding_sites(n)}
                if isinstance(n, _COMPS):
                    for g in n.generators:
                        bound |= {x.id for x in ast.walk(g.target) if isinstance(x, ast.Name)}
                if name in bound:
                    return n
                return self.generic_visit(n)
            visit_FunctionDef = visit_AsyncFunctionDef = visit_Lambda = _scope
            visit_ListComp = visit_SetComp = visit_DictComp = visit_GeneratorExp = _scope
        idx = body.index(st)
        for other in body[idx + 1:]:
            R().visit(other)
        body.remove(st)
        done.append(name)
    return done


def inline_fresh_module_constants(tree: ast.Module, mt: dict) -> List[str]:
    """a module-level name assigned exactly once to a pure expression that no reference form of the module's functions mentions (a table hoisted out of a
    function) is substituted back into the functions that read it"""
    import copy
    import re as _re
    cands = {}
    counts: Dict[str, int] = {}
    for st in tree.body:
        if isinstance(st, ast.Assign) and len(st.targets) == 1 and isinstance(st.targets[0], ast.Name):
            counts[st.targets[0].id] = counts.get(st.targets[0].id, 0) + 1
            cands[st.targets[0].id] = st
    ref_text = " ".join((e.get("src") or "") for e in mt.values())
    out = []
    for name, st in cands.items():
        if counts[name] != 1 or not _pure_expr(st.value) or not name.startswith("_") and not name.isupper():
            continue
        if any(isinstance(x, (ast.Dict, ast.List, ast.Set)) or (isinstance(x, ast.Call) and isinstance(x.func, ast.Name) and x.func.id in ("dict", "list", "set", "defaultdict"))
               for x in ast.walk(st.value)):
            continue        # a container has identity: two evaluations are two objects (a module-level cache is not a constant)
        if any(isinstance(x, (ast.Subscript, ast.Attribute)) and isinstance(x.ctx, ast.Store) and isinstance(x.value, ast.Name) and x.value.id == name for x in ast.walk(tree)) or \
                any(isinstance(x, ast.AugAssign) and isinstance(x.target, ast.Name) and x.target.id == name for x in ast.walk(tree)):
            continue        # written somewhere: not a constant
        if _re.search(r"\b" + _re.escape(name) + r"\b", ref_text):
            continue
        # the module of the reference tree must not have had this global at all: approximated by "no reference function mentions it" plus "it is not imported"
        hit = False
        for qn, fn in iter_functions(tree.body, "", {}):
            if qn not in mt:
                continue
            if any(isinstance(x, ast.Name) and x.id == name and isinstance(x.ctx, ast.Store) for x in ast.walk(fn)) or name in params_of(fn):
                continue
            for x in ast.walk(fn):
                for f_, v in ast.iter_fields(x):
                    if isinstance(v, ast.Name) and v.id == name and isinstance(v.ctx, ast.Load):
                        setattr(x, f_, ast.copy_location(copy.deepcopy(st.value), v))
                        hit = True
                    elif isinstance(v, list):
                        for i, y in enumerate(v):
                            if isinstance(y, ast.Name) and y.id == name and isinstance(y.ctx, ast.Load):
                                v[i] = ast.copy_location(copy.deepcopy(st.value), y)
                                hit = True
        if hit:
            out.append(name)
    return out


def _count_names(scope, shadowed: set, stores, loads, top=False):
    """occurrences of the function's own variables: a nested scope that binds a name itself hides it"""
    if not top:
        if isinstance(scope, (ast.FunctionDef, ast.AsyncFunctionDef)):
            shadowed = shadowed | params_of(scope) | {n for n, _, _ in binding_sites(scope)} | unsafe_names(scope)
        elif isinstance(scope, ast.Lambda):
            shadowed = shadowed | params_of(scope)
        elif isinstance(scope, _COMPS):
            b = set()
            for g in scope.generators:
                b |= {x.id for x in ast.walk(g.target) if isinstance(x, ast.Name)}
            shadowed = shadowed | b
    todo = list(ast.iter_child_nodes(scope))
    while todo:
        n = todo.pop()
        if isinstance(n, (ast.FunctionDef, ast.AsyncFunctionDef, ast.Lambda) + _COMPS):
            _count_names(n, shadowed, stores, loads)
            continue
        if isinstance(n, ast.Name) and n.id not in shadowed:
            if isinstance(n.ctx, ast.Load):
                loads[n.id] = loads.get(n.id, 0) + 1
            else:
                stores[n.id] = stores.get(n.id, 0) + 1
        elif isinstance(n, ast.AugAssign) and isinstance(n.target, ast.Name) and n.target.id not in shadowed:
            loads[n.target.id] = loads.get(n.target.id, 0) + 1
        todo.extend(ast.iter_child_nodes(n))


def _own_scope_walk(node, yield_comps=False):
    todo = [node]
    while todo:
        n = todo.pop()
        if isinstance(n, (ast.Lambda, ast.FunctionDef, ast.AsyncFunctionDef, ast.ClassDef)):
            if yield_comps and isinstance(n, ast.Lambda):
                yield n
            continue
        if isinstance(n, _COMPS):
            if yield_comps:
                yield n
            todo.append(n.generators[0].iter)
            continue
        yield n
        todo.extend(reversed(list(ast.iter_child_nodes(n))))


def _call_before(root, use) -> bool:
    """is some call (or subscript/attribute store target evaluation with a call) evaluated before `use` inside `root`?  Calls that
    enclose the use evaluate after their arguments, except for their own function expression which we treat as a pure lookup."""
    anc = set()
    par = {}
    for n in ast.walk(root):
        for c in ast.iter_child_nodes(n):
            par[c] = n
    x = use
    while x in par:
        x = par[x]
        anc.add(id(x))
    upos = (use.lineno, use.col_offset)
    for n in ast.walk(root):
        if isinstance(n, (ast.Call, ast.Await, ast.Yield, ast.YieldFrom)) and id(n) not in anc:
            if (n.lineno, n.col_offset) < upos:
                return True
    # assignment targets are evaluated after the value: a use inside a target after a call in the value
    if isinstance(root, (ast.Assign, ast.AugAssign, ast.AnnAssign)):
        val = root.value
        in_value = any(n is use for n in ast.walk(val)) if val is not None else False
        if not in_value and val is not None and any(isinstance(n, ast.Call) for n in ast.walk(val)):
            return True
    return False


def _replace(use, value, stmt, hdr):
    class R(ast.NodeTransformer):
        def visit_Name(self, n):
            return copy.deepcopy(value) if n is use else n
    if hdr:
        setattr(stmt, hdr, R().visit(getattr(stmt, hdr)))
    else:
        R().visit(stmt)


# ----------------------------------------------------------------------------------------------- 4. bound variables of comprehensions / lambdas
def comp_sites(fn):
    """(node, [bound names]) for the comprehensions and lambdas of the function's own code (nested defs excluded), in source order"""
    out = []
    todo = list(reversed(fn.body))
    while todo:
        n = todo.pop()
        if isinstance(n, (ast.FunctionDef, ast.AsyncFunctionDef, ast.ClassDef)):
            continue
        if isinstance(n, _COMPS):
            names = []
            for g in n.generators:
                for x in ast.walk(g.target):
                    if isinstance(x, ast.Name) and x.id not in names:
                        names.append(x.id)
            out.append((n, names))
        elif isinstance(n, ast.Lambda):
            a = n.args
            if not (a.kwonlyargs or a.vararg or a.kwarg):
                out.append((n, [x.arg for x in a.posonlyargs + a.args]))
            else:
                out.append((n, []))
        todo.extend(reversed(list(ast.iter_child_nodes(n))))
    return out


def align_comps(fn, ref) -> int:
    """rename the bound variables of the k-th comprehension / lambda to the reference's names when only the names differ"""
    rc = ref.get("comps")
    if rc is None:
        return 0
    ac = comp_sites(fn)
    if len(ac) != len(rc) or any(len(a[1]) != len(r) for a, r in zip(ac, rc)):
        return 0
    done = 0
    for (node, names), rnames in zip(ac, rc):
        m = {a: r for a, r in zip(names, rnames) if a != r}
        if not m:
            continue
        present = {x.id for x in ast.walk(node) if isinstance(x, ast.Name)} | {x.arg for x in ast.walk(node) if isinstance(x, ast.arg)}
        if any(r in present and r not in m for r in m.values()) or len(set(m.values())) != len(m):
            continue
        for x in ast.walk(node):
            if isinstance(x, ast.Name) and x.id in m:
                x.id = m[x.id]
            elif isinstance(x, ast.arg) and x.arg in m:
                x.arg = m[x.arg]
        done += 1
    return done


# ----------------------------------------------------------------------------------------------- 5. temporaries of the reference that were inlined away
def reintroduce_temps(fn, ref) -> List[str]:
    """A reference local with a single plain definition `r = D` that no longer exists, while an expression equal to D occurs exactly once in the
    function (evaluated before any other call of its statement): give the expression its name back (`r = D` directly before the statement)."""
    from . import sym
    done = []
    if uses_dynamic_scope(fn):
        return done
    ref_sites = [tuple(x) for x in ref["sites"]]
    for _ in range(30):
        have = set(local_names(fn)) | params_of(fn) | unsafe_names(fn)
        free = free_names(fn)
        progress = False
        for r in ref["locals"]:
            if r in have or r in free:
                continue
            defs = [(k, c) for n, k, c in ref_sites if n == r]
            if len(defs) != 1 or defs[0][0] != "assign":
                continue
            want = defs[0][1]
            if want in ("None", "0", "[]", "{}", "True", "False") or len(want) < 6:
                continue
            hits = []
            for block in _blocks(fn):
                for st in block:
                    hdr = None
                    if isinstance(st, (ast.For, ast.If)):
                        hdr = "iter" if isinstance(st, ast.For) else "test"
                        root = getattr(st, hdr)
                    elif isinstance(st, (ast.Return, ast.Assign, ast.AugAssign, ast.AnnAssign, ast.Expr, ast.Raise, ast.Assert)):
                        root = st
                    else:
                        continue
                    for e in _own_scope_walk(root, yield_comps=True):
                        if not isinstance(e, ast.expr) or isinstance(e, (ast.Name, ast.Constant, ast.Starred, ast.Slice)) or not isinstance(getattr(e, "ctx", ast.Load()), ast.Load):
                            continue
                        if isinstance(st, ast.Assign) and e is st.value and len(st.targets) == 1 and isinstance(st.targets[0], ast.Name):
                            continue        # already has a name
                        try:
                            c = sym.canon(e)
                        except Exception:
                            continue
                        if c == want:
                            hits.append((block, st, hdr, root, e))
            same = [x for x in ref["locals"] if x not in have and x not in free and [(k, c) for n, k, c in ref_sites if n == x] == defs]
            if len(hits) != 1 and not (len(hits) == len(same) and same[0] == r):
                continue
            hits.sort(key=lambda h: (getattr(h[4], "lineno", 0), getattr(h[4], "col_offset", 0)))
            block, st, hdr, root, e = hits[0]
            if not hasattr(e, "lineno") or _call_before(root, e):
                continue
            new_assign = ast.copy_location(ast.Assign(targets=[ast.Name(id=r, ctx=ast.Store())], value=e), st)
            ast.fix_missing_locations(new_assign)
            name = ast.copy_location(ast.Name(id=r, ctx=ast.Load()), e)

            class R(ast.NodeTransformer):
                def visit(self, n):
                    if n is e:
                        return name
                    return super().visit(n)
            if hdr:
                setattr(st, hdr, R().visit(getattr(st, hdr)))
            else:
                R().visit(st)
            block.insert(block.index(st), new_assign)
            done.append(r)
            progress = True
            break
        if not progress:
            break
    return done


# ----------------------------------------------------------------------------------------------- 6. assertions and logging that were not there
def drop_new_assertions(fn, ref) -> int:
    """`assert` statements whose test is not one of the reference function's, and logging / print calls, are taken out of the compared view: they add a check or a
    message, they do not change what a run that passes them computes.  (An added assertion that is too strict would show as an exception on valid input: that is not
    decided here.)"""
    known = set(ref.get("asserts", []))
    n = 0
    # only ADDITIONAL assertions are taken out: an existing assertion whose test was edited stays visible to the rules
    extra = sum(1 for x in ast.walk(fn) if isinstance(x, ast.Assert)) - int(ref.get("n_asserts", 0))
    for block in _blocks(fn):
        keep = []
        for st in block:
            drop = False
            if isinstance(st, ast.Assert) and _safe_unparse(st.test) not in known and extra > 0:
                drop = True
                extra -= 1
            elif isinstance(st, ast.Expr) and isinstance(st.value, ast.Call):
                f = _safe_unparse(st.value.func)
                if (f.startswith("logger.") or f.startswith("logging.")) and f not in ref.get("src", ""):
                    drop = True
            if drop:
                n += 1
            else:
                keep.append(st)
        if not keep:
            keep = [ast.Pass()]
        block[:] = keep
    return n


# ----------------------------------------------------------------------------------------------- driver
_table_cache: Optional[dict] = None


def load_table() -> dict:
    global _table_cache
    if _table_cache is None:
        try:
            with open(TABLE_PATH) as f:
                _table_cache = json.load(f)
        except FileNotFoundError:
            _table_cache = {}
    return _table_cache


def iter_functions(body, prefix: str, seen: Dict[str, int]):
    """(qualname, node) in the same naming scheme as Index._walk_scope"""
    for st in body:
        if isinstance(st, (ast.FunctionDef, ast.AsyncFunctionDef)):
            qn = prefix + st.name
            key, k = qn, 1
            while key in seen:
                k += 1
                key = f"{qn}#{k}"
            seen[key] = 1
            yield key, st
            yield from iter_functions(st.body, key + ".<locals>.", seen)
        elif isinstance(st, ast.ClassDef):
            yield from iter_functions(st.body, prefix + st.name + ".", seen)
        elif isinstance(st, (ast.If, ast.Try, ast.With, ast.For, ast.While)):
            for fld in ("body", "orelse", "finalbody"):
                yield from iter_functions(getattr(st, fld, []) or [], prefix, seen)
            for h in getattr(st, "handlers", []) or []:
                yield from iter_functions(h.body, prefix, seen)


_ATTR_RE = None


def align_attrs(tree: ast.Module, mt: dict) -> dict:
    """A private attribute that was renamed consistently (every use in the module) is renamed back to the reference name.  Candidates: attribute names of the
    module that the reference forms of its functions never mention ('fresh') and reference names the module no longer mentions ('vanished'); a fresh name is
    paired with a vanished one when they are stored at the same position of the same function (`self.X = ...` in `__init__`, mostly) - a bijection, or nothing."""
    global _ATTR_RE
    import re as _re
    if _ATTR_RE is None:
        _ATTR_RE = _re.compile(r"\.([A-Za-z_][A-Za-z_0-9]*)")
    cur_attrs = {n.attr for n in ast.walk(tree) if isinstance(n, ast.Attribute)}
    ref_attrs = set()
    for ent in mt.values():
        ref_attrs.update(_ATTR_RE.findall(ent.get("src") or ""))
    fresh, vanished = cur_attrs - ref_attrs, ref_attrs - cur_attrs
    if not fresh or not vanished or not ref_attrs:
        return {}
    votes: Dict[str, set] = {}
    for qn, fn in iter_functions(tree.body, "", {}):
        ref = mt.get(qn)
        if ref is None or not ref.get("src"):
            continue
        try:
            rfn = ast.parse(ref["src"]).body[0]
        except (SyntaxError, IndexError):
            continue

        def stores(f):
            out = []
            for st in ast.walk(f):
                tg = st.targets if isinstance(st, ast.Assign) else [st.target] if isinstance(st, (ast.AugAssign, ast.AnnAssign)) else []
                for t in tg:
                    for x in (t.elts if isinstance(t, ast.Tuple) else [t]):
                        if isinstance(x, ast.Attribute):
                            out.append((getattr(st, "lineno", 0), x.attr))
            return [a for _, a in sorted(out, key=lambda p: p[0])]
        rs, cs = stores(rfn), stores(fn)
        if len(rs) == len(cs):
            for a, b in zip(rs, cs):
                if a != b and a in vanished and b in fresh:
                    votes.setdefault(b, set()).add(a)
    mapping = {b: next(iter(a)) for b, a in votes.items() if len(a) == 1}
    if len(set(mapping.values())) != len(mapping):
        return {}
    if mapping:
        for n in ast.walk(tree):
            if isinstance(n, ast.Attribute) and n.attr in mapping:
                n.attr = mapping[n.attr]
    return mapping


class _Fold(ast.NodeTransformer):
    """the little constant folding that substituting a default value needs: x + 0, 0 + x, x - 0, x * 1, `None is None`, `not <const>`, <const> and/or e,
    conditionals on a constant"""

    @staticmethod
    def _const(e):
        return isinstance(e, ast.Constant)

    def visit_BinOp(self, n):
        self.generic_visit(n)
        l, r = n.left, n.right
        z = lambda e, v: isinstance(e, ast.Constant) and type(e.value) in (int, float) and e.value == v
        if isinstance(n.op, ast.Add) and z(r, 0):
            return l
        if isinstance(n.op, ast.Add) and z(l, 0):
            return r
        if isinstance(n.op, ast.Sub) and z(r, 0):
            return l
        if isinstance(n.op, ast.Mult) and z(r, 1):
            return l
        if isinstance(n.op, ast.Mult) and z(l, 1):
            return r
        return n

    def visit_Compare(self, n):
        self.generic_visit(n)
        if len(n.ops) == 1 and self._const(n.left) and self._const(n.comparators[0]) and isinstance(n.ops[0], (ast.Is, ast.IsNot)) \
                and (n.left.value is None or n.comparators[0].value is None):
            same = n.left.value is n.comparators[0].value
            return ast.copy_location(ast.Constant(value=same if isinstance(n.ops[0], ast.Is) else not same), n)
        return n

    def visit_UnaryOp(self, n):
        self.generic_visit(n)
        if isinstance(n.op, ast.Not) and self._const(n.operand):
            return ast.copy_location(ast.Constant(value=not n.operand.value), n)
        return n

    def visit_BoolOp(self, n):
        self.generic_visit(n)
        vals = []
        for v in n.values:
            if self._const(v):
                t = bool(v.value)
                if isinstance(n.op, ast.And) and t:
                    continue            # True and e == e
                if isinstance(n.op, ast.Or) and not t:
                    continue            # False or e == e
                vals.append(v)
                break                   # short circuit: the rest is never evaluated
            vals.append(v)
        if not vals:
            return ast.copy_location(ast.Constant(value=isinstance(n.op, ast.And)), n)
        if len(vals) == 1:
            return vals[0]
        n.values = vals
        return n

    def visit_IfExp(self, n):
        self.generic_visit(n)
        if self._const(n.test):
            return n.body if n.test.value else n.orelse
        return n

    def _block(self, body):
        out = []
        for st in body:
            st = self.visit(st)
            if isinstance(st, ast.If) and self._const(st.test):
                out.extend(self._block(st.body if st.test.value else st.orelse))
            elif st is not None:
                out.append(st)
        return out

    def generic_visit(self, node):
        node = super().generic_visit(node)
        for f in ("body", "orelse", "finalbody"):
            v = getattr(node, f, None)
            if isinstance(v, list) and v and isinstance(v[0], ast.stmt):
                nb = self._block(v)
                setattr(node, f, nb or ([ast.Pass()] if f == "body" else []))
        return node


PACKAGE_KEYWORD_USE: Dict[str, set] = {}


def default_fresh_params(fn, ref, qn: str = "") -> Dict[str, ast.AST]:
    """A parameter that the reference form of the function does not have and that has a constant default is a new option: for every call written against the
    reference tree it has its default value.  Its reads are replaced by that value (followed by constant folding) and it is taken off the signature, so the
    function is compared as the callers of the reference tree see it.  Returns {name: default}."""
    import copy
    a = fn.args
    ref_params = set(ref.get("params") or [])
    if not ref_params and not (ref.get("params") == []):
        return {}
    pos = a.posonlyargs + a.args
    defaults = dict(zip([x.arg for x in pos][len(pos) - len(a.defaults):], a.defaults))
    for x, d in zip(a.kwonlyargs, a.kw_defaults):
        if d is not None:
            defaults[x.arg] = d
    simple = lambda d: isinstance(d, ast.Constant) or (isinstance(d, ast.UnaryOp) and isinstance(d.operand, ast.Constant)) or \
        (isinstance(d, (ast.Tuple, ast.List)) and not d.elts)
    fresh = {p: d for p, d in defaults.items() if p not in ref_params and simple(d)}
    if not fresh:
        return {}
    stored = {x.id for x in ast.walk(fn) if isinstance(x, ast.Name) and isinstance(x.ctx, (ast.Store, ast.Del))}
    fresh = {p: d for p, d in fresh.items() if p not in stored}
    # a caller somewhere in the package that already passes the new keyword to a function of this name uses the new behaviour: then it is not defaulted away
    callee_names = {fn.name}
    if fn.name == "__init__" and "." in qn:
        callee_names |= {qn.split(".")[-2], "cls", "__class__"}
    fresh = {p: d for p, d in fresh.items() if not (PACKAGE_KEYWORD_USE.get(p, set()) & callee_names)}
    if not fresh:
        return {}

    class Sub(ast.NodeTransformer):
        def visit_Name(self, n):
            if isinstance(n.ctx, ast.Load) and n.id in fresh:
                return ast.copy_location(copy.deepcopy(fresh[n.id]), n)
            return n

        def _scope(self, n):
            if params_of(n) & set(fresh):
                return n
            return self.generic_visit(n)
        visit_Lambda = _scope

        def visit_FunctionDef(self, n):
            if n is not fn and (params_of(n) & set(fresh)):
                return n
            return self.generic_visit(n)
    fn.body = [Sub().visit(st) for st in fn.body]
    # signature without the fresh parameters
    keep = [x for x in pos if x.arg not in fresh]
    nd = [defaults[x.arg] for x in keep if x.arg in defaults]
    a.posonlyargs = [x for x in a.posonlyargs if x.arg not in fresh]
    a.args = [x for x in a.args if x.arg not in fresh]
    a.defaults = nd
    kw = [(x, d) for x, d in zip(a.kwonlyargs, a.kw_defaults) if x.arg not in fresh]
    a.kwonlyargs = [x for x, _ in kw]
    a.kw_defaults = [d for _, d in kw]
    _Fold().visit(fn)
    ast.fix_missing_locations(fn)
    return fresh


def _simple_helper(fn):
    """(params, defaults, statements, return expression) of a helper whose body is straight-line: docstring / simple assignments to plain names / asserts, then one
    `return e`.  None for anything else (control flow, yields, nested definitions, *args)."""
    a = fn.args
    if a.vararg or a.kwarg or a.kwonlyargs or a.posonlyargs:
        return None
    body = list(fn.body)
    if body and isinstance(body[0], ast.Expr) and isinstance(body[0].value, ast.Constant) and isinstance(body[0].value.value, str):
        body = body[1:]
    if not body or not isinstance(body[-1], ast.Return) or body[-1].value is None:
        return None
    stmts = body[:-1]
    for st in stmts:
        if isinstance(st, ast.Assert):
            continue
        if not (isinstance(st, ast.Assign) and len(st.targets) == 1):
            return None
        t = st.targets[0]
        if not all(isinstance(x, (ast.Name, ast.Tuple, ast.List)) or isinstance(x, ast.expr_context) for x in ast.walk(t)):
            return None
    for x in ast.walk(fn):
        if isinstance(x, (ast.Yield, ast.YieldFrom, ast.Await, ast.Lambda, ast.Global, ast.Nonlocal)) or (isinstance(x, (ast.FunctionDef, ast.AsyncFunctionDef, ast.ClassDef)) and x is not fn):
            return None
    params = [x.arg for x in a.args]
    defaults = dict(zip(params[len(params) - len(a.defaults):], a.defaults))
    return params, defaults, [st for st in stmts if not isinstance(st, ast.Assert)], body[-1].value


def inline_fresh_helpers(tree: ast.Module, mt: dict) -> List[str]:
    """A function of the module that has no reference form (a helper extracted since the reference tree) and whose body is straight-line is spliced back into its
    call sites in the functions that do have a reference form: `x = H(a, b)` / `return H(a, b)` / `H(a, b)` as a sub-expression of a simple statement become the
    helper's statements (parameters replaced by the argument expressions) followed by the statement with the call replaced by the helper's return expression.
    Sound for the comparison: arguments here are side-effect-free expressions, and a local of the helper that collides with a local of the caller blocks the splice."""
    import copy
    fresh = {}
    by_class = {}
    for qn, fn in iter_functions(tree.body, "", {}):
        if qn in mt or ".<locals>." in qn:
            continue
        h = _simple_helper(fn)
        if h is None:
            continue
        is_static = any(isinstance(d, ast.Name) and d.id == "staticmethod" for d in fn.decorator_list)
        is_cls = any(isinstance(d, ast.Name) and d.id == "classmethod" for d in fn.decorator_list)
        if any(not (isinstance(d, ast.Name) and d.id in ("staticmethod", "classmethod")) for d in fn.decorator_list):
            continue
        fresh[qn] = (fn, h, is_static, is_cls)
    if not fresh:
        return []
    done = []

    def resolve(call, caller_qn):
        """the fresh helper a call refers to, and the expression bound to its first parameter (self / cls) if any"""
        f = call.func
        cls_prefix = caller_qn.rsplit(".", 1)[0] + "." if "." in caller_qn else ""
        if isinstance(f, ast.Name) and f.id in fresh and "." not in f.id:
            return f.id, None
        if isinstance(f, ast.Attribute) and isinstance(f.value, ast.Name):
            base, nm = f.value.id, f.attr
            if base in ("self", "cls") and cls_prefix + nm in fresh:
                return cls_prefix + nm, f.value
            if base in ("self", "cls"):
                # a helper of a base class of the same module, reached through inheritance: followed when the name is unique among the fresh helpers and
                # no class of the module defines a method of that name that has a reference form
                cands = [k for k in fresh if k.endswith("." + nm)]
                if len(cands) == 1 and not any(k.endswith("." + nm) for k in mt):
                    return cands[0], f.value
            if base + "." + nm in fresh:
                return base + "." + nm, None
        return None, None

    def splice(block, caller, caller_qn):
        out = []
        changed = False
        for st in block:
            for fld in ("body", "orelse", "finalbody"):
                sub = getattr(st, fld, None)
                if isinstance(sub, list) and sub and isinstance(sub[0], ast.stmt):
                    nb, ch = splice(sub, caller, caller_qn)
                    setattr(st, fld, nb)
                    changed |= ch
            for hd in getattr(st, "handlers", []) or []:
                hd.body, ch = splice(hd.body, caller, caller_qn)
                changed |= ch
            if not isinstance(st, (ast.Assign, ast.AugAssign, ast.Return, ast.Expr, ast.AnnAssign)):
                out.append(st)
                continue
            calls = [c for c in ast.walk(st) if isinstance(c, ast.Call) and resolve(c, caller_qn)[0]]
            if len(calls) != 1:
                out.append(st)
                continue
            call = calls[0]
            key, first = resolve(call, caller_qn)
            fn, (params, defaults, hstmts, ret), is_static, is_cls = fresh[key]
            ps = list(params)
            bind = {}
            if "." in key and not is_static:
                if not ps:
                    out.append(st); continue
                bind[ps[0]] = first if first is not None else ast.Name(id=key.rsplit(".", 1)[0].split(".")[-1], ctx=ast.Load())
                if first is None and not is_cls:
                    out.append(st); continue        # unbound call of an instance method: not followed
                ps = ps[1:]
            if any(isinstance(a, ast.Starred) for a in call.args) or any(k.arg is None for k in call.keywords) or len(call.args) > len(ps):
                out.append(st); continue
            for p_, a_ in zip(ps, call.args):
                bind[p_] = a_
            for k in call.keywords:
                if k.arg not in ps or k.arg in bind:
                    bind = None
                    break
                bind[k.arg] = k.value
            if bind is None:
                out.append(st); continue
            for p_ in ps:
                if p_ not in bind:
                    if p_ in defaults:
                        bind[p_] = defaults[p_]
                    else:
                        bind = None
                        break
            if bind is None:
                out.append(st); continue
            hlocals = {x.id for h_ in hstmts for x in ast.walk(h_.targets[0]) if isinstance(x, ast.Name)}
            caller_names = {x.id for x in ast.walk(caller) if isinstance(x, ast.Name)} | params_of(caller)
            own_targets = set()
            if isinstance(st, ast.Assign) and len(st.targets) == 1:
                own_targets = {x.id for x in ast.walk(st.targets[0]) if isinstance(x, ast.Name)}
            n_stores = {}
            for x in ast.walk(caller):
                if isinstance(x, ast.Name) and isinstance(x.ctx, ast.Store):
                    n_stores[x.id] = n_stores.get(x.id, 0) + 1
            clash = {h_ for h_ in hlocals & caller_names if not (h_ in own_targets and n_stores.get(h_, 0) == 1 and h_ not in params_of(caller))}
            if clash or hlocals & set(bind):
                out.append(st); continue
            # a parameter that the helper rebinds cannot be substituted
            if any(isinstance(x, ast.Name) and isinstance(x.ctx, ast.Store) and x.id in bind for h_ in hstmts for x in ast.walk(h_)):
                out.append(st); continue

            class Sub(ast.NodeTransformer):
                def visit_Name(self, n):
                    if isinstance(n.ctx, ast.Load) and n.id in bind:
                        return ast.copy_location(copy.deepcopy(bind[n.id]), n)
                    return n

                def visit_Call(self, n):
                    self.generic_visit(n)
                    # getattr(x, 'name') with the name now a constant is the attribute itself
                    if isinstance(n.func, ast.Name) and n.func.id == "getattr" and len(n.args) == 2 and not n.keywords and isinstance(n.args[1], ast.Constant) \
                            and isinstance(n.args[1].value, str) and n.args[1].value.isidentifier():
                        return ast.copy_location(ast.Attribute(value=n.args[0], attr=n.args[1].value, ctx=ast.Load()), n)
                    return n
            new_stmts = [ast.copy_location(Sub().visit(copy.deepcopy(h_)), st) for h_ in hstmts]
            new_ret = Sub().visit(copy.deepcopy(ret))

            class Rep(ast.NodeTransformer):
                def visit_Call(self, n):
                    if n is call:
                        return ast.copy_location(new_ret, n)
                    return self.generic_visit(n)
            st2 = Rep().visit(st)
            tail = [st2]
            if isinstance(st2, ast.Assign) and len(st2.targets) == 1 and isinstance(st2.targets[0], ast.Tuple) and isinstance(st2.value, ast.Tuple) \
                    and len(st2.targets[0].elts) == len(st2.value.elts) and all(isinstance(t_, ast.Name) for t_ in st2.targets[0].elts):
                # `a, b = (x, y)` element by element; `a = a` disappears
                tail = []
                ren = {}
                for t_, v_ in zip(st2.targets[0].elts, st2.value.elts):
                    if isinstance(v_, ast.Name) and v_.id == t_.id:
                        continue
                    if isinstance(v_, ast.Name) and v_.id in hlocals and t_.id not in hlocals and v_.id not in ren and t_.id not in ren.values():
                        ren[v_.id] = t_.id      # the helper's local IS the caller's variable: one name for it
                        continue
                    tail.append(ast.copy_location(ast.Assign(targets=[t_], value=v_), st2))
                if ren:
                    for h_ in new_stmts + tail:
                        for x in ast.walk(h_):
                            if isinstance(x, ast.Name) and x.id in ren:
                                x.id = ren[x.id]
            elif isinstance(st2, ast.Assign) and len(st2.targets) == 1 and isinstance(st2.targets[0], ast.Name) and isinstance(st2.value, ast.Name) \
                    and st2.targets[0].id == st2.value.id:
                tail = []
            elif isinstance(st2, ast.Assign) and len(st2.targets) == 1 and isinstance(st2.targets[0], ast.Name) and isinstance(st2.value, ast.Name) \
                    and st2.value.id in hlocals and st2.targets[0].id not in hlocals:
                tail = []
                for h_ in new_stmts:
                    for x in ast.walk(h_):
                        if isinstance(x, ast.Name) and x.id == st2.value.id:
                            x.id = st2.targets[0].id
            for x in new_stmts:
                for y in ast.walk(x):
                    if hasattr(y, "lineno"):
                        y.lineno = st.lineno
            out.extend(new_stmts)
            out.extend(tail)
            changed = True
            if key not in done:
                done.append(key)
        return out, changed

    for qn, fn in list(iter_functions(tree.body, "", {})):
        if qn not in mt:
            continue
        for _ in range(4):        # helpers calling helpers
            nb, ch = splice(fn.body, fn, qn)
            fn.body = nb
            if not ch:
                break
        ast.fix_missing_locations(fn)
    return done


def normalize_module(tree: ast.Module, modname: str, table: Optional[dict] = None) -> dict:
    """in place; returns {'renamed': {qualname: {actual: ref}}, 'inlined': {qualname: [names]}}"""
    table = load_table() if table is None else table
    stats = {"renamed": {}, "inlined": {}}
    flip_ifs(tree)
    mt = table.get(modname, {})
    if mt:
        ra = align_attrs(tree, mt)
        if ra:
            stats["attrs"] = ra
        mc = inline_fresh_module_constants(tree, mt)
        if mc:
            stats["module_constants"] = mc
        try:
            hs = inline_fresh_helpers(tree, mt)
        except RecursionError:
            hs = []
        if hs:
            stats["helpers"] = hs
    fresh_defaults: Dict[str, set] = {}
    todo_second = []
    for qn, fn in list(iter_functions(tree.body, "", {})):
        ref = mt.get(qn)
        if ref is None:
            continue
        if ref.get("digest") == digest(fn):
            continue        # unchanged since the reference tree: already in the rules' vocabulary
        todo_second.append((qn, fn, ref))
        fp = default_fresh_params(fn, ref, qn)
        if fp:
            stats.setdefault("defaulted", {})[qn] = sorted(fp)
            for k_, d_ in fp.items():
                fresh_defaults.setdefault(k_, set()).add(ast.dump(d_))
        try:
            m = align(fn, ref)
        except RecursionError:
            m = {}
        if m:
            rename_locals(fn, m)
            stats["renamed"][qn] = m
        inl = inline_fresh_temps(fn, ref["locals"])
        for step in (inline_fresh_aliases, inline_fresh_cse):
            inl += _apply_if_closer(fn, ref, lambda f, step=step: step(f, ref["locals"]))
        if inl:
            stats["inlined"][qn] = inl
        if align_comps(fn, ref):
            stats.setdefault("comps", {})[qn] = True
        drop_new_assertions(fn, ref)
        back = reintroduce_temps(fn, ref)
        if back:
            stats.setdefault("reintroduced", {})[qn] = back
        if ref.get("src") and ref.get("digest") != digest(fn):
            from .spelling import spell_align
            k = spell_align(fn, ref["src"])
            if k:
                ast.fix_missing_locations(fn)
                stats.setdefault("respelled", {})[qn] = k
    if fresh_defaults:
        # a call that hands the default value of such a new option on to another function of the module says nothing: the keyword is dropped
        touched = False
        for n in ast.walk(tree):
            if isinstance(n, ast.Call) and n.keywords:
                kept = [k for k in n.keywords if not (k.arg in fresh_defaults and ast.dump(k.value) in fresh_defaults[k.arg])]
                if len(kept) != len(n.keywords):
                    n.keywords = kept
                    touched = True
        if touched:
            from .spelling import spell_align
            for qn, fn, ref in todo_second:
                if ref.get("src") and ref.get("digest") != digest(fn):
                    spell_align(fn, ref["src"])
                    ast.fix_missing_locations(fn)
    return stats


def build_table(root: str, package: str = "bionumpy") -> dict:
    out = {}
    pkgdir = os.path.join(root, package)
    import warnings
    for dirpath, dirnames, filenames in os.walk(pkgdir):
        dirnames[:] = sorted(d for d in dirnames if d != "__pycache__")
        for fnm in sorted(filenames):
            if not fnm.endswith(".py"):
                continue
            path = os.path.join(dirpath, fnm)
            mod = os.path.relpath(path, root)[:-3].replace(os.sep, ".")
            if mod.endswith(".__init__"):
                mod = mod[: -len(".__init__")]
            try:
                with warnings.catch_warnings():
                    warnings.simplefilter("ignore")
                    tree = ast.parse(open(path, encoding="utf-8").read())
            except (SyntaxError, UnicodeDecodeError):
                continue
            flip_ifs(tree)
            ent = {}
            for qn, fn in iter_functions(tree.body, "", {}):
                ent[qn] = ref_entry(fn)
            out[mod] = ent
    return out


if __name__ == "__main__":
    import sys
    t = build_table(sys.argv[1] if len(sys.argv) > 1 else "/repo")
    with open(TABLE_PATH, "w") as f:
        json.dump(t, f, indent=0, sort_keys=True)
    print(f"{sum(len(v) for v in t.values())} functions, {sum(len(e['locals']) for v in t.values() for e in v.values())} locals -> {TABLE_PATH}")
