"""E7: sensitivity self-test.  Every rule instance has at least one *mutant*: a one-construct edit of the analysed
source (applied to a scratch copy outside /repo and /verif, removed immediately) on which the check must fire and
name the expected rule.  A mutant whose anchor text is no longer present is reported as 'not applicable' (the tree
moved on), never as a failure.  Results are recorded in the evidence of the thorough tier; they never change the
verdict about /repo (a missed mutant is printed as SELFTEST-MISS so that checker rot is visible)."""
from __future__ import annotations
import importlib
import io
import os
import shutil
import sys
import tempfile
import contextlib
from concurrent.futures import ProcessPoolExecutor
import subprocess


def _scratch_root():
    for base in ("/dev/shm", tempfile.gettempdir()):
        if os.path.isdir(base) and os.access(base, os.W_OK):
            return base
    return tempfile.gettempdir()


def _run_one(args):
    prop, root, mutant = args
    name, relpath, old, new, expect = mutant[:5]
    src = os.path.join(root, relpath)
    try:
        with open(src) as f:
            text = f.read()
    except OSError:
        return {"mutant": name, "status": "not-applicable", "why": f"{relpath} missing"}
    edits = old if isinstance(old, list) else [(old, new)]
    if any(text.count(o) < 1 for o, _ in edits):
        return {"mutant": name, "status": "not-applicable", "why": "anchor text not present in the current tree"}
    d = tempfile.mkdtemp(prefix="bnpsa_mut_", dir=_scratch_root())
    try:
        shutil.copytree(os.path.join(root, "bionumpy"), os.path.join(d, "bionumpy"), ignore=shutil.ignore_patterns("__pycache__", "*.pyc"))
        mtext = text
        for o, nw in edits:
            mtext = mtext.replace(o, nw, 1)
        with open(os.path.join(d, relpath), "w") as f:
            f.write(mtext)
        try:
            compile(mtext, relpath, "exec")
        except SyntaxError as e:
            return {"mutant": name, "status": "broken-mutant", "why": str(e)}
        from .report import Ctx
        mod = importlib.import_module(f"bnpsa.rules.{prop.lower()}")
        buf = io.StringIO()
        with contextlib.redirect_stdout(buf):
            ctx = Ctx(prop, "quick", d, 0, write=False)
            ctx.run_rules(mod.RULES)
        known = {k.get("key") for k in ctx.known}
        fired = sorted({v["rule"] for v in ctx.violations if v.get("key") not in known})
        hit = any(r.startswith(expect) for r in fired)
        return {"mutant": name, "status": "detected" if hit else ("other-rule" if fired else "MISSED"), "fired": fired,
                "expected": expect, "analysis_errors": ctx.analysis_errors[:2]}
    finally:
        shutil.rmtree(d, ignore_errors=True)


def run_for_property(prop: str, root: str, seed: int = 0, jobs: int = 16) -> dict:
    try:
        mm = importlib.import_module(f"bnpsa.mutants.{prop.lower()}")
    except ModuleNotFoundError:
        return {"mutants": 0, "note": "no mutant corpus for this property yet"}
    muts = list(mm.MUTANTS)
    if seed:
        import random
        random.Random(seed).shuffle(muts)
    with ProcessPoolExecutor(max_workers=min(jobs, max(1, len(muts)))) as ex:
        res = list(ex.map(_run_one, [(prop, root, m) for m in muts]))
    summary = {"mutants": len(res), "detected": sum(r["status"] == "detected" for r in res),
               "other_rule": sum(r["status"] == "other-rule" for r in res),
               "missed": [r["mutant"] for r in res if r["status"] == "MISSED"],
               "not_applicable": [r["mutant"] for r in res if r["status"] == "not-applicable"],
               "broken": [r["mutant"] for r in res if r["status"] == "broken-mutant"],
               "results": res}
    for m in summary["missed"]:
        print(f"SELFTEST-MISS property={prop} mutant={m}")
    return summary


def _run_seed(args):
    prop, root, seed_dir = args
    import subprocess
    name = os.path.basename(seed_dir)
    d = tempfile.mkdtemp(prefix="bnpsa_seed_", dir=_scratch_root())
    try:
        shutil.copytree(os.path.join(root, "bionumpy"), os.path.join(d, "bionumpy"), ignore=shutil.ignore_patterns("__pycache__", "*.pyc"))
        p = subprocess.run(["patch", "-p1", "-s", "-i", os.path.join(seed_dir, "patch.diff")], cwd=d, capture_output=True, text=True)
        if p.returncode != 0:
            return {"seed": name, "status": "not-applicable", "why": "patch does not apply to the current tree"}
        from .report import Ctx
        mod = importlib.import_module(f"bnpsa.rules.{prop.lower()}")
        buf = io.StringIO()
        with contextlib.redirect_stdout(buf):
            ctx = Ctx(prop, "quick", d, 0, write=False)
            ctx.run_rules(mod.RULES)
        known = {k.get("key") for k in ctx.known}
        fired = sorted({v["rule"] for v in ctx.violations if v.get("key") not in known})
        return {"seed": name, "status": "detected" if fired else ("analysis-error" if ctx.analysis_errors else "missed"), "fired": fired}
    finally:
        shutil.rmtree(d, ignore_errors=True)


def run_seeds_for_property(prop: str, root: str, jobs: int = 8) -> dict:
    """Independent seeded changes (written by sub-agents that saw only the property text; /verif/seeded/<prop>-n) as a detection corpus."""
    here = os.path.join(os.path.dirname(os.path.dirname(os.path.abspath(__file__))), "seeded")
    dirs = sorted(os.path.join(here, d) for d in os.listdir(here) if d.startswith(prop + "-") and os.path.isdir(os.path.join(here, d))) if os.path.isdir(here) else []
    if not dirs:
        return {"seeds": 0}
    with ProcessPoolExecutor(max_workers=min(jobs, len(dirs))) as ex:
        res = list(ex.map(_run_seed, [(prop, root, d) for d in dirs]))
    return {"seeds": len(res), "detected": sum(r["status"] == "detected" for r in res), "results": res}


if __name__ == "__main__":
    import json
    props = sys.argv[1:] or []
    for p in props:
        s = run_for_property(p.upper(), "/repo")
        print(p, json.dumps({k: v for k, v in s.items() if k != "results"}))
        for r in s.get("results", []):
            if r["status"] not in ("detected",):
                print("   ", r)


def _run_variant(args):
    """one behaviour-preserving rewrite of the whole package (tools/refactor_variants.py): the check must stay silent on it"""
    prop, root, name = args
    import importlib.util
    verif = os.path.dirname(os.path.dirname(os.path.abspath(__file__)))
    spec = importlib.util.spec_from_file_location("refactor_variants", os.path.join(verif, "tools", "refactor_variants.py"))
    rv = importlib.util.module_from_spec(spec)
    spec.loader.exec_module(rv)
    d = tempfile.mkdtemp(prefix="bnpsa_rfv_", dir=_scratch_root())
    try:
        rv.make(name, d, repo=root)
        from .report import Ctx
        mod = importlib.import_module(f"bnpsa.rules.{prop.lower()}")
        buf = io.StringIO()
        with contextlib.redirect_stdout(buf):
            ctx = Ctx(prop, "quick", d, 0, write=False)
            ctx.run_rules(mod.RULES)
        known = {k.get("key") for k in ctx.known}
        fired = sorted({v["rule"] for v in ctx.violations if v.get("key") not in known})
        return {"variant": name, "status": "silent" if not fired and not ctx.analysis_errors else "ALARM", "fired": fired, "analysis_errors": [e[:160] for e in ctx.analysis_errors[:3]]}
    except Exception as e:
        return {"variant": name, "status": "error", "why": f"{type(e).__name__}: {e}"}
    finally:
        shutil.rmtree(d, ignore_errors=True)


def _run_benign(args):
    prop, root, bdir = args
    name = os.path.basename(bdir)
    d = tempfile.mkdtemp(prefix="bnpsa_ben_", dir=_scratch_root())
    try:
        shutil.copytree(os.path.join(root, "bionumpy"), os.path.join(d, "bionumpy"), ignore=shutil.ignore_patterns("__pycache__"))
        p = subprocess.run(["patch", "-p1", "-s", "-i", os.path.join(bdir, "patch.diff")], cwd=d, capture_output=True, text=True)
        if p.returncode != 0:
            return {"change": name, "status": "patch-failed"}
        from .report import Ctx
        mod = importlib.import_module(f"bnpsa.rules.{prop.lower()}")
        with contextlib.redirect_stdout(io.StringIO()):
            ctx = Ctx(prop, "quick", d, 0, write=False)
            ctx.run_rules(mod.RULES)
        known = {k.get("key") for k in ctx.known}
        fired = sorted({v["rule"] for v in ctx.violations if v.get("key") not in known})
        return {"change": name, "status": "FALSE-ALARM" if fired else ("cannot-follow" if ctx.analysis_errors else "silent"), "fired": fired,
                "analysis_errors": [e[:140] for e in ctx.analysis_errors[:3]]}
    finally:
        shutil.rmtree(d, ignore_errors=True)


def run_benign_for_property(prop: str, root: str, jobs: int = 8) -> dict:
    """Behaviour-preserving changes written by sub-agents for THIS property (/verif/benign/<prop>-k*): the property's own check on each of them.  A violation is a
    false alarm; 'cannot-follow' is exit 2."""
    here = os.path.join(os.path.dirname(os.path.dirname(os.path.abspath(__file__))), "benign")
    dirs = sorted(os.path.join(here, d) for d in os.listdir(here) if d.startswith(prop + "-") and os.path.isfile(os.path.join(here, d, "patch.diff"))) if os.path.isdir(here) else []
    if not dirs:
        return {"changes": 0}
    with ProcessPoolExecutor(max_workers=min(jobs, len(dirs))) as ex:
        res = list(ex.map(_run_benign, [(prop, root, d) for d in dirs]))
    for r in res:
        if r["status"] == "FALSE-ALARM":
            print(f"BENIGN-ALARM property={prop} change={r['change']} {r['fired']} (listed in benign/MATRIX.md; does not change the exit code)")
    return {"changes": len(res), "silent": sum(r["status"] == "silent" for r in res), "cannot_follow": sum(r["status"] == "cannot-follow" for r in res),
            "false_alarms": sum(r["status"] == "FALSE-ALARM" for r in res), "results": res}


def run_refactor_variants(prop: str, root: str, jobs: int = 11) -> dict:
    names = ["identity", "nodoc", "rename", "compvars", "tempret", "elimtemps", "ifflip", "elseify", "guardswap", "addassert", "kwreorder",
             "cmpflip", "msgs", "typehints", "tuplelist", "lenzero", "literals", "ifexp2stmt", "methodorder"]
    with ProcessPoolExecutor(max_workers=jobs) as ex:
        res = list(ex.map(_run_variant, [(prop, root, n) for n in names]))
    for r in res:
        if r["status"] != "silent":
            print(f"REFACTOR-ALARM property={prop} variant={r['variant']} {r.get('fired') or r.get('why') or r.get('analysis_errors')}")
    return {"variants": len(res), "silent": sum(1 for r in res if r["status"] == "silent"), "results": res,
            "note": "each variant is a behaviour-preserving rewrite of every module (validated once against the pinned suite); the check must not alarm on any"}
