"""F-PEND helpers: facts established by taking a branch edge, and the generic pending-slot path query."""
from __future__ import annotations
import ast
from typing import Set, Tuple, Optional, Callable, List

from . import sym
from .cfg import CFG, Node


def _norm_atom(c: str, pol: bool) -> Tuple[str, bool]:
    """Normalise 'X is not None' / 'not(...)' polarity."""
    while c.startswith("not(") and c.endswith(")"):
        c = c[4:-1]
        pol = not pol
    if c.endswith(")is not(None)"):
        return c[: -len("is not(None)")] + "is(None)", not pol
    if ")not in(" in c:
        return c.replace(")not in(", ")in(", 1), not pol
    if ")!=(" in c:
        return c.replace(")!=(", ")==(", 1), not pol
    return c, pol


def facts(test: ast.AST, taken: bool, env=None) -> Set[Tuple[str, bool]]:
    """Atomic facts (canonical condition, truth value) that hold after the test evaluated to `taken`."""
    if isinstance(test, ast.BoolOp):
        if isinstance(test.op, ast.And) and taken:
            out = set()
            for v in test.values:
                out |= facts(v, True, env)
            return out
        if isinstance(test.op, ast.Or) and not taken:
            out = set()
            for v in test.values:
                out |= facts(v, False, env)
            return out
        return set()
    if isinstance(test, ast.UnaryOp) and isinstance(test.op, ast.Not):
        return facts(test.operand, not taken, env)
    return {_norm_atom(sym.canon(test, env), taken)}


def edge_facts(a: Node, label: str, env=None) -> Set[Tuple[str, bool]]:
    if a.kind == "test" and label in ("T", "F"):
        return facts(a.ast, label == "T", env)
    if a.kind == "stmt" and isinstance(a.ast, ast.Assert) and label == "":
        return facts(a.ast.test, True, env)
    return set()


def is_none_fact(name: str) -> Tuple[str, bool]:
    return (f"({name})is(None)", True)


def yields_value(n: Node, pred: Callable[[ast.AST], bool]) -> bool:
    if n.kind != "stmt" or n.ast is None:
        return False
    for x in ast.walk(n.ast):
        if isinstance(x, (ast.Yield, ast.YieldFrom)) and x.value is not None and pred(x.value):
            return True
    return False


def is_raise(n: Node) -> bool:
    return n.kind == "stmt" and isinstance(n.ast, ast.Raise)
