"""F-MEMO(b): completeness of dict-cache keys.

A *dict cache* is a module-level or class-level name bound to an empty dict that some function fills with
`CACHE[key] = value` (possibly through a local alias).  The cached value is computed from inputs of the function
(parameters, attributes of self / cls); the key must name every such input *as a whole*.  A key that only holds a
projection of an input (`x.size`, `tuple(f[0] for f in fields)`) while the value depends on the whole input lets a
later call with a different input of the same projection receive the stale value.

Access paths: ('self', '_alphabet_encoding', 'alphabet_size'), ('fields', '*') ('*' = any projection: subscript, call,
iteration).  A dependency path d is covered by a key path k iff k is a prefix of d and contains no '*'.
Properties and lazily derived attributes of self (`if self._x is None: self._x = f(...)`) are expanded to what they
are computed from, so derived state does not count as an input.
"""
from __future__ import annotations
import ast
from typing import Dict, List, Optional, Set, Tuple

from .index import Unrecognised
from .astutil import u, body_walk, local_env, inline_locals, walk_local

Path = Tuple[str, ...]
_BUILTIN_NAMES = set(dir(__builtins__)) if not isinstance(__builtins__, dict) else set(__builtins__)


def _paths(expr: ast.AST, bound: Set[str]) -> Set[Path]:
    """Maximal access paths read by expr (comprehension variables in `bound` are projections of their iterables)."""
    out: Set[Path] = set()

    def chain(n) -> Optional[Path]:
        if isinstance(n, ast.Name):
            return (n.id,)
        if isinstance(n, ast.Attribute):
            c = chain(n.value)
            if c is None:
                return None
            return c + (n.attr,) if "*" not in c else c
        if isinstance(n, ast.Subscript):
            c = chain(n.value)
            visit(n.slice, set(bound))
            return None if c is None else (c + ("*",) if "*" not in c else c)
        if isinstance(n, ast.Call):
            c = chain(n.func)
            for a in n.args:
                visit(a.value if isinstance(a, ast.Starred) else a, set(bound))
            for k in n.keywords:
                visit(k.value, set(bound))
            return None if c is None else (c + ("*",) if "*" not in c else c)
        return None

    def visit(n, b):
        if isinstance(n, (ast.ListComp, ast.SetComp, ast.GeneratorExp, ast.DictComp)):
            b2 = set(b)
            comp_vars = {}
            for g in n.generators:
                it_chain = chain_quiet(g.iter)
                if not (isinstance(g.iter, (ast.Name, ast.Attribute)) and it_chain is not None):
                    visit(g.iter, b2)  # e.g. zip(a, b), d.items(): the arguments are read as a whole
                    if isinstance(g.iter, ast.Call) and isinstance(g.iter.func, ast.Attribute) and g.iter.func.attr in ("items", "keys", "values"):
                        it_chain = chain_quiet(g.iter.func.value)
                for t in ast.walk(g.target):
                    if isinstance(t, ast.Name):
                        comp_vars[t.id] = it_chain
                        b2.add(t.id)
                for c in g.ifs:
                    visit_sub(c, b2, comp_vars)
            for part in ([n.key, n.value] if isinstance(n, ast.DictComp) else [n.elt]):
                visit_sub(part, b2, comp_vars)
            return
        if isinstance(n, (ast.Name, ast.Attribute, ast.Subscript, ast.Call)):
            c = chain(n)
            if c is not None:
                if c[0] in b:
                    return
                out.add(c)
                return
        for ch in ast.iter_child_nodes(n):
            visit(ch, b)

    def chain_quiet(n) -> Optional[Path]:
        saved = set(out)
        c = chain(n) if isinstance(n, (ast.Name, ast.Attribute, ast.Subscript, ast.Call)) else None
        out.clear()
        out.update(saved)
        return c

    def visit_sub(n, b, comp_vars):
        # an element expression over a comprehension variable is a projection of the iterable
        names = {x.id for x in ast.walk(n) if isinstance(x, ast.Name)}
        for v in names & set(comp_vars):
            c = comp_vars[v]
            if c is not None and c[0] not in bound:
                whole = isinstance(n, ast.Name) and n.id == v
                out.add(c if whole and "*" not in c else (c + ("*",) if "*" not in c else c))
        visit_plain(n, b)

    def visit_plain(n, b):
        if isinstance(n, (ast.Name, ast.Attribute, ast.Subscript, ast.Call)):
            c = chain(n)
            if c is not None:
                if c[0] not in b:
                    out.add(c)
                return
        for ch in ast.iter_child_nodes(n):
            visit_plain(ch, b)

    visit(expr, set(bound))
    return out


class _ClassDeps:
    """Expands self.<property> / self.<method>() / lazily derived attributes to the plain attributes they are computed from."""

    def __init__(self, index, cls, cache_names: Set[str]):
        self.index = index
        self.cls = cls
        self.cache_names = cache_names
        self._memo: Dict[str, Set[Path]] = {}
        self.derived: Dict[str, List[ast.AST]] = {}
        if cls is None:
            return
        stores: Dict[str, List[Tuple[str, ast.AST]]] = {}
        for c in index.mro(cls):
            for mname, fi in c.methods.items():
                for n in body_walk(fi.node):
                    if isinstance(n, ast.Assign):
                        for t in n.targets:
                            if isinstance(t, ast.Attribute) and isinstance(t.value, ast.Name) and t.value.id == "self":
                                stores.setdefault(t.attr, []).append((mname, n.value))
        for a, lst in stores.items():
            non_init = [v for m, v in lst if m != "__init__"]
            init = [v for m, v in lst if m == "__init__"]
            if non_init and all(isinstance(v, ast.Constant) and v.value is None for v in init):
                self.derived[a] = non_init

    def attr_deps(self, attr: str, rest: Path, depth=0) -> Set[Path]:
        if self.cls is None or depth > 8:
            return {("self", attr) + rest}
        key = attr
        if key in self._memo:
            base = self._memo[key]
        else:
            self._memo[key] = set()  # cycle guard
            fi = self.index.lookup_method(self.cls, attr)
            base = None
            if fi is not None:
                base = self.func_deps(fi.node, depth + 1)
            elif attr in self.derived:
                base = set()
                for v in self.derived[attr]:
                    base |= self.expand(_paths(v, set()), depth + 1)
            if base is None:
                base = {("self", attr)}
                self._memo[key] = base
                return {("self", attr) + rest}
            self._memo[key] = base
        return base

    def func_deps(self, fnode, depth=0) -> Set[Path]:
        env = local_env(fnode)
        out: Set[Path] = set()
        params = {a.arg for a in fnode.args.args[1:]} if hasattr(fnode, "args") else set()
        for n in body_walk(fnode):
            exprs = []
            if isinstance(n, ast.Return) and n.value is not None:
                exprs.append(n.value)
            elif isinstance(n, ast.Assign):
                exprs.append(n.value)
            elif isinstance(n, (ast.If, ast.While)):
                exprs.append(n.test)
            for e in exprs:
                for p in _paths(e, set()):
                    if p[0] == "self" and len(p) > 1:
                        out |= self.expand({p}, depth)
        return out

    def expand(self, paths: Set[Path], depth=0) -> Set[Path]:
        out: Set[Path] = set()
        for p in paths:
            if p[0] == "self" and len(p) >= 2 and p[1] != "*":
                if p[1] == "__class__":
                    if len(p) >= 3 and p[2] in self.cache_names:
                        continue
                    out.add(("cls",) + tuple(x for x in p[2:]))
                    continue
                out |= self.attr_deps(p[1], p[2:], depth)
            elif p[0] == "cls" and len(p) >= 2 and p[1] in self.cache_names:
                continue
            else:
                out.add(p)
        return out


def _covered(dep: Path, keys: Set[Path]) -> bool:
    for k in keys:
        if "*" in k:
            continue
        if dep[: len(k)] == k:
            return True
    return False


def find_cache_names(mi) -> Set[str]:
    names = set()
    for nm, v in mi.globals_.items():
        if (isinstance(v, ast.Dict) and not v.keys) or (isinstance(v, ast.Call) and u(v.func) == "dict" and not v.args and not v.keywords):
            names.add(nm)
    for ci in mi.classes.values():
        for nm, v in ci.attrs.items():
            if (isinstance(v, ast.Dict) and not v.keys) or (isinstance(v, ast.Call) and u(v.func) == "dict" and not v.args and not v.keywords):
                names.add(nm)
    return names


def check_dict_caches(ctx, modules, rule_prefix: str) -> int:
    ix = ctx.index
    n_stores = 0
    for mod in modules:
        mi = ix.module(mod)
        caches = find_cache_names(mi)
        if not caches:
            continue
        non_inputs = set(mi.globals_) | set(mi.imports) | set(mi.classes) | {f for f in mi.functions if "." not in f} | _BUILTIN_NAMES
        for fi in mi.functions.values():
            fnode = fi.node
            if isinstance(fnode, ast.Lambda):
                continue
            aliases = {}
            for n in body_walk(fnode):
                if isinstance(n, ast.Assign) and len(n.targets) == 1 and isinstance(n.targets[0], ast.Name):
                    v = u(n.value)
                    for c in caches:
                        if v in (c, f"self.__class__.{c}", f"cls.{c}", f"self.{c}", f"type(self).{c}"):
                            aliases[n.targets[0].id] = c
            stores = []
            for n in body_walk(fnode):
                if isinstance(n, ast.Assign):
                    for t in n.targets:
                        if isinstance(t, ast.Subscript):
                            base = u(t.value)
                            cname = aliases.get(base)
                            for c in caches:
                                if base in (c, f"self.__class__.{c}", f"cls.{c}", f"self.{c}", f"type(self).{c}"):
                                    cname = c
                            if cname is not None:
                                stores.append((cname, t.slice, n.value))
            if not stores:
                continue
            env = {k: v for k, v in local_env(fnode).items() if k not in aliases}
            cd = _ClassDeps(ix, fi.cls, caches)
            params = set(fi.params)
            for cname, key, val in stores:
                n_stores += 1
                k_expr = inline_locals(key, env)
                v_expr = inline_locals(val, env)
                kp = cd.expand(_paths(k_expr, set()))
                vp = cd.expand(_paths(v_expr, set()))

                def is_input(p: Path) -> bool:
                    r = p[0]
                    if r in ("self", "cls"):
                        return len(p) > 1 or r == "cls"
                    if r in params:
                        return True
                    return False  # globals, imports, builtins, the cache itself
                deps = {p for p in vp if is_input(p) and not (p[0] in aliases) and not (len(p) > 1 and p[1] in caches)}
                # method references are not data: self.m without call was expanded already; drop pure-callee paths of module functions
                missing = sorted(d for d in deps if not _covered(tuple(x for x in d if x != "*") if d[-1] == "*" and False else _strip_trailing_proj(d), kp))
                ctx.ob(fi.where, f"cache `{cname}`: the key names every input the cached value is computed from",
                       not missing,
                       ("value depends on " + ", ".join(".".join(m) for m in missing) + "; key holds " + ", ".join(sorted(".".join(k) for k in kp))) if missing else "",
                       key=f"{rule_prefix}|{mod}|{fi.qualname}|{cname}", rule=rule_prefix, definite=True)
    return n_stores


def _strip_trailing_proj(p: Path) -> Path:
    """A dependency on x.attr.* (e.g. a method call on x.attr) is a dependency on x.attr as a whole."""
    if "*" in p:
        return p[: p.index("*")]
    return p
