"""E0: parse every bionumpy/**/*.py of the tree under analysis and index modules, classes, functions.

Nothing here imports the analysed package.  Everything is looked up by *qualified name*
(`module`, `Class.method` / `func` / `outer.<locals>.inner`), never by line number.
"""
from __future__ import annotations
import ast
import os
from dataclasses import dataclass, field
from typing import Dict, List, Optional, Tuple, Iterator


class AnchorMissing(Exception):
    """An anchor (module / class / function / statement the rule needs) is not in the tree.
    Reported as ANALYSIS-ERROR (exit 2), never as a violation and never as a silent pass."""


class Unrecognised(Exception):
    """A construct exists but is not in a form the analysis can read soundly."""


@dataclass
class FuncInfo:
    module: "ModuleInfo"
    qualname: str
    node: ast.AST  # FunctionDef / AsyncFunctionDef / Lambda
    cls: Optional["ClassInfo"] = None

    @property
    def where(self) -> str:
        return f"{self.module.relpath}:{getattr(self.node, 'lineno', 0)} {self.qualname}"

    @property
    def decorators(self) -> List[str]:
        return [ast.unparse(d) for d in getattr(self.node, "decorator_list", [])]

    @property
    def params(self) -> List[str]:
        a = self.node.args
        return [x.arg for x in a.posonlyargs + a.args] + ([a.vararg.arg] if a.vararg else []) + \
               [x.arg for x in a.kwonlyargs] + ([a.kwarg.arg] if a.kwarg else [])


@dataclass
class ClassInfo:
    module: "ModuleInfo"
    qualname: str
    node: ast.ClassDef
    methods: Dict[str, FuncInfo] = field(default_factory=dict)
    attrs: Dict[str, ast.AST] = field(default_factory=dict)  # class-level simple assignments (last wins)

    @property
    def name(self) -> str:
        return self.qualname.split(".")[-1]

    @property
    def base_exprs(self) -> List[str]:
        return [ast.unparse(b) for b in self.node.bases]

    @property
    def where(self) -> str:
        return f"{self.module.relpath}:{self.node.lineno} class {self.qualname}"


@dataclass
class ModuleInfo:
    name: str
    path: str
    relpath: str
    source: str
    tree: ast.Module
    functions: Dict[str, FuncInfo] = field(default_factory=dict)  # by qualname, includes methods & nested
    classes: Dict[str, ClassInfo] = field(default_factory=dict)
    imports: Dict[str, Tuple[str, Optional[str]]] = field(default_factory=dict)  # local name -> (module, attr)
    globals_: Dict[str, ast.AST] = field(default_factory=dict)  # module-level simple assignments


class Index:
    def __init__(self, root: str, package: str = "bionumpy"):
        self.root = os.path.abspath(root)
        self.package = package
        self.modules: Dict[str, ModuleInfo] = {}
        self.parse_errors: List[str] = []
        pkgdir = os.path.join(self.root, package)
        if not os.path.isdir(pkgdir):
            raise AnchorMissing(f"package directory {pkgdir} not found")
        parsed = []
        for dirpath, dirnames, filenames in os.walk(pkgdir):
            dirnames[:] = sorted(d for d in dirnames if d != "__pycache__")
            for fn in sorted(filenames):
                if not fn.endswith(".py"):
                    continue
                path = os.path.join(dirpath, fn)
                rel = os.path.relpath(path, self.root)
                mod = rel[:-3].replace(os.sep, ".")
                if mod.endswith(".__init__"):
                    mod = mod[: -len(".__init__")]
                try:
                    with open(path, "r", encoding="utf-8") as f:
                        src = f.read()
                    import warnings
                    with warnings.catch_warnings():
                        warnings.simplefilter("ignore")
                        tree = ast.parse(src, filename=path)
                except (SyntaxError, UnicodeDecodeError) as e:
                    self.parse_errors.append(f"{rel}: {e}")
                    continue
                parsed.append((fn, path, rel, mod, src, tree))
        # which keyword names are passed to which callee names anywhere in the package (a new optional parameter that some caller already passes is not defaulted away)
        kwuse: Dict[str, set] = {}
        def _collect(node, optional):
            """optional = optional parameters of the enclosing functions: `f(p=p)` with p one of them only threads an option through"""
            for ch in ast.iter_child_nodes(node):
                opt = optional
                if isinstance(ch, (ast.FunctionDef, ast.AsyncFunctionDef)):
                    a = ch.args
                    pos = a.posonlyargs + a.args
                    opt = optional | {x.arg for x in pos[len(pos) - len(a.defaults):]} | {x.arg for x, d in zip(a.kwonlyargs, a.kw_defaults) if d is not None}
                if isinstance(ch, ast.Call) and ch.keywords:
                    callee = ch.func.attr if isinstance(ch.func, ast.Attribute) else ch.func.id if isinstance(ch.func, ast.Name) else None
                    if callee:
                        for k in ch.keywords:
                            if k.arg and not (isinstance(k.value, ast.Name) and k.value.id == k.arg and k.arg in optional):
                                kwuse.setdefault(k.arg, set()).add(callee)
                _collect(ch, opt)
        for _, _, _, _, _, tree in parsed:
            _collect(tree, set())
        for fn, path, rel, mod, src, tree in parsed:
            norm = {"renamed": {}, "inlined": {}}
            if os.environ.get("BNPSA_NO_NORMALIZE") != "1":
                from . import normalize
                normalize.PACKAGE_KEYWORD_USE = kwuse
                norm = normalize.normalize_module(tree, mod)
            mi = ModuleInfo(mod, path, rel, src, tree)
            mi.norm = norm
            mi.is_pkg = fn == "__init__.py"
            self._index_module(mi)
            self.modules[mod] = mi

    # ------------------------------------------------------------------ indexing
    def _index_module(self, mi: ModuleInfo):
        pkg_parts = mi.name.split(".")
        if not getattr(mi, "is_pkg", False):
            pkg_parts = pkg_parts[:-1]

        def resolve_rel(level: int, module: Optional[str]) -> str:
            if level == 0:
                return module or ""
            base = pkg_parts[: len(pkg_parts) - (level - 1)]
            return ".".join(base + ([module] if module else []))

        for node in ast.walk(mi.tree):
            if isinstance(node, ast.Import):
                for a in node.names:
                    mi.imports.setdefault(a.asname or a.name.split(".")[0], (a.name if a.asname else a.name.split(".")[0], None))
            elif isinstance(node, ast.ImportFrom):
                m = resolve_rel(node.level, node.module)
                for a in node.names:
                    mi.imports.setdefault(a.asname or a.name, (m, a.name))
        for st in mi.tree.body:
            if isinstance(st, ast.Assign) and len(st.targets) == 1 and isinstance(st.targets[0], ast.Name):
                mi.globals_[st.targets[0].id] = st.value
            elif isinstance(st, ast.AnnAssign) and isinstance(st.target, ast.Name) and st.value is not None:
                mi.globals_[st.target.id] = st.value
        self._walk_scope(mi, mi.tree.body, "", None)

    def _walk_scope(self, mi: ModuleInfo, body, prefix: str, cls: Optional[ClassInfo]):
        for st in body:
            if isinstance(st, (ast.FunctionDef, ast.AsyncFunctionDef)):
                qn = prefix + st.name
                fi = FuncInfo(mi, qn, st, cls)
                # property setters etc. share a name: keep first, store others with suffix
                key = qn
                k = 1
                while key in mi.functions:
                    k += 1
                    key = f"{qn}#{k}"
                fi.qualname = key
                mi.functions[key] = fi
                if cls is not None and prefix == cls.qualname + ".":
                    cls.methods.setdefault(st.name, fi)
                self._walk_scope(mi, st.body, key + ".<locals>.", None)
            elif isinstance(st, ast.ClassDef):
                qn = prefix + st.name
                ci = ClassInfo(mi, qn, st)
                mi.classes[qn] = ci
                for s2 in st.body:
                    if isinstance(s2, ast.Assign) and len(s2.targets) == 1 and isinstance(s2.targets[0], ast.Name):
                        ci.attrs[s2.targets[0].id] = s2.value
                    elif isinstance(s2, ast.AnnAssign) and isinstance(s2.target, ast.Name):
                        ci.attrs[s2.target.id] = s2.value if s2.value is not None else s2.annotation
                self._walk_scope(mi, st.body, qn + ".", ci)
            elif isinstance(st, (ast.If, ast.Try, ast.With, ast.For, ast.While)):
                for fld in ("body", "orelse", "finalbody"):
                    self._walk_scope(mi, getattr(st, fld, []) or [], prefix, cls)
                for h in getattr(st, "handlers", []) or []:
                    self._walk_scope(mi, h.body, prefix, cls)

    # ------------------------------------------------------------------ lookups (fail closed)
    def module(self, name: str) -> ModuleInfo:
        if name not in self.modules:
            raise AnchorMissing(f"module {name} not found in {self.root}")
        return self.modules[name]

    def func(self, module: str, qualname: str) -> FuncInfo:
        mi = self.module(module)
        if qualname not in mi.functions:
            raise AnchorMissing(f"function {module}:{qualname} not found")
        return mi.functions[qualname]

    def has_func(self, module: str, qualname: str) -> bool:
        return module in self.modules and qualname in self.modules[module].functions

    def cls(self, module: str, qualname: str) -> ClassInfo:
        mi = self.module(module)
        if qualname not in mi.classes:
            raise AnchorMissing(f"class {module}:{qualname} not found")
        return mi.classes[qualname]

    def global_(self, module: str, name: str) -> ast.AST:
        mi = self.module(module)
        if name not in mi.globals_:
            raise AnchorMissing(f"module-level name {module}:{name} not found")
        return mi.globals_[name]

    def all_classes(self) -> Iterator[ClassInfo]:
        for mi in self.modules.values():
            yield from mi.classes.values()

    def all_functions(self) -> Iterator[FuncInfo]:
        for mi in self.modules.values():
            yield from mi.functions.values()

    # ------------------------------------------------------------------ class hierarchy (by name, within repo)
    def resolve_name(self, mi: ModuleInfo, name: str, _depth=0):
        """Resolve a (possibly dotted) name used in module `mi` to a ClassInfo / FuncInfo / ast value / None."""
        if _depth > 8:
            return None
        head, _, rest = name.partition(".")
        if head in mi.classes and not rest:
            return mi.classes[head]
        if name in mi.classes:
            return mi.classes[name]
        if head in mi.functions and not rest:
            return mi.functions[head]
        if head in mi.imports:
            m, attr = mi.imports[head]
            if attr is None:
                target = m + ("." + rest if rest else "")
                # module.attr
                modname, _, a = target.rpartition(".")
                if target in self.modules:
                    return self.modules[target]
                if modname in self.modules:
                    return self.resolve_name(self.modules[modname], a, _depth + 1)
                return None
            # from m import attr
            full = f"{m}.{attr}"
            if full in self.modules and not rest:
                return self.modules[full]
            if full in self.modules and rest:
                return self.resolve_name(self.modules[full], rest, _depth + 1)
            if m in self.modules:
                r = self.resolve_name(self.modules[m], attr + ("." + rest if rest else ""), _depth + 1)
                return r
            return None
        if head in mi.globals_ and not rest:
            v = mi.globals_[head]
            if isinstance(v, ast.Name):
                return self.resolve_name(mi, v.id, _depth + 1)
            return v
        return None

    def bases(self, ci: ClassInfo) -> List[ClassInfo]:
        out = []
        for b in ci.node.bases:
            try:
                nm = ast.unparse(b)
            except Exception:
                continue
            r = self.resolve_name(ci.module, nm)
            if isinstance(r, ClassInfo):
                out.append(r)
        return out

    def mro(self, ci: ClassInfo) -> List[ClassInfo]:
        """Linearisation good enough for single inheritance chains + mixins (depth-first, left to right, dedup)."""
        seen, out = set(), []

        def rec(c):
            if id(c) in seen:
                return
            seen.add(id(c))
            out.append(c)
            for b in self.bases(c):
                rec(b)
        rec(ci)
        return out

    def subclasses(self, ci: ClassInfo, strict=False) -> List[ClassInfo]:
        out = []
        for c in self.all_classes():
            if c is ci:
                if not strict:
                    out.append(c)
                continue
            if any(b is ci for b in self.mro(c)[1:]):
                out.append(c)
        return out

    def lookup_method(self, ci: ClassInfo, name: str) -> Optional[FuncInfo]:
        for c in self.mro(ci):
            if name in c.methods:
                return c.methods[name]
        return None

    def lookup_attr(self, ci: ClassInfo, name: str) -> Optional[ast.AST]:
        for c in self.mro(ci):
            if name in c.attrs:
                return c.attrs[name]
        return None

    def stats(self) -> dict:
        return {
            "modules_parsed": len(self.modules),
            "classes": sum(len(m.classes) for m in self.modules.values()),
            "functions": sum(len(m.functions) for m in self.modules.values()),
            "parse_errors": list(self.parse_errors),
        }
