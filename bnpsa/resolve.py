"""F-RESOLVE: every name loaded in a function resolves (local, closure, module global, import, builtin) and every `self.x` load resolves to an
attribute assigned or defined somewhere in the class hierarchy.  Statements after a return/raise in the same block are unreachable and skipped."""
from __future__ import annotations
import ast
import builtins
from typing import Dict, List, Set, Tuple

from .astutil import u

_BUILTINS = set(dir(builtins)) | {"__class__", "__file__", "__name__", "__doc__"}


def _reachable_stmts(body):
    for s in body:
        yield s
        if isinstance(s, (ast.Return, ast.Raise, ast.Continue, ast.Break)):
            break


def _bound_names(func) -> Set[str]:
    names = set()
    a = func.args
    for x in a.posonlyargs + a.args + a.kwonlyargs:
        names.add(x.arg)
    if a.vararg:
        names.add(a.vararg.arg)
    if a.kwarg:
        names.add(a.kwarg.arg)
    for n in ast.walk(func):
        if n is not func and isinstance(n, (ast.FunctionDef, ast.AsyncFunctionDef, ast.ClassDef)):
            names.add(n.name)
        if isinstance(n, ast.Name) and isinstance(n.ctx, (ast.Store, ast.Del)):
            names.add(n.id)
        elif isinstance(n, (ast.Import, ast.ImportFrom)):
            for al in n.names:
                names.add((al.asname or al.name).split(".")[0])
        elif isinstance(n, ast.ExceptHandler) and n.name:
            names.add(n.name)
        elif isinstance(n, ast.arg):
            names.add(n.arg)
        elif isinstance(n, (ast.Global, ast.Nonlocal)):
            names.update(n.names)
    return names


def _loads(func):
    """(Name node) loads in reachable statements of func, not descending into nested defs (they are analysed on their own)."""
    out = []

    def block(body):
        for s in _reachable_stmts(body):
            stmt(s)

    def stmt(s):
        if isinstance(s, (ast.FunctionDef, ast.AsyncFunctionDef)):
            for d in s.decorator_list:
                expr(d)
            for d in s.args.defaults + [x for x in s.args.kw_defaults if x is not None]:
                expr(d)
            return
        if isinstance(s, ast.ClassDef):
            return
        for fld, val in ast.iter_fields(s):
            if isinstance(val, list) and val and isinstance(val[0], ast.stmt):
                block(val)
            elif isinstance(val, list):
                for v in val:
                    if isinstance(v, ast.expr):
                        expr(v)
                    elif isinstance(v, ast.ExceptHandler):
                        if v.type is not None:
                            expr(v.type)
                        block(v.body)
                    elif isinstance(v, ast.withitem):
                        expr(v.context_expr)
                        if v.optional_vars is not None:
                            expr(v.optional_vars)
                    elif isinstance(v, ast.keyword):
                        expr(v.value)
                    elif isinstance(v, ast.match_case):
                        block(v.body)
            elif isinstance(val, ast.expr):
                expr(val)

    def expr(e):
        for n in ast.walk(e):
            if isinstance(n, ast.Name) and isinstance(n.ctx, ast.Load):
                out.append(n)
    block(func.body)
    return out


def unresolved_names(index, fi) -> List[Tuple[str, int]]:
    mi = fi.module
    bound = _bound_names(fi.node)
    # enclosing function scopes
    parts = fi.qualname.split(".<locals>.")
    enclosing = set()
    for i in range(1, len(parts)):
        q = ".<locals>.".join(parts[:i])
        if q in mi.functions:
            enclosing |= _bound_names(mi.functions[q].node)
    module_names = set(mi.globals_) | set(mi.imports) | set(mi.classes) | {q for q in mi.functions if "." not in q}
    for n in ast.walk(mi.tree):
        if isinstance(n, ast.Name) and isinstance(n.ctx, ast.Store):
            pass
    for st in mi.tree.body:
        for n in ast.walk(st) if not isinstance(st, (ast.FunctionDef, ast.AsyncFunctionDef, ast.ClassDef)) else []:
            if isinstance(n, ast.Name) and isinstance(n.ctx, ast.Store):
                module_names.add(n.id)
    # class body names are visible only through self/cls, but class-level statements may define names used in default args etc.
    out = []
    for n in _loads(fi.node):
        if n.id in bound or n.id in enclosing or n.id in module_names or n.id in _BUILTINS:
            continue
        out.append((n.id, n.lineno))
    return out


def _class_attr_universe(index, ci) -> Tuple[Set[str], bool]:
    """(all attribute names that resolve on instances of ci, closed?) closed = every base is inside the repo (or object)."""
    closed = True
    names = set()
    fam = list(index.mro(ci)) + [c for c in index.subclasses(ci, strict=True)]
    for c in index.mro(ci):
        for b in c.node.bases:
            r = index.resolve_name(c.module, u(b))
            from .index import ClassInfo
            if not isinstance(r, ClassInfo) and u(b) not in ("object",):
                closed = False
    for c in fam:
        names |= set(c.methods) | set(c.attrs)
        for s in c.node.body:
            if isinstance(s, ast.AnnAssign) and isinstance(s.target, ast.Name):
                names.add(s.target.id)
        for fi in c.methods.values():
            for n in ast.walk(fi.node):
                if isinstance(n, ast.Attribute) and isinstance(n.ctx, ast.Store) and isinstance(n.value, ast.Name) and n.value.id in ("self", "cls"):
                    names.add(n.attr)
                if isinstance(n, ast.Call) and u(n.func) == "setattr" and n.args and u(n.args[0]) == "self":
                    closed = False
        if "__getattr__" in c.methods or "__getattribute__" in c.methods:
            closed = False
    return names, closed


def unresolved_self_attrs(index, fi) -> List[Tuple[str, int]]:
    if fi.cls is None:
        return []
    a = fi.node.args.args
    if not a or a[0].arg != "self" or any("staticmethod" in d for d in fi.decorators):
        return []
    names, closed = _class_attr_universe(index, fi.cls)
    if not closed:
        return []
    out = []
    seen = set()

    def block(body):
        for s in _reachable_stmts(body):
            for fld, val in ast.iter_fields(s):
                if isinstance(val, list) and val and isinstance(val[0], ast.stmt):
                    block(val)
                elif isinstance(val, list):
                    for v in val:
                        if isinstance(v, ast.ExceptHandler):
                            block(v.body)
                        elif isinstance(v, (ast.expr, ast.withitem, ast.keyword)):
                            scan(v)
                elif isinstance(val, ast.expr):
                    scan(val)

    def scan(e):
        for n in ast.walk(e):
            if isinstance(n, ast.Attribute) and isinstance(n.ctx, ast.Load) and isinstance(n.value, ast.Name) and n.value.id == "self":
                if n.attr not in names and not (n.attr.startswith("__") and n.attr.endswith("__")) and (n.attr, n.lineno) not in seen:
                    # name-mangled private attribute: __x is stored as _Class__x
                    if n.attr.startswith("__") and any(x.endswith(n.attr) for x in names):
                        continue
                    # guarded by hasattr(self, 'x') in the same function
                    if any(isinstance(c, ast.Call) and u(c.func) == "hasattr" and len(c.args) == 2 and u(c.args[0]) == "self" and getattr(c.args[1], "value", None) == n.attr
                           for c in ast.walk(fi.node)):
                        continue
                    seen.add((n.attr, n.lineno))
                    out.append((n.attr, n.lineno))
    block(fi.node.body)
    return out
